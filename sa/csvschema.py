"""CSV row schema extraction: writer columns (simulator) and reader column uses (data/csv_reader.py)."""
from __future__ import annotations

import ast
import re
from typing import Dict, List, Optional, Tuple

from .core import AnalysisError, call_name, dotted, enclosing_function, loc, norm, parent, src


class Column:
    def __init__(self, kind: str, text: str, expr: Optional[ast.AST] = None):
        self.kind = kind  # 'lit' | 'expr' | 'mixed' | 'tail'
        self.text = text
        self.expr = expr

    def __repr__(self):
        return f"{self.kind}:{self.text}"


class Row:
    def __init__(self, call: ast.Call, tag: str, cols: List[Column]):
        self.call = call
        self.tag = tag
        self.cols = cols
        self.func = enclosing_function(call)

    def describe(self) -> Dict:
        return {"tag": self.tag, "where": loc(self.call), "columns": [repr(c) for c in self.cols]}


def _is_triple_join(fn: ast.AST, name: str) -> bool:
    """`name = ",".join([",".join((a, b, c)) for ...])`: a variable-length tail of triples."""
    for n in ast.walk(fn):
        if isinstance(n, ast.Assign) and len(n.targets) == 1 and isinstance(n.targets[0], ast.Name) and n.targets[0].id == name:
            v = n.value
            if isinstance(v, ast.Call) and isinstance(v.func, ast.Attribute) and v.func.attr == "join" \
                    and isinstance(v.func.value, ast.Constant) and v.func.value.value == ",":
                inner = [c for c in ast.walk(v.args[0]) if isinstance(c, ast.Call) and isinstance(c.func, ast.Attribute)
                         and c.func.attr == "join" and isinstance(c.func.value, ast.Constant) and c.func.value.value == ","]
                for c in inner:
                    if c.args and isinstance(c.args[0], (ast.Tuple, ast.List)) and len(c.args[0].elts) == 3:
                        return True
    return False


def triple_elements(fn: ast.AST, name: str) -> Optional[List[str]]:
    for n in ast.walk(fn):
        if isinstance(n, ast.Assign) and len(n.targets) == 1 and isinstance(n.targets[0], ast.Name) and n.targets[0].id == name:
            for c in ast.walk(n.value):
                if isinstance(c, ast.Call) and isinstance(c.func, ast.Attribute) and c.func.attr == "join" and c.args \
                        and isinstance(c.args[0], (ast.Tuple, ast.List)) and len(c.args[0].elts) == 3:
                    return [norm(e) for e in c.args[0].elts]
    return None


def columns_of(call: ast.Call) -> List[Column]:
    if not call.args:
        raise AnalysisError(f"csv logger call without arguments at {loc(call)}")
    fmt = call.args[0]
    fn = enclosing_function(call)
    cols: List[List[Tuple[str, object]]] = [[]]
    if isinstance(fmt, ast.JoinedStr):
        for v in fmt.values:
            if isinstance(v, ast.Constant):
                parts = str(v.value).split(",")
                for i, p in enumerate(parts):
                    if i > 0:
                        cols.append([])
                    if p != "":
                        cols[-1].append(("lit", p))
            elif isinstance(v, ast.FormattedValue):
                cols[-1].append(("expr", v.value))
    elif isinstance(fmt, ast.Constant) and isinstance(fmt.value, str):
        args = list(call.args[1:])
        pieces = re.split(r"(%[sd])", fmt.value)
        for piece in pieces:
            if piece in ("%s", "%d"):
                if not args:
                    raise AnalysisError(f"csv %-format has more placeholders than arguments at {loc(call)}")
                cols[-1].append(("expr", args.pop(0)))
            else:
                parts = piece.split(",")
                for i, p in enumerate(parts):
                    if i > 0:
                        cols.append([])
                    if p != "":
                        cols[-1].append(("lit", p))
        if args:
            raise AnalysisError(f"csv %-format has fewer placeholders than arguments at {loc(call)}")
    else:
        raise AnalysisError(f"csv logger call with an unrecognised format expression at {loc(call)}: {src(fmt)[:60]}")
    out: List[Column] = []
    for parts in cols:
        if len(parts) == 1 and parts[0][0] == "lit":
            out.append(Column("lit", str(parts[0][1])))
        elif len(parts) == 1 and parts[0][0] == "expr":
            e = parts[0][1]
            if isinstance(e, ast.Name) and fn is not None and _is_triple_join(fn, e.id):
                out.append(Column("tail", e.id, e))
            else:
                out.append(Column("expr", norm(e), e))
        elif not parts:
            out.append(Column("lit", ""))
        else:
            out.append(Column("mixed", "".join(str(p[1]) if p[0] == "lit" else "{" + norm(p[1]) + "}" for p in parts)))
    return out


def row_of(call: ast.Call) -> Row:
    cols = columns_of(call)
    tag = cols[1].text if len(cols) > 1 and cols[1].kind == "lit" else "?"
    return Row(call, tag, cols)


# ---------------------------------------------------------------------------
# Reader
# ---------------------------------------------------------------------------

class Use:
    def __init__(self, tag: str, index: int, binding: str, node: ast.AST, conv: Optional[str]):
        self.tag, self.index, self.binding, self.node, self.conv = tag, index, binding, node, conv

    def __repr__(self):
        return f"{self.tag}[{self.index}]->{self.binding}"


_CTOR_PARAMS: Dict[str, List[str]] = {}


def _load_ctor_params(types_mod) -> None:
    """Constructor parameters (after self) of the record classes of data/csv_types.py, for positional call sites in the reader."""
    _CTOR_PARAMS.clear()
    for c in ast.walk(types_mod.tree):
        if isinstance(c, ast.ClassDef):
            for m in c.body:
                if isinstance(m, ast.FunctionDef) and m.name == "__init__":
                    _CTOR_PARAMS[c.name] = [a.arg for a in (m.args.posonlyargs + m.args.args)[1:]]
            if c.name not in _CTOR_PARAMS and any((isinstance(d, ast.Name) and d.id == "dataclass") or
                                                  (isinstance(d, ast.Call) and isinstance(d.func, ast.Name) and d.func.id == "dataclass") for d in c.decorator_list) \
                    and not c.bases:
                # a dataclass without bases: the generated constructor takes the annotated fields in order
                _CTOR_PARAMS[c.name] = [m.target.id for m in c.body if isinstance(m, ast.AnnAssign) and isinstance(m.target, ast.Name)
                                        and "ClassVar" not in ast.unparse(m.annotation)]


def _binding_of(sub: ast.AST, depth: int = 0) -> Tuple[str, Optional[str]]:
    """What the reader does with reading[i]: (binding description, conversion)."""
    n: ast.AST = sub
    conv = None
    p = parent(n)
    while isinstance(p, ast.Call) and call_name(p) in ("int", "float", "str") and n in p.args:
        conv = call_name(p)
        n = p
        p = parent(n)
    if isinstance(p, ast.keyword):
        call = parent(p)
        return (f"kw:{call_name(call)}.{p.arg}", conv)
    if isinstance(p, ast.Subscript) and p.slice is n:
        return (f"key:{dotted(p.value) or src(p.value)}", conv)
    if isinstance(p, ast.Assign) and p.value is n:
        t = p.targets[0]
        if isinstance(t, ast.Name) and depth < 2:
            # a plain local: what the reader does with the local is the binding
            fn = enclosing_function(p)
            loads = [x for x in ast.walk(fn) if isinstance(x, ast.Name) and x.id == t.id and isinstance(x.ctx, ast.Load)
                     and (x.lineno, x.col_offset) > (p.lineno, p.col_offset)] if fn is not None else []
            ndefs = sum(1 for x in ast.walk(fn) if isinstance(x, ast.Name) and x.id == t.id and isinstance(x.ctx, ast.Store)) if fn else 0
            if len(loads) >= 1 and ndefs == 1:
                alts = []
                for ld in loads:
                    b, c2 = _binding_of(ld, depth + 1)
                    if not b.startswith("other:"):
                        alts.append(b)
                if alts:
                    return (f"assign:{norm(t)}" + "".join("||" + a for a in alts), conv)
        return (f"assign:{norm(t)}", conv)
    if isinstance(p, ast.BinOp):
        pp = parent(p)
        while isinstance(pp, ast.BinOp):
            pp = parent(pp)
        if isinstance(pp, ast.keyword):
            return (f"kwexpr:{call_name(parent(pp))}.{pp.arg}", conv)
        if isinstance(pp, ast.Assign):
            return (f"assignexpr:{norm(pp.targets[0])}", conv)
    if isinstance(p, ast.Call) and n in p.args:
        params = _CTOR_PARAMS.get(call_name(p) or "")
        k = [j for j, a in enumerate(p.args) if a is n][0]
        if params is not None and isinstance(p.func, ast.Name) and k < len(params) and not any(isinstance(a, ast.Starred) for a in p.args[:k + 1]):
            return (f"kw:{call_name(p)}.{params[k]}", conv)  # positional argument of a record constructor: the parameter it lands in
        return (f"arg:{call_name(p)}", conv)
    if isinstance(p, ast.Compare):
        return ("compare", conv)
    if isinstance(p, ast.IfExp):
        pp = parent(p)
        if isinstance(pp, ast.keyword):
            return (f"kw:{call_name(parent(pp))}.{pp.arg}", conv)
    return (f"other:{type(p).__name__}", conv)


def reader_cases(reader_mod, types_mod) -> Tuple[Dict[str, List[Use]], Dict[str, Dict], ast.FunctionDef]:
    """tag -> uses; tag -> {'tail_start': k} for variable-length tails."""
    cls = reader_mod.cls("CSVReader")
    _load_ctor_params(types_mod)
    fn = None
    for n in cls.body:
        if isinstance(n, ast.FunctionDef) and n.name == "parse_events":
            fn = n
    if fn is None:
        raise AnalysisError("CSVReader.parse_events not found")
    uses: Dict[str, List[Use]] = {}
    extra: Dict[str, Dict] = {}
    order: List[str] = []
    for node in ast.walk(fn):
        if isinstance(node, ast.If) and isinstance(node.test, ast.Compare) and isinstance(node.test.left, ast.Subscript) \
                and isinstance(node.test.left.value, ast.Name) and len(node.test.comparators) == 1 \
                and isinstance(node.test.comparators[0], ast.Constant) and isinstance(node.test.comparators[0].value, str):
            var = node.test.left.value.id
            idx = node.test.left.slice.value if isinstance(node.test.left.slice, ast.Constant) else None
            tag = node.test.comparators[0].value
            if idx == 0:
                tag = "@0:" + tag
            order.append(tag)
            lst = uses.setdefault(tag, [])
            ex = extra.setdefault(tag, {})
            body = ast.Module(body=node.body, type_ignores=[])
            _collect(body, var, tag, lst, ex)
            # follow update_*(reading, ...) helpers into csv_types
            for c in [c for c in ast.walk(body) if isinstance(c, ast.Call) and isinstance(c.func, ast.Attribute)]:
                if any(isinstance(a, ast.Name) and a.id == var for a in c.args):
                    pos = [i for i, a in enumerate(c.args) if isinstance(a, ast.Name) and a.id == var][0]
                    for tcls in types_mod.classes():
                        for m in tcls.body:
                            if isinstance(m, ast.FunctionDef) and m.name == c.func.attr and len(m.args.args) > pos + 1:
                                pname = m.args.args[pos + 1].arg
                                recv = src(c.func.value)
                                # only follow into the class that plausibly owns the receiver
                                if _owner_ok(recv, tcls.name):
                                    ex.setdefault("helpers", []).append(f"{tcls.name}.{m.name}")
                                    _collect(m, pname, tag, lst, ex, skip_asserts=True)
    extra["__order__"] = {"order": order}
    return uses, extra, fn


def _owner_ok(recv: str, cls: str) -> bool:
    if recv.startswith("tasks["):
        return cls == "Task"
    if recv.startswith("schedulers["):
        return cls == "Scheduler"
    if recv.startswith("simulator"):
        return cls == "Simulator"
    if recv.startswith("task_graphs["):
        return cls == "TaskGraph"
    return True


def _collect(root: ast.AST, var: str, tag: str, lst: List[Use], ex: Dict, skip_asserts: bool = False) -> None:
    for n in ast.walk(root):
        if isinstance(n, ast.Subscript) and isinstance(n.value, ast.Name) and n.value.id == var:
            if skip_asserts:
                a = parent(n)
                is_assert = False
                while a is not None and a is not root:
                    if isinstance(a, ast.Assert):
                        is_assert = True
                    a = parent(a)
                if is_assert:
                    continue
            if isinstance(n.slice, ast.Constant) and isinstance(n.slice.value, int):
                b, conv = _binding_of(n)
                lst.append(Use(tag, n.slice.value, b, n, conv))
            elif isinstance(n.slice, ast.Slice):
                # reading[i : i + 3] inside `for i in range(k, len(reading), 3)`
                comp = parent(n)
                while comp is not None and not isinstance(comp, (ast.ListComp, ast.For, ast.GeneratorExp)):
                    comp = parent(comp)
                rng = None
                if isinstance(comp, (ast.ListComp, ast.GeneratorExp)):
                    rng = comp.generators[0].iter
                elif isinstance(comp, ast.For):
                    rng = comp.iter
                if isinstance(rng, ast.Call) and call_name(rng) == "range" and len(rng.args) == 3 \
                        and isinstance(rng.args[0], ast.Constant) and isinstance(rng.args[2], ast.Constant):
                    ex["tail_start"] = rng.args[0].value
                    ex["tail_step"] = rng.args[2].value
                    ex["tail_node"] = n
