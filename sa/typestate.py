"""Finite-domain abstract interpreter over enum-valued fields of one class.

Used to extract the transition relation of `Task` (fields `_state`,
`_pre_scheduling_state` over `TaskState`) from the method bodies themselves:
tests on the tracked fields are evaluated concretely, every other test forks.
"""
from __future__ import annotations

import ast
from typing import Dict, List, Optional, Set, Tuple

from .core import AnalysisError, Module, dotted, is_self_attr, methods, src

UNKNOWN = ("unknown",)


def enum_members(cls: ast.ClassDef) -> Dict[str, int]:
    out: Dict[str, int] = {}
    for s in cls.body:
        if isinstance(s, ast.Assign) and len(s.targets) == 1 and isinstance(s.targets[0], ast.Name):
            if isinstance(s.value, ast.Constant) and isinstance(s.value.value, (int, float)):
                out[s.targets[0].id] = s.value.value
    return out


def enum_orders_by_value(cls: ast.ClassDef) -> bool:
    """`__lt__` of the enum is `self.value < other.value` (so < follows the integers)."""
    for s in cls.body:
        if isinstance(s, ast.FunctionDef) and s.name == "__lt__":
            rets = [n for n in ast.walk(s) if isinstance(n, ast.Return)]
            if len(rets) == 1 and isinstance(rets[0].value, ast.Compare):
                c = rets[0].value
                if (
                    len(c.ops) == 1
                    and isinstance(c.ops[0], ast.Lt)
                    and dotted(c.left) == "self.value"
                    and dotted(c.comparators[0]) == "other.value"
                ):
                    return True
            return False
    return False


class Outcome:
    __slots__ = ("kind", "fields", "trace")

    def __init__(self, kind: str, fields: Dict[str, str], trace: Tuple[str, ...]):
        self.kind = kind  # 'normal' | 'return' | 'raise'
        self.fields = fields
        self.trace = trace

    def key(self):
        return (self.kind, tuple(sorted(self.fields.items())))


class Interp:
    def __init__(self, module: Module, cls: ast.ClassDef, enum_cls: ast.ClassDef,
                 tracked: List[str], aliases: Dict[str, str], max_depth: int = 3):
        self.module = module
        self.cls = cls
        self.enum_name = enum_cls.name
        self.members = enum_members(enum_cls)
        if not self.members:
            raise AnalysisError(f"enum {enum_cls.name} has no integer members")
        if not enum_orders_by_value(enum_cls):
            raise AnalysisError(f"{enum_cls.name}.__lt__ is not the value order; cannot evaluate < on states")
        self.tracked = tracked
        self.aliases = aliases  # property name -> tracked field
        self.methods = methods(cls)
        self.max_depth = max_depth
        self.consts: Dict[str, ast.AST] = {}
        for s in module.tree.body:
            if isinstance(s, ast.Assign) and len(s.targets) == 1 and isinstance(s.targets[0], ast.Name):
                self.consts[s.targets[0].id] = s.value
        self.unresolved_writes: List[str] = []
        # dotted expressions that denote a tracked field of the analysed object when
        # the class is looked at from outside (e.g. `placement.task.state` -> `_state`)
        self.dotted_aliases: Dict[str, str] = {}

    # -- expression evaluation ---------------------------------------------
    def ev(self, e: ast.AST, fields: Dict[str, str], depth: int = 0):
        if isinstance(e, ast.Attribute):
            if is_self_attr(e):
                if e.attr in self.tracked:
                    return ("enum", fields[e.attr])
                if e.attr in self.aliases:
                    return ("enum", fields[self.aliases[e.attr]])
            d = dotted(e)
            if d and d in self.dotted_aliases:
                return ("enum", fields[self.dotted_aliases[d]])
            if d and d.startswith(self.enum_name + ".") and d.split(".")[-1] in self.members and d.count(".") == 1:
                return ("enum", d.split(".")[-1])
            return UNKNOWN
        if isinstance(e, ast.Name):
            if e.id in self.consts:
                return self.ev(self.consts[e.id], fields, depth)
            return UNKNOWN
        if isinstance(e, ast.Constant):
            if isinstance(e.value, bool):
                return ("bool", e.value)
            if e.value is None:
                return ("none",)
            return UNKNOWN
        if isinstance(e, (ast.Tuple, ast.List, ast.Set)):
            return ("tuple", [self.ev(x, fields, depth) for x in e.elts])
        if isinstance(e, ast.UnaryOp) and isinstance(e.op, ast.Not):
            v = self.ev(e.operand, fields, depth)
            return ("bool", not v[1]) if v[0] == "bool" else UNKNOWN
        if isinstance(e, ast.BoolOp):
            vals = [self.ev(v, fields, depth) for v in e.values]
            if isinstance(e.op, ast.And):
                if any(v == ("bool", False) for v in vals):
                    return ("bool", False)
                if all(v == ("bool", True) for v in vals):
                    return ("bool", True)
                return UNKNOWN
            if any(v == ("bool", True) for v in vals):
                return ("bool", True)
            if all(v == ("bool", False) for v in vals):
                return ("bool", False)
            return UNKNOWN
        if isinstance(e, ast.Compare):
            res = []
            left = e.left
            for op, right in zip(e.ops, e.comparators):
                res.append(self._cmp(self.ev(left, fields, depth), op, self.ev(right, fields, depth)))
                left = right
            if any(r == ("bool", False) for r in res):
                return ("bool", False)
            if all(r == ("bool", True) for r in res):
                return ("bool", True)
            return UNKNOWN
        if isinstance(e, ast.Call):
            # self.m() where m is a pure single-return predicate of the class
            if is_self_attr(e.func) and e.func.attr in self.methods and depth < self.max_depth:
                m = self.methods[e.func.attr]
                body = [s for s in m.body if not (isinstance(s, ast.Expr) and isinstance(s.value, ast.Constant))]
                if len(body) == 1 and isinstance(body[0], ast.Return) and body[0].value is not None:
                    return self.ev(body[0].value, fields, depth + 1)
            return UNKNOWN
        if isinstance(e, ast.IfExp):
            t = self.ev(e.test, fields, depth)
            if t == ("bool", True):
                return self.ev(e.body, fields, depth)
            if t == ("bool", False):
                return self.ev(e.orelse, fields, depth)
            a, b = self.ev(e.body, fields, depth), self.ev(e.orelse, fields, depth)
            return a if a == b else UNKNOWN
        return UNKNOWN

    def _cmp(self, a, op, b):
        if isinstance(op, (ast.In, ast.NotIn)):
            if a[0] == "enum" and b[0] == "tuple" and all(x[0] == "enum" for x in b[1]):
                r = any(x[1] == a[1] for x in b[1])
                return ("bool", r if isinstance(op, ast.In) else not r)
            return UNKNOWN
        if a[0] == "enum" and b[0] == "enum":
            x, y = self.members[a[1]], self.members[b[1]]
            table = {
                ast.Eq: x == y, ast.NotEq: x != y, ast.Lt: x < y, ast.LtE: x <= y,
                ast.Gt: x > y, ast.GtE: x >= y, ast.Is: x == y, ast.IsNot: x != y,
            }
            for k, v in table.items():
                if isinstance(op, k):
                    return ("bool", v)
        return UNKNOWN

    # -- statement execution --------------------------------------------------
    def run_method(self, name: str, fields: Dict[str, str]) -> List[Outcome]:
        m = self.methods.get(name)
        if m is None:
            raise AnalysisError(f"{self.cls.name}.{name} not found")
        outs = self._block(m.body, dict(fields), (), 0)
        # fold 'normal' into 'return'
        res: Dict[Tuple, Outcome] = {}
        for o in outs:
            if o.kind == "normal":
                o = Outcome("return", o.fields, o.trace)
            res.setdefault(o.key(), o)
        return list(res.values())

    def _block(self, stmts, fields, trace, depth) -> List[Outcome]:
        live = [Outcome("normal", fields, trace)]
        for s in stmts:
            nxt: List[Outcome] = []
            seen = set()
            for o in live:
                if o.kind != "normal":
                    if o.key() not in seen:
                        seen.add(o.key())
                        nxt.append(o)
                    continue
                for r in self._stmt(s, dict(o.fields), o.trace, depth):
                    if r.key() not in seen:
                        seen.add(r.key())
                        nxt.append(r)
            live = nxt
            if not any(o.kind == "normal" for o in live):
                break
        return live

    def _stmt(self, s, fields, trace, depth) -> List[Outcome]:
        if isinstance(s, ast.If):
            t = self.ev(s.test, fields)
            outs: List[Outcome] = []
            if t != ("bool", False):
                tr = trace if t == ("bool", True) else trace + (f"T:{src(s.test)[:50]}",)
                outs += self._block(s.body, dict(fields), tr, depth)
            if t != ("bool", True):
                tr = trace if t == ("bool", False) else trace + (f"F:{src(s.test)[:50]}",)
                outs += self._block(s.orelse, dict(fields), tr, depth)
            return outs
        if isinstance(s, ast.Raise):
            return [Outcome("raise", fields, trace + (f"raise@{s.lineno}",))]
        if isinstance(s, ast.Return):
            outs = self._calls_in_expr(s.value, fields, trace, depth) if s.value is not None else [Outcome("normal", fields, trace)]
            return [Outcome("return", o.fields, o.trace) if o.kind == "normal" else o for o in outs]
        if isinstance(s, ast.Assert):
            t = self.ev(s.test, fields)
            outs = []
            if t != ("bool", True):
                outs.append(Outcome("raise", dict(fields), trace + (f"assert@{s.lineno}",)))
            if t != ("bool", False):
                outs.append(Outcome("normal", fields, trace))
            return outs
        if isinstance(s, (ast.Assign, ast.AnnAssign, ast.AugAssign)):
            targets = s.targets if isinstance(s, ast.Assign) else [s.target]
            value = s.value
            outs = self._calls_in_expr(value, fields, trace, depth) if value is not None else [Outcome("normal", fields, trace)]
            res = []
            for o in outs:
                if o.kind != "normal":
                    res.append(o)
                    continue
                f = dict(o.fields)
                for t in targets:
                    if is_self_attr(t) and t.attr in self.tracked:
                        if isinstance(s, ast.AugAssign):
                            raise AnalysisError(f"augmented assignment to {t.attr} at line {s.lineno}")
                        v = self.ev(value, f)
                        if v[0] != "enum":
                            raise AnalysisError(
                                f"{self.cls.name}: `{src(s)}` (line {s.lineno}) assigns {t.attr} from a value "
                                "the finite-domain interpreter cannot resolve"
                            )
                        f[t.attr] = v[1]
                res.append(Outcome("normal", f, o.trace))
            return res
        if isinstance(s, ast.Expr):
            return self._calls_in_expr(s.value, fields, trace, depth)
        if isinstance(s, (ast.For, ast.While)):
            zero = self._block(s.orelse, dict(fields), trace, depth) if s.orelse else [Outcome("normal", fields, trace)]
            once = self._block(s.body, dict(fields), trace, depth)
            res = list(zero)
            for o in once:
                res.append(o if o.kind != "normal" else Outcome("normal", o.fields, o.trace))
            return res
        if isinstance(s, ast.With):
            return self._block(s.body, fields, trace, depth)
        if isinstance(s, ast.Try):
            outs = self._block(s.body, dict(fields), trace, depth)
            for h in s.handlers:
                outs += self._block(h.body, dict(fields), trace, depth)
            return outs
        return [Outcome("normal", fields, trace)]

    def _calls_in_expr(self, e, fields, trace, depth) -> List[Outcome]:
        """Inline `self.m(...)` calls (in evaluation order) that may raise or write state."""
        live = [Outcome("normal", fields, trace)]
        if e is None:
            return live
        calls = [n for n in ast.walk(e) if isinstance(n, ast.Call) and is_self_attr(n.func) and n.func.attr in self.methods]
        calls.sort(key=lambda c: (c.end_lineno or 0, c.end_col_offset or 0))
        for c in calls:
            m = self.methods[c.func.attr]
            if not self._interesting(m):
                continue
            if depth >= self.max_depth:
                raise AnalysisError(f"inlining depth exceeded at {self.cls.name}.{m.name}")
            nxt = []
            for o in live:
                if o.kind != "normal":
                    nxt.append(o)
                    continue
                for r in self._block(m.body, dict(o.fields), o.trace + (f"call:{m.name}",), depth + 1):
                    if r.kind == "raise":
                        nxt.append(r)
                    else:
                        nxt.append(Outcome("normal", r.fields, r.trace))
            live = nxt
        return live

    def _interesting(self, m: ast.FunctionDef, _stack: Optional[Set[str]] = None) -> bool:
        """May `m` raise or write a tracked field (directly or through self-calls)?"""
        stack = _stack or set()
        if m.name in stack:
            return False
        stack = stack | {m.name}
        for n in ast.walk(m):
            if isinstance(n, (ast.Raise, ast.Assert)):
                return True
            if isinstance(n, (ast.Assign, ast.AugAssign)):
                ts = n.targets if isinstance(n, ast.Assign) else [n.target]
                if any(is_self_attr(t) and t.attr in self.tracked for t in ts):
                    return True
            if isinstance(n, ast.Call) and is_self_attr(n.func) and n.func.attr in self.methods:
                if self._interesting(self.methods[n.func.attr], stack):
                    return True
        return False


def state_writers(cls: ast.ClassDef, tracked: List[str]) -> Dict[str, List[ast.AST]]:
    """method name -> the assignment nodes that write a tracked field."""
    out: Dict[str, List[ast.AST]] = {}
    for name, m in methods(cls).items():
        for n in ast.walk(m):
            if isinstance(n, (ast.Assign, ast.AugAssign, ast.AnnAssign)):
                ts = n.targets if isinstance(n, ast.Assign) else [n.target]
                for t in ts:
                    if is_self_attr(t) and t.attr in tracked:
                        out.setdefault(name, []).append(n)
    return out
