"""Role-based location of the repository's anchors (handlers, classes, emitters)."""
from __future__ import annotations

import ast
from typing import Dict, List, Optional, Tuple

from . import cfg as cfgmod
from .core import (
    AnalysisError,
    Module,
    Repo,
    call_name,
    dotted,
    is_self_attr,
    method,
    methods,
    walk_no_nested_defs,
)

SIM = "simulator.py"
TASKS = "workload/tasks.py"
WORKERS = "workers/workers.py"
RESOURCES = "workload/resources.py"
GRAPH = "workload/graph.py"
JOBS = "workload/jobs.py"
WORKLOAD = "workload/workload.py"
UTILS = "utils.py"


class Sim:
    """The Simulator class and its event handlers, found through the dispatch that
    compares `event.event_type` with `EventType` members."""

    def __init__(self, repo: Repo):
        self.mod = repo.mod(SIM)
        self.cls = self.mod.cls("Simulator")
        self.methods = methods(self.cls)
        self.dispatch = self._find_dispatch()
        self.handlers: Dict[str, ast.FunctionDef] = {}
        self.inline_branches: Dict[str, List[ast.stmt]] = {}
        self._map_handlers()

    def _find_dispatch(self) -> ast.FunctionDef:
        best = None
        best_n = 0
        for m in self.methods.values():
            n = 0
            for node in ast.walk(m):
                if isinstance(node, ast.Compare) and dotted(node.left) == "event.event_type":
                    if any((dotted(c) or "").startswith("EventType.") for c in node.comparators):
                        n += 1
            if n > best_n:
                best, best_n = m, n
        if best is None or best_n < 8:
            raise AnalysisError("Simulator event dispatch (event.event_type == EventType.X chain) not found")
        return best

    def _map_handlers(self) -> None:
        for node in ast.walk(self.dispatch):
            if isinstance(node, ast.If) and isinstance(node.test, ast.Compare):
                c = node.test
                if dotted(c.left) == "event.event_type" and len(c.ops) == 1 and isinstance(c.ops[0], ast.Eq):
                    et = dotted(c.comparators[0]) or ""
                    if et.startswith("EventType."):
                        name = et.split(".", 1)[1]
                        self.inline_branches[name] = node.body
                        for s in node.body:
                            for call in [n for n in ast.walk(s) if isinstance(n, ast.Call)]:
                                if is_self_attr(call.func) and call.func.attr in self.methods:
                                    if any(isinstance(a, ast.Name) and a.id == "event" for a in call.args):
                                        self.handlers.setdefault(name, self.methods[call.func.attr])

    def handler(self, event_type: str) -> ast.FunctionDef:
        h = self.handlers.get(event_type)
        if h is None:
            raise AnalysisError(f"no handler method found for EventType.{event_type} in the dispatch")
        return h

    def method(self, name: str) -> ast.FunctionDef:
        return method(self.cls, name)

    def method_calling(self, callee: str) -> List[ast.FunctionDef]:
        out = []
        for m in self.methods.values():
            for n in ast.walk(m):
                if isinstance(n, ast.Call) and call_name(n) == callee:
                    out.append(m)
                    break
        return out


def event_type_of(call: ast.Call) -> Optional[str]:
    """For `Event(event_type=EventType.X, ...)` returns 'X'; for event_type=<expr> returns '?<expr>'."""
    if call_name(call) != "Event":
        return None
    v = None
    for kw in call.keywords:
        if kw.arg == "event_type":
            v = kw.value
    if v is None and call.args:
        v = call.args[0]
    if v is None:
        return None
    d = dotted(v) or ""
    if d.startswith("EventType."):
        return d.split(".", 1)[1]
    return "?" + (d or ast.unparse(v))


def event_constructions(node: ast.AST, event_type: Optional[str] = None) -> List[ast.Call]:
    out = []
    for n in ast.walk(node):
        if isinstance(n, ast.Call):
            et = event_type_of(n)
            if et is not None and (event_type is None or et == event_type):
                out.append(n)
    return out


def csv_calls(func: ast.AST) -> List[ast.Call]:
    """Calls on a `*csv_logger` object: self._csv_logger.debug(...) / .info(...)."""
    out = []
    for n in ast.walk(func):
        if isinstance(n, ast.Call) and isinstance(n.func, ast.Attribute):
            d = dotted(n.func.value) or ""
            if d.endswith("csv_logger") and n.func.attr in ("debug", "info", "warning", "error"):
                out.append(n)
    return out
