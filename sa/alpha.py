"""Alpha-normalisation of local variable names against the reference naming of the pinned tree.

Many rules recognise constructs through the local names the repository uses today (`completed_tasks`, `task_variable`, ...).
A consistent rename of a local is behaviour preserving and must not make a rule fire. Before the rules see a function, its
locals are therefore aligned with the locals recorded for the same function in `reference/locals.json` (generated from the pinned
tree by tools/gen_reference.py): every local is described by the *shape* of its first definition (kind of binding and the
defining expression with all local names masked); the two shape sequences are aligned (difflib) and a local whose shape
matches a reference local at the aligned position is renamed to the reference name. Locals whose definition changed keep
their own name, so a real change of a definition or of a use is still seen by the rules under the names it is written with.
"""
from __future__ import annotations

import ast
import difflib
import hashlib
import json
import os
from typing import Dict, List, Optional, Tuple

REF_PATH = os.path.join(os.path.dirname(os.path.dirname(os.path.abspath(__file__))), "reference", "locals.json")
_REF: Optional[Dict[str, List[List[str]]]] = None
_NF_CACHE: Dict[Tuple[str, str], str] = {}


def _ref() -> Dict[str, List[List[str]]]:
    global _REF
    if _REF is None:
        try:
            _REF = json.load(open(REF_PATH))
        except (OSError, ValueError):
            _REF = {}
    return _REF


def function_locals(fn: ast.AST) -> List[str]:
    params = {a.arg for a in fn.args.args + fn.args.kwonlyargs + fn.args.posonlyargs}
    if fn.args.vararg:
        params.add(fn.args.vararg.arg)
    if fn.args.kwarg:
        params.add(fn.args.kwarg.arg)
    declared = set()
    order: List[str] = []
    for n in _walk_in_order(fn):
        if isinstance(n, (ast.Global, ast.Nonlocal)):
            declared |= set(n.names)
        if isinstance(n, ast.Name) and isinstance(n.ctx, (ast.Store, ast.Del)) and n.id not in params and n.id not in order:
            order.append(n.id)
        if isinstance(n, ast.ExceptHandler) and n.name and n.name not in order and n.name not in params:
            order.append(n.name)
    return [x for x in order if x not in declared and x != "_"]


def _walk_in_order(node: ast.AST):
    """Source-order traversal (ast.walk is breadth first)."""
    yield node
    for ch in ast.iter_child_nodes(node):
        yield from _walk_in_order(ch)


class _Mask(ast.NodeTransformer):
    def __init__(self, names):
        self.names = names

    def visit_Name(self, node):
        return ast.copy_location(ast.Name(id="?", ctx=node.ctx), node) if node.id in self.names else node


def _masked(e: Optional[ast.AST], names) -> str:
    if e is None:
        return ""
    try:
        return ast.unparse(_Mask(names).visit(ast.parse(ast.unparse(e), mode="eval").body))
    except Exception:
        return type(e).__name__


def shapes(fn: ast.AST) -> List[Tuple[str, str]]:
    """[(local name, shape of its first definition)] in source order of first definition."""
    locs = function_locals(fn)
    names = set(locs)
    first: Dict[str, str] = {}
    parents: Dict[int, ast.AST] = {}
    for p in _walk_in_order(fn):
        for ch in ast.iter_child_nodes(p):
            parents[id(ch)] = p
    for n in _walk_in_order(fn):
        if isinstance(n, ast.ExceptHandler) and n.name in names and n.name not in first:
            first[n.name] = "except:" + _masked(n.type, names)
        if not (isinstance(n, ast.Name) and isinstance(n.ctx, (ast.Store, ast.Del)) and n.id in names and n.id not in first):
            continue
        # climb to the binding construct
        path = [n]
        p = parents.get(id(n))
        while p is not None and isinstance(p, (ast.Tuple, ast.List, ast.Starred)):
            path.append(p)
            p = parents.get(id(p))
        pos = ""
        if len(path) > 1 and isinstance(path[1], (ast.Tuple, ast.List)):
            pos = str([i for i, x in enumerate(path[1].elts) if x is path[0]][:1])
        if isinstance(p, ast.Assign):
            first[n.id] = f"assign{pos}:" + _masked(p.value, names)
        elif isinstance(p, ast.AnnAssign):
            first[n.id] = "assign:" + _masked(p.value, names)
        elif isinstance(p, ast.AugAssign):
            first[n.id] = f"aug{type(p.op).__name__}:" + _masked(p.value, names)
        elif isinstance(p, (ast.For, ast.AsyncFor)):
            first[n.id] = f"for{pos}:" + _masked(p.iter, names)
        elif isinstance(p, ast.comprehension):
            first[n.id] = f"comp{pos}:" + _masked(p.iter, names)
        elif isinstance(p, ast.withitem):
            first[n.id] = "with:" + _masked(p.context_expr, names)
        elif isinstance(p, ast.NamedExpr):
            first[n.id] = "walrus:" + _masked(p.value, names)
        else:
            first[n.id] = type(p).__name__ if p is not None else "?"
    return [(x, first.get(x, "?")) for x in locs]


def qual(fn: ast.AST, stack: List[str]) -> str:
    return ".".join(stack + [fn.name])


def iter_functions(tree: ast.AST):
    """Outermost functions and methods with their qualified names (nested defs are normalised with their parent)."""
    def rec(node, stack):
        for ch in ast.iter_child_nodes(node):
            if isinstance(ch, (ast.FunctionDef, ast.AsyncFunctionDef)):
                yield qual(ch, stack), ch
            elif isinstance(ch, ast.ClassDef):
                yield from rec(ch, stack + [ch.name])
            else:
                yield from rec(ch, stack)
    yield from rec(tree, [])


def _all_quals(tree: ast.AST) -> List[str]:
    out = []

    def rec(node, stack):
        for ch in ast.iter_child_nodes(node):
            if isinstance(ch, (ast.FunctionDef, ast.AsyncFunctionDef)):
                out.append(".".join(stack + [ch.name]))
            elif isinstance(ch, ast.ClassDef):
                rec(ch, stack + [ch.name])
            else:
                rec(ch, stack)
    rec(tree, [])
    return out


def _mapping(fn: ast.AST, rshapes) -> Dict[str, str]:
    cur = shapes(fn)
    a = [c[1] for c in cur]
    b = [r[1] for r in rshapes]
    mapping: Dict[str, str] = {}
    sm = difflib.SequenceMatcher(a=a, b=b, autojunk=False)
    for blk in sm.get_matching_blocks():
        for k in range(blk.size):
            cn, rn = cur[blk.a + k][0], rshapes[blk.b + k][0]
            if cn != rn:
                mapping[cn] = rn
    if not mapping:
        return {}
    # never rename onto a name that stays in use by another (unmapped) local or a parameter
    cur_names = {c[0] for c in cur}
    params = {x.arg for x in fn.args.args + fn.args.kwonlyargs}
    # ... nor onto a name the function mentions without binding it (a global, a builtin, or a local whose binding was removed):
    # the rename would capture that use
    mentioned = {n.id for n in ast.walk(fn) if isinstance(n, ast.Name)} | {a.arg for n in ast.walk(fn) if isinstance(n, ast.Lambda) for a in n.args.args}
    safe = {c: r for c, r in mapping.items() if (r not in cur_names or r in mapping) and r not in params and (r not in mentioned or r in mapping)}
    # a chain a->b, b->c is fine (simultaneous substitution); a->b with b unmapped was excluded above
    if len(set(safe.values())) != len(safe):
        return {}
    return safe


def _rename(fn: ast.AST, safe: Dict[str, str]) -> int:
    renamed = 0
    own = {id(a) for a in fn.args.args + fn.args.kwonlyargs + fn.args.posonlyargs}
    for n in ast.walk(fn):
        if isinstance(n, ast.Name) and n.id in safe:
            n.id = safe[n.id]
            renamed += 1
        elif isinstance(n, ast.arg) and id(n) not in own and n.arg in safe:
            n.arg = safe[n.arg]  # parameter of a lambda / nested function that shadows the renamed local
        elif isinstance(n, ast.ExceptHandler) and n.name in safe:
            n.name = safe[n.name]
    return renamed


def normalise(tree: ast.AST, rel: str, src: Optional[str] = None) -> int:
    """Bring the functions of `tree` (in place) back to the reference form where a behaviour-preserving rewrite separates them.
    Per function that is not textually the pinned one, cheapest first: (1) locals renamed to the reference names where their
    definitions align; (2) normal form (sa/nf.py) equal to the pinned function's -> the pinned function is substituted; (3) piecewise
    canonicalisation (sa/canon.py: new locals substituted, inlined locals re-bound, tests in their reference form), then (1) and (2)
    once more. New private helpers of a class are substituted at their call sites before all that. -> number of changes."""
    from . import canon
    ref = _ref().get(rel)
    if not ref:
        return 0
    if src is not None and ref.get("__sha1__") == hashlib.sha1(src.encode("utf-8")).hexdigest():
        return 0  # the file is the one the reference was taken from
    changed = 0
    sigs = dict(_ref().get("__sigs__", {}))
    sigs.update(ref.get("__sigs__", {}))
    debug = os.environ.get("VERIF_CANON_DEBUG") == "1"
    use_canon = os.environ.get("VERIF_NO_CANON") != "1"
    use_nf = os.environ.get("VERIF_NO_NF") != "1"
    rfuncs = set(ref.get("__functions__", []))
    if rfuncs and use_canon:
        try:
            changed += canon.inline_new_helpers(tree, rfuncs)
        except Exception:
            if debug:
                raise

    def nf_equal(q, fn, entry) -> bool:
        if not use_nf or entry.get("src") is None:
            return False
        from . import nf
        try:
            want = _NF_CACHE.get((rel, q))
            if want is None:
                want = _NF_CACHE[(rel, q)] = nf.nf_text(ast.parse(entry["src"]).body[0], sigs)
            return nf.nf_text(fn, sigs) == want
        except Exception:
            if debug:
                raise
            return False

    def substitute(fn, entry) -> bool:
        rfn = ast.parse(entry["src"]).body[0]
        ast.increment_lineno(rfn, max(0, fn.lineno - rfn.lineno))
        rfn.decorator_list = fn.decorator_list
        return _swap(tree, fn, rfn)

    for q, fn in list(iter_functions(tree)):
        entry = ref.get(q)
        if not entry:
            continue
        rsrc = entry.get("src")
        if rsrc is not None and ast.unparse(fn) == rsrc:
            continue  # textually the pinned function
        rshapes = entry.get("locals", [])
        rnames = {r[0] for r in rshapes}
        # (1) a consistent rename of locals and nothing else
        if function_locals(fn) != [r[0] for r in rshapes]:
            safe = _mapping(fn, rshapes)
            if safe:
                changed += _rename(fn, safe)
            if rsrc is not None and ast.unparse(fn) == rsrc:
                continue
        # (2) the pinned function written differently
        if nf_equal(q, fn, entry):
            changed += 1 if substitute(fn, entry) else 0
            continue
        # (3) piecewise, then once more
        if not use_canon:
            continue
        n_canon = 0
        try:
            if rsrc and "next(" not in rsrc:
                n_canon += canon.expand_next_search(fn)
            ref_nested = {n.name for n in ast.walk(ast.parse(rsrc)) if isinstance(n, ast.FunctionDef)} if rsrc else set()
            n_canon += canon.inline_local_functions(fn, keep=ref_nested)
            n_canon += canon.drop_self_assignments(fn)
            n_canon += canon.drop_redundant_rebindings(fn)
        except Exception:
            if debug:
                raise
        for step in ("locals", "rehoist", "tests", "locals2"):
            try:
                if step in ("locals", "locals2"):
                    m = _mapping(fn, rshapes) if function_locals(fn) != [r[0] for r in rshapes] else {}
                    n_canon += canon.inline_new_locals(fn, rnames, keep=set(m))
                elif step == "rehoist":
                    n_canon += canon.rehoist_locals(fn, entry, _masked, function_locals)
                else:
                    n_canon += canon.canon_tests(fn, entry)
            except Exception:
                if debug:
                    raise
        changed += n_canon
        if function_locals(fn) != [r[0] for r in rshapes]:
            safe = _mapping(fn, rshapes)
            if safe:
                changed += _rename(fn, safe)
                n_canon += 1
        if n_canon and rsrc is not None and ast.unparse(fn) != rsrc and nf_equal(q, fn, entry):
            changed += 1 if substitute(fn, entry) else 0
    return changed


def _swap(tree: ast.AST, old: ast.AST, new: ast.AST) -> bool:
    for p in ast.walk(tree):
        b = getattr(p, "body", None)
        if isinstance(b, list):
            for k, ch in enumerate(b):
                if ch is old:
                    b[k] = new
                    return True
    return False


FLIP = {ast.Lt: ast.Gt, ast.Gt: ast.Lt, ast.LtE: ast.GtE, ast.GtE: ast.LtE, ast.Eq: ast.Eq, ast.NotEq: ast.NotEq}


def syntax_sets(fn: ast.AST):
    """(texts of If/While/IfExp tests, texts of single-operator comparisons, texts of and/or expressions) of a function."""
    tests, compares, boolops = set(), set(), set()
    for n in ast.walk(fn):
        if isinstance(n, (ast.If, ast.While, ast.IfExp)):
            tests.add(ast.unparse(n.test))
        if isinstance(n, ast.Compare) and len(n.ops) == 1:
            compares.add(ast.unparse(n))
        if isinstance(n, ast.BoolOp):
            boolops.add(ast.unparse(n))
    return tests, compares, boolops


def _flipped(c: ast.Compare) -> Optional[ast.Compare]:
    if len(c.ops) != 1 or type(c.ops[0]) not in FLIP:
        return None
    return ast.Compare(left=c.comparators[0], ops=[FLIP[type(c.ops[0])]()], comparators=[c.left])


def _canon_syntax(fn: ast.AST, entry) -> int:
    """Undo, where the result is a construct of the reference function, three behaviour-preserving rewrites: operands of a
    comparison swapped (with the mirrored operator), operands of and/or permuted, if/else branches swapped under `not`."""
    import itertools
    rc, rb, rt = set(entry.get("compares", [])), set(entry.get("boolops", [])), set(entry.get("tests", []))
    n_changed = 0
    for n in ast.walk(fn):
        if isinstance(n, ast.Compare) and len(n.ops) == 1 and ast.unparse(n) not in rc:
            f = _flipped(n)
            if f is not None and ast.unparse(f) in rc:
                n.left, n.ops, n.comparators = f.left, f.ops, f.comparators
                n_changed += 1
    for n in ast.walk(fn):
        if isinstance(n, ast.BoolOp) and 2 <= len(n.values) <= 4 and ast.unparse(n) not in rb:
            for perm in itertools.permutations(n.values):
                cand = ast.BoolOp(op=n.op, values=list(perm))
                if ast.unparse(cand) in rb:
                    n.values = list(perm)
                    n_changed += 1
                    break
    for n in ast.walk(fn):
        if isinstance(n, ast.If) and n.orelse and not (len(n.orelse) == 1 and isinstance(n.orelse[0], ast.If)):
            t = ast.unparse(n.test)
            if t in rt:
                continue
            if isinstance(n.test, ast.UnaryOp) and isinstance(n.test.op, ast.Not) and ast.unparse(n.test.operand) in rt:
                n.test = n.test.operand
                n.body, n.orelse = n.orelse, n.body
                n_changed += 1
            else:
                neg = ast.UnaryOp(op=ast.Not(), operand=n.test)
                if ast.unparse(neg) in rt:
                    n.test = neg
                    n.body, n.orelse = n.orelse, n.body
                    n_changed += 1
        elif isinstance(n, ast.IfExp):
            t = ast.unparse(n.test)
            if t not in rt and isinstance(n.test, ast.UnaryOp) and isinstance(n.test.op, ast.Not) and ast.unparse(n.test.operand) in rt:
                n.test = n.test.operand
                n.body, n.orelse = n.orelse, n.body
                n_changed += 1
    if n_changed:
        ast.fix_missing_locations(fn)
    return n_changed


def build_reference(repo_modules) -> Dict[str, Dict[str, List[List[str]]]]:
    out: Dict[str, Dict[str, List[List[str]]]] = {}
    for rel, tree, src in repo_modules:
        d = {"__sha1__": hashlib.sha1(src.encode("utf-8")).hexdigest()}
        for q, fn in iter_functions(tree):
            s = shapes(fn)
            t, c, b = syntax_sets(fn)
            ifs, quants = [], set()
            from .canon import _ends_in_jump
            for n in ast.walk(fn):
                if isinstance(n, ast.If):
                    ifs.append([ast.unparse(n.test), bool(n.orelse), _ends_in_jump(n.body)])
                if isinstance(n, ast.Call) and isinstance(n.func, ast.Name) and n.func.id in ("all", "any"):
                    quants.add(ast.unparse(n))
                if isinstance(n, ast.UnaryOp) and isinstance(n.op, ast.Not):
                    quants.add(ast.unparse(n))
            d[q] = {"locals": [[n, sh] for n, sh in s], "tests": sorted(t), "compares": sorted(c), "boolops": sorted(b),
                    "ifs": ifs, "quants": sorted(quants), "src": ast.unparse(fn)}
        d["__functions__"] = _all_quals(tree)
        # parameter lists of the functions and class constructors defined in this module (bare name; take precedence over the
        # repository-wide table when calls in this module are normalised)
        local: Dict[str, List[List[str]]] = {}
        for n in ast.walk(tree):
            if isinstance(n, ast.ClassDef):
                for m in n.body:
                    if isinstance(m, ast.FunctionDef) and m.name == "__init__" and not m.args.vararg and not m.args.kwarg and not m.args.posonlyargs:
                        local.setdefault(n.name, []).append([a.arg for a in m.args.args][1:])
        d["__sigs__"] = {k: v[0] for k, v in local.items() if len(v) == 1 and v[0]}
        if len(d) > 1:
            out[rel] = d
    # parameter lists of repository functions, by bare name, where every definition of that name agrees
    sigs: Dict[str, List[List[str]]] = {}
    for rel, tree, src in repo_modules:
        for n in ast.walk(tree):
            if isinstance(n, (ast.FunctionDef, ast.AsyncFunctionDef)) and not n.args.vararg and not n.args.kwarg and not n.args.posonlyargs:
                ps = [a.arg for a in n.args.args]
                if ps and ps[0] in ("self", "cls"):
                    ps = ps[1:]
                sigs.setdefault(n.name, []).append(ps)
            elif isinstance(n, (ast.FunctionDef, ast.AsyncFunctionDef)):
                sigs.setdefault(n.name, []).append(["*"])
    # functions (by bare name, unique in the repository) whose every return is a constructor call or a display: never None
    rets: Dict[str, List[bool]] = {}
    for rel, tree, src in repo_modules:
        for n in ast.walk(tree):
            if isinstance(n, (ast.FunctionDef, ast.AsyncFunctionDef)):
                rs = [r for r in ast.walk(n) if isinstance(r, ast.Return)]
                good = bool(rs) and all(r.value is not None and (isinstance(r.value, (ast.Tuple, ast.List, ast.Dict, ast.Set)) or (
                    isinstance(r.value, ast.Call) and ((isinstance(r.value.func, ast.Name) and r.value.func.id[:1].isupper())
                                                       or (isinstance(r.value.func, ast.Attribute) and r.value.func.attr[:1].isupper())))) for r in rs) \
                    and not any(isinstance(x, (ast.Yield, ast.YieldFrom)) for x in ast.walk(n))
                rets.setdefault(n.name, []).append(good)
    out["__nonnull__"] = sorted(k for k, v in rets.items() if len(v) == 1 and v[0])
    ctor: Dict[str, List[List[str]]] = {}
    for rel, tree, src in repo_modules:
        for n in ast.walk(tree):
            if isinstance(n, ast.ClassDef):
                inits = [m for m in n.body if isinstance(m, ast.FunctionDef) and m.name == "__init__"]
                if inits and not inits[0].args.vararg and not inits[0].args.kwarg and not inits[0].args.posonlyargs:
                    ctor.setdefault(n.name, []).append([a.arg for a in inits[0].args.args][1:])
                else:
                    ctor.setdefault(n.name, []).append(["*"])
    out["__sigs__"] = {k: v[0] for k, v in sigs.items() if all(x == v[0] for x in v) and v[0] != ["*"] and v[0] and not k.startswith("__")}
    for k, v in ctor.items():
        if len(v) == 1 and v[0] != ["*"] and v[0] and k not in out["__sigs__"]:
            out["__sigs__"][k] = v[0]
    return out
