"""Driver: `python -m sa.main <ID> --tier quick|thorough`."""
from __future__ import annotations

import argparse
import importlib
import os
import sys
import traceback

from .core import AnalysisError, Repo
from .report import Context

PROPS = [f"C{i:02d}" for i in range(1, 20)]


def run_property(prop: str, tier: str, seed: int, root=None) -> int:
    try:
        mod = importlib.import_module(f"sa.rules.{prop.lower()}")
    except ModuleNotFoundError:
        print(f"ANALYSIS-ERROR property={prop} no rule module")
        return 2
    try:
        repo = Repo(root)
        ctx = Context(prop, tier, seed, repo)
        mod.run(ctx)
        rc = ctx.finish(mod.EXPLANATION, mod.ASSUMPTIONS)
        if rc == 0 and tier == "thorough" and os.environ.get("VERIF_NO_SELFTEST") != "1":
            from . import selftest
            rc = selftest.run(prop, ctx, seed)
        return rc
    except AnalysisError as exc:
        print(f"ANALYSIS-ERROR property={prop} {exc}")
        return 2
    except Exception:  # a traceback must not look like a violation (exit 1)
        traceback.print_exc()
        print(f"ANALYSIS-ERROR property={prop} internal error (traceback above)")
        return 2


def main(argv=None) -> int:
    ap = argparse.ArgumentParser()
    ap.add_argument("prop")
    ap.add_argument("--tier", default=os.environ.get("VERIF_TIER", "quick"), choices=["quick", "thorough"])
    ap.add_argument("--repo", default=None)
    args = ap.parse_args(argv)
    seed = int(os.environ.get("VERIF_SEED", "0") or 0)
    if args.prop == "all":
        worst = 0
        for p in PROPS:
            worst = max(worst, run_property(p, args.tier, seed, args.repo))
        return worst
    return run_property(args.prop, args.tier, seed, args.repo)


if __name__ == "__main__":
    sys.exit(main())
