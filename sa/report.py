"""Report layer: obligations, violations, known findings, evidence files."""
from __future__ import annotations

import json
import os
import time
from typing import Any, Dict, List, Optional

from .core import AnalysisError, Repo, repo_root

VERIF_DIR = os.path.dirname(os.path.dirname(os.path.abspath(__file__)))
KNOWN_FINDINGS = os.path.join(VERIF_DIR, "known_findings.json")


def load_known() -> List[Dict[str, str]]:
    if not os.path.exists(KNOWN_FINDINGS):
        return []
    with open(KNOWN_FINDINGS) as fh:
        data = json.load(fh)
    return list(data.get("findings", []))


class Context:
    def __init__(self, prop: str, tier: str, seed: int, repo: Optional[Repo] = None):
        self.prop = prop
        self.tier = tier
        self.seed = seed
        self.repo = repo or Repo()
        self.t0 = time.time()
        self.obligations: List[Dict[str, Any]] = []
        self.violations: List[Dict[str, Any]] = []
        self.deferred_errors: List[str] = []
        self.notes: List[str] = []
        self.samples: List[Any] = []
        self.counters: Dict[str, int] = {}
        self.rules_run: List[str] = []
        self.analysed: Dict[str, Any] = {"functions": [], "modules": []}
        self.extra: Dict[str, Any] = {}
        self._seen_keys = set()
        self._alias: Dict[str, str] = {}

    def _r(self, rule: str) -> str:
        return self._alias.get(rule, rule)

    # -- recording -----------------------------------------------------------
    def rule(self, rule_id: str, text: str) -> None:
        self.rules_run.append(f"{self._r(rule_id)}: {text}")

    def analysed_function(self, qual: str) -> None:
        if qual not in self.analysed["functions"]:
            self.analysed["functions"].append(qual)

    def count(self, what: str, n: int = 1) -> None:
        self.counters[what] = self.counters.get(what, 0) + n

    def ok(self, rule: str, key: str, where: str, detail: str = "") -> None:
        self._add(rule, key, where, "ok", detail)

    def violation(self, rule: str, key: str, where: str, message: str) -> None:
        rec = self._add(rule, key, where, "violation", message)
        if rec is not None:
            self.violations.append(rec)

    def check(self, cond: bool, rule: str, key: str, where: str, ok_detail: str, bad_message: str) -> bool:
        if cond:
            self.ok(rule, key, where, ok_detail)
        else:
            self.violation(rule, key, where, bad_message)
        return cond

    def _add(self, rule, key, where, status, detail):
        rule = self._r(rule)
        full = f"{rule}|{key}"
        if (full, status) in self._seen_keys:
            return None
        self._seen_keys.add((full, status))
        rec = {"rule": rule, "key": full, "where": where, "status": status, "detail": detail}
        self.obligations.append(rec)
        return rec

    def note(self, text: str) -> None:
        self.notes.append(text)

    def sample(self, obj: Any) -> None:
        if len(self.samples) < 12:
            self.samples.append(obj)

    def floor(self, rule: str, what: str, found: int, minimum: int) -> None:
        """The analysis went blind if fewer rule instances than confirmed by hand exist."""
        rule = self._r(rule)
        self.extra.setdefault("floors", []).append(
            {"rule": rule, "what": what, "found": found, "minimum": minimum}
        )
        known_now = {k["key"] for k in load_known() if k.get("property") == self.prop}
        if found < minimum and any(v["key"] not in known_now for v in self.violations):
            self.note(f"{rule}: {found} < {minimum} instance(s) of `{what}` (explained by the reported violation(s))")
        elif found < minimum:
            raise AnalysisError(
                f"{rule}: only {found} instance(s) of `{what}` located, expected at least {minimum}; "
                "an anchor was renamed or restructured beyond what the rule recognises"
            )

    def isolate(self, fn, *args, **kwargs) -> None:
        """Run one rule; an analysis error inside it must not hide what the other rules of the property find.

        The error is kept and re-raised by finish() unless some rule reported a violation (a restructured anchor
        and a violation usually have the same cause, and the violation is the more useful report)."""
        alias = kwargs.pop("_alias", None)
        old = self._alias
        if alias:
            # a rule shared with another property reports under that property's rule ids
            self._alias = dict(old, **alias)
        try:
            fn(self, *args, **kwargs)
        except AnalysisError as exc:
            self.deferred_errors.append(str(exc))
        except (IndexError, KeyError, AttributeError, TypeError, ValueError) as exc:
            import traceback
            tb = traceback.extract_tb(exc.__traceback__)[-1]
            self.deferred_errors.append(f"{getattr(fn, '__name__', fn)}: internal {type(exc).__name__}: {exc} "
                                        f"({os.path.basename(tb.filename)}:{tb.lineno})")
        finally:
            self._alias = old

    # -- finishing -------------------------------------------------------------
    def finish(self, explanation: str, assumptions: List[str]) -> int:
        if self.deferred_errors:
            known_now = {k["key"] for k in load_known() if k.get("property") == self.prop}
            if not any(v["key"] not in known_now for v in self.violations):
                raise AnalysisError(self.deferred_errors[0])
            for e in self.deferred_errors:
                self.note(f"analysis error in one rule, superseded by the reported violation(s): {e}")
        known = [k for k in load_known() if k.get("property") == self.prop]
        known_keys = {k["key"]: k for k in known}
        new: List[Dict[str, Any]] = []
        matched: List[Dict[str, Any]] = []
        for v in self.violations:
            if v["key"] in known_keys:
                matched.append(v)
            else:
                new.append(v)
        for v in matched:
            v["status"] = "known-finding"
            print(f"KNOWN-FINDING: property={self.prop} {known_keys[v['key']]['what']} [{v['key']}] at {v['where']}")
        out_dir = os.path.join(VERIF_DIR, "out")
        os.makedirs(out_dir, exist_ok=True)
        replay = os.path.join(out_dir, f"{self.prop}.violations.json")
        if new:
            with open(replay, "w") as fh:
                json.dump({"property": self.prop, "repo": self.repo.root, "violations": new}, fh, indent=1)
            for v in new:
                print(f"  {v['where']}: [{v['key']}] {v['detail']}")
            print(f"VIOLATION property={self.prop} replay={replay}")
        elif os.path.exists(replay):
            os.remove(replay)
        n_ok = sum(1 for o in self.obligations if o["status"] == "ok")
        distinct = len({o["key"] for o in self.obligations})
        per_rule: Dict[str, Dict[str, int]] = {}
        for o in self.obligations:
            d = per_rule.setdefault(o["rule"], {"ok": 0, "violation": 0, "known-finding": 0})
            d[o["status"]] = d.get(o["status"], 0) + 1
        evidence = {
            "property_id": self.prop,
            "tier": self.tier,
            "seed": self.seed,
            "level": "other",
            "coverage": {
                "explanation": explanation,
                "obligations": len(self.obligations),
                "discharged": n_ok,
                "evaluations": max(1, len(self.obligations)),
                "distinct_nontrivial": distinct,
                "rule": "one obligation per (rule, qualified function, normalised construct) located in "
                "the current source of the repository; distinct = distinct keys; every obligation is "
                "non-trivial in that it names a concrete construct that had to be found and decided",
                "samples": self.samples[:12] or [o for o in self.obligations[:6]],
                "rules": self.rules_run,
                "per_rule": per_rule,
                "functions_analysed": self.analysed["functions"],
                "counters": self.counters,
                "repo_root": self.repo.root,
                "modules_parsed": len(self.repo.modules),
                "parse_failures": self.repo.parse_failures,
                "known_findings_reported": [v["key"] for v in matched],
                "notes": self.notes,
                **self.extra,
            },
            "assumptions": assumptions,
            "wall_s": round(time.time() - self.t0, 3),
            "violations": len(new),
        }
        ev_dir = os.path.join(VERIF_DIR, "evidence")
        os.makedirs(ev_dir, exist_ok=True)
        if os.environ.get("VERIF_NO_EVIDENCE") != "1":
            with open(os.path.join(ev_dir, f"{self.prop}.json"), "w") as fh:
                json.dump(evidence, fh, indent=1, default=str)
        print(
            f"[{self.prop}] tier={self.tier} obligations={len(self.obligations)} ok={n_ok} "
            f"known={len(matched)} new-violations={len(new)} wall={evidence['wall_s']}s"
        )
        return 1 if new else 0
