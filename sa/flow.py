"""Small forward value-flow (may-reach) analysis for lists of tasks.

Follows a list-valued expression through: assignment, tuple unpacking,
`L.extend(x)` / `L.append(x)` / `L += x`, `return` (to the call sites of the
function, resolved by method name over the program modules), wrappers such as
`enumerate/sorted/list/reversed`, and `for` loops, until the element reaches a
sink predicate (e.g. `Event(event_type=EventType.TASK_CANCEL, task=<elem>)`).
"""
from __future__ import annotations

import ast
from typing import Callable, List, Optional, Set, Tuple

from .core import Repo, call_name, enclosing_function, loc, parent, qualname, src

WRAPPERS = {"enumerate": 1, "sorted": 0, "list": 0, "reversed": 0, "tuple": 0, "iter": 0}


class Flow:
    def __init__(self, repo: Repo, elem_sink: Callable[[ast.AST, str], Optional[ast.AST]],
                 max_steps: int = 400):
        self.repo = repo
        self.elem_sink = elem_sink  # (loop body / scope node, elem name) -> sink node or None
        self.sinks: List[ast.AST] = []
        self.trail: List[str] = []
        self.dead_ends: List[str] = []
        self._seen: Set[Tuple[int, Optional[int]]] = set()
        self.max_steps = max_steps

    # ------------------------------------------------------------------
    def from_expr(self, expr: ast.AST, index: Optional[int] = None) -> None:
        """`expr` evaluates to a list of tasks (or a tuple whose element `index` is)."""
        key = (id(expr), index)
        if key in self._seen or len(self._seen) > self.max_steps:
            return
        self._seen.add(key)
        p = parent(expr)
        func = enclosing_function(expr)
        self.trail.append(f"{loc(expr)} {src(expr)[:70]}" + (f" [tuple index {index}]" if index is not None else ""))
        if p is None or func is None:
            self.dead_ends.append(f"{loc(expr)}: no context")
            return
        # wrappers
        if isinstance(p, ast.Call) and expr in p.args and call_name(p) in WRAPPERS and index is None:
            w = call_name(p)
            if w == "enumerate":
                self.from_expr(p, index=-1)  # elements are (i, elem): -1 marks 'enumerate pair'
            else:
                self.from_expr(p)
            return
        if isinstance(p, (ast.For, ast.comprehension)) and p.iter is expr:
            target = p.target
            names: List[str] = []
            if index == -1:
                if isinstance(target, ast.Tuple) and len(target.elts) == 2 and isinstance(target.elts[1], ast.Name):
                    names = [target.elts[1].id]
            elif index is None and isinstance(target, ast.Name):
                names = [target.id]
            scope = p if isinstance(p, ast.For) else parent(p)
            for nm in names:
                s = self.elem_sink(scope, nm)
                if s is not None:
                    self.sinks.append(s)
                    self.trail.append(f"{loc(s)} SINK {src(s)[:80]}")
                else:
                    self.dead_ends.append(f"{loc(p)}: loop over the list does not reach the sink")
            if not names:
                self.dead_ends.append(f"{loc(p)}: loop target not understood")
            return
        if isinstance(p, ast.Call) and expr in p.args and isinstance(p.func, ast.Attribute) \
                and p.func.attr in ("extend",) and isinstance(p.func.value, ast.Name) and index is None:
            self._name_tainted(func, p.func.value.id, None)
            return
        if isinstance(p, ast.AugAssign) and p.value is expr and isinstance(p.target, ast.Name) and index is None:
            self._name_tainted(func, p.target.id, None)
            return
        if isinstance(p, ast.Assign) and p.value is expr:
            for t in p.targets:
                if isinstance(t, ast.Name):
                    self._name_tainted(func, t.id, index)
                elif isinstance(t, (ast.Tuple, ast.List)) and index is not None and index >= 0 and index < len(t.elts):
                    e = t.elts[index]
                    if isinstance(e, ast.Name):
                        self._name_tainted(func, e.id, None)
                else:
                    self.dead_ends.append(f"{loc(p)}: assignment target not understood")
            return
        if isinstance(p, ast.Tuple) and isinstance(parent(p), ast.Return) and index is None:
            self._returned(func, p.elts.index(expr))
            return
        if isinstance(p, ast.Return):
            self._returned(func, index)
            return
        if isinstance(p, ast.Expr):
            self.dead_ends.append(f"{loc(p)}: result discarded")
            return
        self.dead_ends.append(f"{loc(expr)}: flows into `{src(p)[:60]}` (not followed)")

    def _name_tainted(self, func: ast.AST, name: str, index: Optional[int]) -> None:
        for n in ast.walk(func):
            if isinstance(n, ast.Name) and n.id == name and isinstance(n.ctx, ast.Load):
                pp = parent(n)
                # skip uses as the receiver of .extend/.append (definitions, not uses)
                if isinstance(pp, ast.Attribute) and pp.value is n and pp.attr in ("extend", "append"):
                    continue
                if isinstance(pp, ast.Call) and call_name(pp) == "len":
                    continue
                self.from_expr(n, index)

    def _returned(self, func: ast.AST, index: Optional[int]) -> None:
        fname = getattr(func, "name", None)
        found = False
        for n in self.repo.calls_named(fname):
            found = True
            self.from_expr(n, index)
        if not found:
            self.dead_ends.append(f"{qualname(func)}: returned list has no call site in the program")
