"""Reference-guided canonicalisation of behaviour-preserving rewrites.

The rules recognise the repository's constructs in the form the pinned tree writes them. An independent refactoring round
(refactors/, DESIGN.md section 10) showed which rewrites a maintainer makes without changing behaviour: hoisting a repeated
sub-expression into a new local, inlining a single-use local, turning `if c: A else: B` into a guard clause, writing a test in
an equivalent form (De Morgan, mirrored comparison, `not in (a, b)` as two `!=`, `len(x) > 0` as `x`), merging / splitting
nested ifs, extracting a few statements into a new private helper. Each pass below undoes one of these *only* where the
reference description of the same function (reference/locals.json, tools/gen_reference.py) shows that the pinned tree had the
other form, and only when the rewrite is an equivalence of the program text:

  inline_new_helpers   a private method that the reference class does not have, whose body is one `return <expr>` or a
                       straight-line procedure (returns only as its last top-level statement), is substituted at its call sites;
  inline_new_locals    a local the reference function does not have, bound once by `v = E`, is replaced by E at its uses when
                       nothing that can run between the binding and a use writes what E reads (names, attribute names, receivers
                       of calls), and E is evaluated as often as before unless it is free of effects;
  rehoist_locals       a reference local that the function no longer binds is re-introduced when exactly one expression with
                       the recorded defining shape occurs in one statement (inverse of inlining a single-use local);
  canon_tests          a test that is not a reference test is replaced by an equivalent form that is; if/else branches are
                       swapped under the negated test; a guard clause becomes an if/else (or back), nested ifs are merged.

Every pass is an aid: whatever it cannot bring back to the reference form is left as written and the rules see it as it is.
"""
from __future__ import annotations

import ast
import itertools
from typing import Dict, Iterator, List, Optional, Sequence, Set, Tuple

PURE_FUNCS = {"len", "int", "str", "float", "min", "max", "sum", "abs", "sorted", "list", "tuple", "set", "dict", "isinstance", "type",
              "round", "bool", "any", "all", "zip", "enumerate", "range", "map", "filter", "repr", "EventTime", "frozenset", "reversed"}
PURE_METHODS = {"to", "get", "items", "keys", "values", "get_parents", "get_children", "join", "format", "zero", "get_worker_pool",
                "get_sink_tasks", "get_source_tasks", "get_nodes", "is_complete", "is_cancelled", "startswith", "endswith", "index",
                "count", "get_task_graph", "get_job_graph", "get_allocated_resources", "get_available_quantity", "get_total_quantity"}
FRESH_CTORS = {"list", "dict", "set", "defaultdict", "deque", "OrderedDict", "Counter", "sorted", "map", "filter", "zip", "enumerate",
               "reversed", "iter"}
LOGGERS = {"_logger", "_csv_logger", "logger"}
MUTATING = {"append", "extend", "remove", "pop", "clear", "update", "insert", "setdefault", "popitem", "add", "discard", "appendleft",
            "extendleft", "popleft", "sort", "reverse"}
JUMPS = (ast.Return, ast.Continue, ast.Break, ast.Raise)
# expression forms whose value is a *new* object computed from the contents of their operands (`a + b` of two lists, `x in xs`,
# displays, f-strings): a later in-place change of an operand does not reach the value, so they are heap-dependent like a subscript
_CONTENT_READERS = (ast.Subscript, ast.BinOp, ast.Compare, ast.List, ast.Tuple, ast.Set, ast.Dict, ast.JoinedStr, ast.Starred)


def clone(e: ast.AST) -> ast.AST:
    return ast.parse(ast.unparse(e), mode="eval").body


def u(e: ast.AST) -> str:
    return ast.unparse(e)


def walk_order(node: ast.AST) -> Iterator[ast.AST]:
    yield node
    for ch in ast.iter_child_nodes(node):
        yield from walk_order(ch)


def blocks_of(node: ast.AST) -> Iterator[List[ast.stmt]]:
    """Every statement list under `node` (nested function bodies included)."""
    for n in ast.walk(node):
        for f in ("body", "orelse", "finalbody"):
            b = getattr(n, f, None)
            if isinstance(b, list) and b and isinstance(b[0], ast.stmt):
                yield b
        if isinstance(n, ast.Try):
            for h in n.handlers:
                pass  # handler bodies are visited as nodes with .body


# ------------------------------------------------------------------------------------------------ effects of an expression
def roots_attrs(e: ast.AST) -> Tuple[Set[str], Set[str], bool, bool]:
    """(names read, attribute names read, contains a call that is not known to be pure, contains any call)."""
    names, attrs = set(), set()
    impure = anycall = False
    for n in ast.walk(e):
        if isinstance(n, ast.Name):
            names.add(n.id)
        elif isinstance(n, ast.Attribute):
            attrs.add(n.attr)
        elif isinstance(n, ast.Call):
            anycall = True
            f = n.func
            if isinstance(f, ast.Name) and f.id in PURE_FUNCS:
                continue
            if isinstance(f, ast.Attribute) and f.attr in PURE_METHODS:
                continue
            impure = True
        elif isinstance(n, (ast.Yield, ast.YieldFrom, ast.Await, ast.NamedExpr)):
            impure = True
    return names, attrs, impure, anycall


def _root(e: ast.AST) -> Optional[str]:
    while isinstance(e, (ast.Attribute, ast.Subscript, ast.Call)):
        e = e.func if isinstance(e, ast.Call) else e.value
    return e.id if isinstance(e, ast.Name) else None


def _chain_attrs(e: ast.AST) -> Set[str]:
    out = set()
    while isinstance(e, (ast.Attribute, ast.Subscript, ast.Call)):
        if isinstance(e, ast.Attribute):
            out.add(e.attr)
        e = e.func if isinstance(e, ast.Call) else e.value
    return out


def _is_chain(e: ast.AST) -> bool:
    while isinstance(e, (ast.Attribute, ast.Subscript)):
        e = e.value
    return isinstance(e, ast.Name)


def _chains_in(e: ast.AST) -> List[str]:
    """Access paths (name.attr[sub]...) that occur in an expression, outermost first."""
    out = []

    def rec(n):
        if _is_chain(n):
            out.append(u(n))
            return
        for ch in ast.iter_child_nodes(n):
            rec(ch)
    rec(e)
    return out


def containers_of(e: ast.AST) -> Set[str]:
    """Objects whose *contents* the value of `e` depends on: the base of every attribute / subscript read, and every access path
    handed to a call inside `e` (len(x), x.get(k), sorted(x.items()) ...)."""
    out: Set[str] = set()
    for n in ast.walk(e):
        if isinstance(n, (ast.Attribute, ast.Subscript)) and _is_chain(n.value):
            out.add(u(n.value))
        if isinstance(n, ast.Call):
            for a in list(n.args) + [k.value for k in n.keywords]:
                out.update(_chains_in(a))
            if isinstance(n.func, ast.Attribute):
                out.update(_chains_in(n.func.value))
        if isinstance(n, (ast.For, ast.comprehension)):
            out.update(_chains_in(n.iter))
    return out


def _prefix(m: str, k: str) -> bool:
    return k == m or k.startswith(m + ".") or k.startswith(m + "[")


def clobbers(node: ast.AST, names: Set[str], attrs: Set[str], heap: bool, containers: Set[str] = frozenset()) -> bool:
    """Can evaluating `node` (one AST node, not its subtree) change the value of an expression reading `names`/`attrs` whose value
    depends on the contents of `containers`?"""
    if isinstance(node, ast.Name) and isinstance(node.ctx, (ast.Store, ast.Del)):
        return node.id in names
    if not heap:
        return False
    if isinstance(node, (ast.Attribute, ast.Subscript)) and isinstance(node.ctx, (ast.Store, ast.Del)):
        ca = _chain_attrs(node)
        if ca & attrs:
            return True
        if isinstance(node, ast.Subscript) and _is_chain(node.value) and any(_prefix(u(node.value), k) for k in containers):
            return True  # an item store into a container whose contents the expression depends on
        return not ca and _root(node) in names  # x[k] = ... with x read by the expression
    if isinstance(node, ast.Call):
        f = node.func
        if isinstance(f, ast.Name) and f.id in PURE_FUNCS:
            return False
        if isinstance(f, ast.Attribute):
            if f.attr in PURE_METHODS:
                return False
            recv_attrs = _chain_attrs(f.value)
            if recv_attrs & LOGGERS:
                return False
        # what the callee can reach and change: its receiver and everything it is handed
        handed: List[str] = []
        for a in list(node.args) + [k.value for k in node.keywords]:
            handed += _chains_in(a)
        if isinstance(f, ast.Attribute):
            handed += _chains_in(f.value)
        if any(_prefix(m, k) for m in handed for k in containers):
            return True
        if isinstance(f, ast.Name):
            return any(isinstance(a, ast.Name) and a.id in names and a.id in {c.split(".")[0].split("[")[0] for c in containers}
                       for a in list(node.args) + [k.value for k in node.keywords])
        if isinstance(f, ast.Attribute):
            recv_attrs = _chain_attrs(f.value)
            r = _root(f.value)
            if f.attr in MUTATING:
                return bool(recv_attrs & attrs) or (not recv_attrs and r in names)
            if recv_attrs & attrs:
                return True
            if r in names and (not recv_attrs):
                return True  # a method of an object the expression reads
            if r == "self" and not recv_attrs and "self" in names:
                return True  # a method of self may write any field
    return False


# ------------------------------------------------------------------------------------------------ inline new locals
def _positions(fn: ast.AST):
    """pre-order index of every node; `effect` = index at which a store / call takes effect (after its operands)."""
    pos: Dict[int, int] = {}
    last: Dict[int, int] = {}
    counter = [0]

    def rec(n):
        pos[id(n)] = counter[0]
        counter[0] += 1
        for ch in ast.iter_child_nodes(n):
            rec(ch)
        last[id(n)] = counter[0] - 1
    rec(fn)
    return pos, last


def _loops_between(fn: ast.AST, region: Set[int]) -> Dict[int, List[ast.AST]]:
    """for every node in the region: the loops (inside the region) that enclose it."""
    out: Dict[int, List[ast.AST]] = {}

    def rec(n, loops):
        if region is None or id(n) in region:
            out[id(n)] = loops
        for f, v in ast.iter_fields(n):
            kids = v if isinstance(v, list) else [v]
            for ch in kids:
                if not isinstance(ch, ast.AST):
                    continue
                inner = loops
                if isinstance(n, (ast.For, ast.While)) and (region is None or id(n) in region) and f in ("body", "test"):
                    inner = loops + [n]
                if isinstance(n, (ast.ListComp, ast.SetComp, ast.DictComp, ast.GeneratorExp)) and (region is None or id(n) in region) and f in ("elt", "key", "value"):
                    inner = loops + [n]
                if isinstance(n, ast.comprehension) and f == "ifs":
                    inner = loops + [n]
                rec(ch, inner)
    rec(fn, [])
    return out


def inline_new_locals(fn: ast.AST, ref_locals: Set[str], keep: Set[str] = frozenset()) -> int:
    """Substitute locals that the reference function does not have (see module docstring for the conditions)."""
    done = 0
    for _round in range(24):
        progressed = False
        # one traversal per round: pre-order positions, loop nesting, loads/stores, the point at which a store takes effect
        order: List[ast.AST] = []
        pos: Dict[int, int] = {}
        last: Dict[int, int] = {}
        loops_of: Dict[int, Tuple[ast.AST, ...]] = {}
        stores: Dict[str, List[ast.Name]] = {}
        loads: Dict[str, List[ast.Name]] = {}
        eff_of: Dict[int, int] = {}
        blocks: List[List[ast.stmt]] = []

        def rec(n, loops):
            pos[id(n)] = len(order)
            order.append(n)
            loops_of[id(n)] = loops
            if isinstance(n, ast.Name):
                (stores if isinstance(n.ctx, (ast.Store, ast.Del)) else loads).setdefault(n.id, []).append(n)
            for f, val in ast.iter_fields(n):
                if isinstance(val, list):
                    if val and isinstance(val[0], ast.stmt) and f in ("body", "orelse", "finalbody"):
                        blocks.append(val)
                    kids = val
                else:
                    kids = [val]
                for ch in kids:
                    if not isinstance(ch, ast.AST):
                        continue
                    inner = loops
                    if isinstance(n, (ast.For, ast.While)) and f in ("body", "test"):
                        inner = loops + (n,)
                    elif isinstance(n, (ast.ListComp, ast.SetComp, ast.DictComp, ast.GeneratorExp)) and f in ("elt", "key", "value"):
                        inner = loops + (n,)
                    elif isinstance(n, ast.comprehension) and f == "ifs":
                        inner = loops + (n,)
                    rec(ch, inner)
            last[id(n)] = len(order) - 1
        rec(fn, ())
        for n in order:
            if isinstance(n, (ast.Assign, ast.AugAssign, ast.AnnAssign)):
                for tt in (n.targets if isinstance(n, ast.Assign) else [n.target]):
                    for x in ast.walk(tt):
                        eff_of[id(x)] = last[id(n)]
        params = {a.arg for a in fn.args.args + fn.args.kwonlyargs + fn.args.posonlyargs}
        # an expression with an effect whose only use is the very next binding goes there first (the result must not depend on whether
        # that next binding - pure as long as it reads the local - has been substituted already); then later bindings first: a local defined from
        # another local is substituted while its defining expression is still small
        candidates = [(blk, i) for blk in reversed(blocks) for i in range(len(blk) - 1, -1, -1)]
        def _feeds_a_binding(c) -> bool:
            st = c[0][c[1]]
            if not (isinstance(st, ast.Assign) and len(st.targets) == 1 and isinstance(st.targets[0], ast.Name) and roots_attrs(st.value)[2]):
                return False
            us = loads.get(st.targets[0].id, [])
            if len(us) != 1 or c[1] + 1 >= len(c[0]):
                return False
            nxt = c[0][c[1] + 1]
            return isinstance(nxt, ast.Assign) and len(nxt.targets) == 1 and isinstance(nxt.targets[0], ast.Name) and any(us[0] is x for x in ast.walk(nxt.value))
        candidates = [c for c in candidates if _feeds_a_binding(c)] + [c for c in candidates if not _feeds_a_binding(c)]
        for blk, i in candidates:
            for _once in (0,):
                s = blk[i]
                if not (isinstance(s, ast.Assign) and len(s.targets) == 1 and isinstance(s.targets[0], ast.Name)):
                    continue
                v = s.targets[0].id
                if v in ref_locals or v in keep or v in params or len(stores.get(v, [])) != 1 or not loads.get(v):
                    continue
                rest = blk[i + 1:]
                if not rest:
                    continue
                E = s.value
                names, attrs, impure, anycall = roots_attrs(E)
                if v in names:
                    continue
                fresh = isinstance(E, (ast.Lambda, ast.List, ast.Dict, ast.Set, ast.ListComp, ast.DictComp, ast.SetComp, ast.GeneratorExp)) or \
                    (isinstance(E, ast.Call) and isinstance(E.func, ast.Name) and E.func.id in FRESH_CTORS)
                uses = loads[v]
                lo, hi_all = pos[id(rest[0])], last[id(rest[-1])]
                if not all(lo <= pos[id(x)] <= hi_all for x in uses):
                    continue
                last_use = max(pos[id(x)] for x in uses)
                hi = hi_all
                for t in rest:  # statements of the block up to (and including) the one holding the last use
                    if last[id(t)] >= last_use:
                        hi = last[id(t)]
                        break

                def in_span(node) -> bool:
                    return lo <= pos[id(node)] <= hi

                def span_loops(node):
                    return {id(l) for l in loops_of[id(node)] if in_span(l)}
                heap = bool(attrs) or anycall or any(isinstance(x, _CONTENT_READERS) for x in ast.walk(E))
                conts = containers_of(E)
                ok = True
                # names the expression reads must not be rebound in the span (simplest sound condition for names)
                for nm in names:
                    if nm != "self" and any(in_span(st) for st in stores.get(nm, [])):
                        ok = False
                        break
                if ok:
                    use_info = [(pos[id(x)], span_loops(x)) for x in uses]
                    for c in order[lo:hi + 1]:
                        if not clobbers(c, names, attrs, heap, conts):
                            continue
                        eff = last[id(c)] if isinstance(c, ast.Call) else eff_of.get(id(c), pos[id(c)])
                        cl = span_loops(c)
                        if any(eff < up or (cl & ul) for up, ul in use_info):
                            ok = False
                            break
                if not ok:
                    continue
                if fresh and (len(uses) != 1 or span_loops(uses[0])):
                    continue  # a new object per evaluation: identity matters
                if impure:
                    # evaluated exactly once, at the same place: one use, outside any loop of the span, nothing with an effect before it
                    if len(uses) != 1 or span_loops(uses[0]):
                        continue
                    use_pos = pos[id(uses[0])]
                    before = [c for c in order[lo:hi + 1] if isinstance(c, ast.Call) and last[id(c)] < use_pos
                              and not (isinstance(c.func, ast.Name) and c.func.id in PURE_FUNCS)
                              and not (isinstance(c.func, ast.Attribute) and (c.func.attr in PURE_METHODS or _chain_attrs(c.func.value) & LOGGERS))]
                    if before:
                        continue
                elif anycall and any(span_loops(x) for x in uses) and not all(isinstance(c.func, (ast.Name, ast.Attribute)) for c in ast.walk(E) if isinstance(c, ast.Call)):
                    continue
                # substitute
                for x in uses:
                    _replace(fn, x, clone(E))
                blk.pop(i)
                if not blk:
                    blk.append(ast.Pass())
                ast.fix_missing_locations(fn)
                done += 1
                progressed = True
                break
            if progressed:
                break
        if not progressed:
            break
    return done


def drop_self_assignments(fn: ast.AST) -> int:
    n = 0
    for blk in list(blocks_of(fn)):
        for st in list(blk):
            if isinstance(st, ast.Assign) and len(st.targets) == 1 and isinstance(st.targets[0], ast.Name) and isinstance(st.value, ast.Name) \
                    and st.value.id == st.targets[0].id:
                blk.remove(st)
                if not blk:
                    blk.append(ast.Pass())
                n += 1
    return n


def drop_redundant_rebindings(fn: ast.AST) -> int:
    """`v = E` where an earlier `v = E` of an enclosing block already holds (no store to v and nothing that can change E in between,
    judged over everything textually between the two): the second binding is dropped. Arises when a helper that re-derives a local of
    its caller is substituted back."""
    done = 0
    for _ in range(6):
        order: List[ast.AST] = []
        pos: Dict[int, int] = {}
        last: Dict[int, int] = {}

        def rec(n):
            pos[id(n)] = len(order)
            order.append(n)
            for ch in ast.iter_child_nodes(n):
                rec(ch)
            last[id(n)] = len(order) - 1
        rec(fn)
        hit = None

        def visit(block: List[ast.stmt], avail: Dict[str, ast.Assign], in_loop: bool):
            nonlocal hit
            avail = dict(avail)
            for s in block:
                if hit:
                    return
                if isinstance(s, ast.Assign) and len(s.targets) == 1 and isinstance(s.targets[0], ast.Name):
                    v = s.targets[0].id
                    prev = avail.get(v)
                    if prev is not None and u(prev.value) == u(s.value) and not in_loop:
                        names, attrs, impure, anycall = roots_attrs(s.value)
                        heap = bool(attrs) or anycall or any(isinstance(x, _CONTENT_READERS) for x in ast.walk(s.value))
                        conts = containers_of(s.value)
                        between = order[last[id(prev)] + 1:pos[id(s)]]
                        if not impure and v not in names and not any(
                                (isinstance(c, ast.Name) and isinstance(c.ctx, (ast.Store, ast.Del)) and (c.id == v or c.id in names))
                                or clobbers(c, names, attrs, heap, conts) for c in between):
                            hit = (block, s)
                            return
                    avail[v] = s
                for f in ("body", "orelse", "finalbody"):
                    b = getattr(s, f, None)
                    if isinstance(b, list) and b and isinstance(b[0], ast.stmt):
                        visit(b, avail, in_loop or isinstance(s, (ast.For, ast.While)))
                if isinstance(s, ast.Try):
                    for h in s.handlers:
                        visit(h.body, avail, in_loop)
                # a compound statement may rebind names: forget what it stores
                if not isinstance(s, ast.Assign):
                    for x in ast.walk(s):
                        if isinstance(x, ast.Name) and isinstance(x.ctx, (ast.Store, ast.Del)):
                            avail.pop(x.id, None)
        visit(fn.body, {}, False)
        if not hit:
            break
        block, s = hit
        block.remove(s)
        if not block:
            block.append(ast.Pass())
        done += 1
    return done


def _replace(root: ast.AST, old: ast.AST, new: ast.AST) -> bool:
    for p in ast.walk(root):
        for f, v in ast.iter_fields(p):
            if v is old:
                setattr(p, f, ast.copy_location(new, old))
                return True
            if isinstance(v, list):
                for k, ch in enumerate(v):
                    if ch is old:
                        v[k] = ast.copy_location(new, old)
                        return True
    return False


# ------------------------------------------------------------------------------------------------ re-hoist inlined locals
class _MaskAll(ast.NodeTransformer):
    def __init__(self, names):
        self.names = names

    def visit_Name(self, node):
        return ast.copy_location(ast.Name(id="?", ctx=node.ctx), node) if node.id in self.names else node


def rehoist_locals(fn: ast.AST, entry, masked, function_locals) -> int:
    """A reference local `v = E` (plain assignment) that the function no longer binds or mentions: when exactly one expression of
    the function has E's recorded shape, bind it again in front of the statement that holds it."""
    done = 0
    cur = set(function_locals(fn))
    params = {a.arg for a in fn.args.args + fn.args.kwonlyargs + fn.args.posonlyargs}
    ref_names = {r[0] for r in entry.get("locals", [])}
    all_names = {n.id for n in ast.walk(fn) if isinstance(n, ast.Name)}
    for name, shape in entry.get("locals", []):
        if name in cur or name in params or name in all_names or not shape.startswith("assign:"):
            continue
        want = shape[len("assign:"):]
        if len(want) < 12 or want in ("?", "None", "[]", "{}", "True", "False"):
            continue
        mask_names = (cur | ref_names)
        hits = []
        for blk in blocks_of(fn):
            for i, s in enumerate(blk):
                heads = _own_exprs(s)
                for h in heads:
                    for x in _walk_same_scope(h):
                        if isinstance(x, ast.expr) and not isinstance(x, ast.Name) and masked(x, mask_names) == want:
                            hits.append((blk, i, s, x))
        if len(hits) != 1:
            continue
        blk, i, s, x = hits[0]
        # the expression must be evaluated unconditionally and first-ish in the statement: accept statement heads only
        # (for-iter, assignment value, call statement, return value, if test)
        new_assign = ast.Assign(targets=[ast.Name(id=name, ctx=ast.Store())], value=clone(x), lineno=s.lineno, col_offset=s.col_offset)
        _replace(s, x, ast.Name(id=name, ctx=ast.Load()))
        blk.insert(i, ast.copy_location(new_assign, s))
        ast.fix_missing_locations(fn)
        cur.add(name)
        done += 1
    return done


def _walk_same_scope(e: ast.AST):
    """Sub-expressions evaluated once, in the scope of the statement: not inside comprehensions, lambdas or conditional arms."""
    yield e
    if isinstance(e, (ast.ListComp, ast.SetComp, ast.DictComp, ast.GeneratorExp, ast.Lambda)):
        return
    for f, v in ast.iter_fields(e):
        kids = v if isinstance(v, list) else [v]
        for ch in kids:
            if not isinstance(ch, ast.AST):
                continue
            if isinstance(ch, (ast.ListComp, ast.SetComp, ast.DictComp, ast.GeneratorExp, ast.Lambda)):
                continue
            if isinstance(e, ast.IfExp) and f in ("body", "orelse"):
                continue
            if isinstance(e, ast.BoolOp) and ch is not e.values[0]:
                continue
            yield from _walk_same_scope(ch)


def _own_exprs(s: ast.stmt) -> List[ast.AST]:
    """The expressions a statement evaluates itself, unconditionally and before anything else it does (not its nested blocks)."""
    if isinstance(s, ast.For):
        return [s.iter]
    if isinstance(s, (ast.If,)):
        return [s.test]
    if isinstance(s, ast.Assign):
        return [s.value]
    if isinstance(s, ast.AnnAssign) and s.value is not None:
        return [s.value]
    if isinstance(s, ast.Return) and s.value is not None:
        return [s.value]
    if isinstance(s, ast.Expr):
        return [s.value]
    return []


# ------------------------------------------------------------------------------------------------ equivalent forms of a test
NEG = {ast.Lt: ast.GtE, ast.GtE: ast.Lt, ast.Gt: ast.LtE, ast.LtE: ast.Gt, ast.Eq: ast.NotEq, ast.NotEq: ast.Eq, ast.In: ast.NotIn,
       ast.NotIn: ast.In, ast.Is: ast.IsNot, ast.IsNot: ast.Is}
FLIP = {ast.Lt: ast.Gt, ast.Gt: ast.Lt, ast.LtE: ast.GtE, ast.GtE: ast.LtE, ast.Eq: ast.Eq, ast.NotEq: ast.NotEq}


def _not(e: ast.AST) -> ast.AST:
    return ast.UnaryOp(op=ast.Not(), operand=e)


def negations(e: ast.AST) -> List[ast.AST]:
    """Forms of `not e`."""
    out = [_not(clone(e))]
    if isinstance(e, ast.UnaryOp) and isinstance(e.op, ast.Not):
        out.append(clone(e.operand))
    if isinstance(e, ast.Compare) and len(e.ops) == 1 and type(e.ops[0]) in NEG:
        out.append(ast.Compare(left=clone(e.left), ops=[NEG[type(e.ops[0])]()], comparators=[clone(e.comparators[0])]))
    if isinstance(e, ast.BoolOp) and len(e.values) <= 4:
        dual = ast.Or if isinstance(e.op, ast.And) else ast.And
        for combo in itertools.islice(itertools.product(*[negations(v)[:3] for v in e.values]), 81):
            out.append(ast.BoolOp(op=dual(), values=[clone(c) for c in combo]))
    if isinstance(e, ast.Call) and isinstance(e.func, ast.Name) and e.func.id in ("all", "any") and len(e.args) == 1 \
            and isinstance(e.args[0], ast.GeneratorExp):
        g = e.args[0]
        for ne in negations(g.elt)[:3]:
            out.append(ast.Call(func=ast.Name(id="any" if e.func.id == "all" else "all", ctx=ast.Load()),
                                args=[ast.GeneratorExp(elt=ne, generators=[clone_comp(c) for c in g.generators])], keywords=[]))
    return out


def clone_comp(c: ast.comprehension) -> ast.comprehension:
    ge = ast.parse(f"[0 {u(c)}]", mode="eval").body
    return ge.generators[0]


def forms(e: ast.AST, depth: int = 0) -> List[ast.AST]:
    """Expressions equivalent to `e` as a truth value (bounded enumeration)."""
    out: List[ast.AST] = [clone(e)]
    if depth > 2:
        return out
    if isinstance(e, ast.UnaryOp) and isinstance(e.op, ast.Not):
        out += negations(e.operand)
        for f in forms(e.operand, depth + 1)[1:6]:
            out += negations(f)[:4]
    if isinstance(e, ast.Compare) and len(e.ops) == 1:
        op, l, r = e.ops[0], e.left, e.comparators[0]
        if type(op) in FLIP:
            out.append(ast.Compare(left=clone(r), ops=[FLIP[type(op)]()], comparators=[clone(l)]))
        if type(op) in NEG:
            out.append(_not(ast.Compare(left=clone(l), ops=[NEG[type(op)]()], comparators=[clone(r)])))
            if type(NEG[type(op)]()) in FLIP:
                out.append(_not(ast.Compare(left=clone(r), ops=[FLIP[NEG[type(op)]]()], comparators=[clone(l)])))
        # x in (a, b)  <->  x == a or x == b ; x not in (a, b) <-> x != a and x != b
        if isinstance(op, (ast.In, ast.NotIn)) and isinstance(r, (ast.Tuple, ast.List, ast.Set)) and 1 <= len(r.elts) <= 4:
            cmp_op, bop = (ast.Eq, ast.Or) if isinstance(op, ast.In) else (ast.NotEq, ast.And)
            vals = [ast.Compare(left=clone(l), ops=[cmp_op()], comparators=[clone(x)]) for x in r.elts]
            out.append(vals[0] if len(vals) == 1 else ast.BoolOp(op=bop(), values=vals))
        # len(x) > 0 / len(x) != 0 / len(x) >= 1  <->  x
        if isinstance(l, ast.Call) and isinstance(l.func, ast.Name) and l.func.id == "len" and len(l.args) == 1 and isinstance(r, ast.Constant):
            if (isinstance(op, (ast.Gt, ast.NotEq)) and r.value == 0) or (isinstance(op, ast.GtE) and r.value == 1):
                out.append(clone(l.args[0]))
            if (isinstance(op, ast.Eq) and r.value == 0) or (isinstance(op, ast.Lt) and r.value == 1):
                out.append(_not(clone(l.args[0])))
    if isinstance(e, (ast.Name, ast.Attribute)) and depth == 0:
        # x  <->  len(x) > 0 is only an equivalence for sized containers: offered for while/if tests on locals built as containers;
        # the caller accepts a candidate only when it is literally a reference test of the same function
        ln = ast.Call(func=ast.Name(id="len", ctx=ast.Load()), args=[clone(e)], keywords=[])
        out.append(ast.Compare(left=ln, ops=[ast.Gt()], comparators=[ast.Constant(value=0)]))
    if isinstance(e, ast.BoolOp) and len(e.values) <= 4:
        # x == a or x == b -> x in (a, b)
        if all(isinstance(v, ast.Compare) and len(v.ops) == 1 and u(v.left) == u(e.values[0].left) for v in e.values):
            kinds = {type(v.ops[0]) for v in e.values}
            if kinds == {ast.Eq} and isinstance(e.op, ast.Or) or kinds == {ast.NotEq} and isinstance(e.op, ast.And):
                for perm in itertools.permutations(e.values):
                    for ctor in (ast.Tuple, ast.List):
                        out.append(ast.Compare(left=clone(e.values[0].left), ops=[ast.In() if isinstance(e.op, ast.Or) else ast.NotIn()],
                                               comparators=[ctor(elts=[clone(v.comparators[0]) for v in perm], ctx=ast.Load())]))
        # operands: each in its own forms, in any order
        per = [forms(v, depth + 1)[:6] for v in e.values]
        n = 0
        for combo in itertools.product(*per):
            for perm in itertools.permutations(combo):
                out.append(ast.BoolOp(op=type(e.op)(), values=[clone(x) for x in perm]))
                n += 1
                if n > 600:
                    break
            if n > 600:
                break
        # De Morgan: a or b  <->  not (not a and not b)
        dual = ast.Or if isinstance(e.op, ast.And) else ast.And
        for combo in itertools.islice(itertools.product(*[negations(v)[:3] for v in e.values]), 27):
            out.append(_not(ast.BoolOp(op=dual(), values=[clone(c) for c in combo])))
        # (not r and P) or (r and Q) style distributions are not attempted
    if isinstance(e, ast.Call) and isinstance(e.func, ast.Name) and e.func.id in ("all", "any") and len(e.args) == 1:
        g = e.args[0]
        if isinstance(g, ast.GeneratorExp):
            for ne in negations(g.elt)[:3]:
                out.append(_not(ast.Call(func=ast.Name(id="any" if e.func.id == "all" else "all", ctx=ast.Load()),
                                         args=[ast.GeneratorExp(elt=ne, generators=[clone_comp(c) for c in g.generators])], keywords=[])))
            # all(p(x) for x in xs) <-> all(map(lambda x: p(x), xs))
            if len(g.generators) == 1 and not g.generators[0].ifs and isinstance(g.generators[0].target, ast.Name):
                t = g.generators[0].target.id
                lam = ast.parse(f"lambda {t}: {u(g.elt)}", mode="eval").body
                out.append(ast.Call(func=clone(e.func), args=[ast.Call(func=ast.Name(id="map", ctx=ast.Load()), args=[lam, clone(g.generators[0].iter)], keywords=[])], keywords=[]))
        if isinstance(g, ast.ListComp):
            out.append(ast.Call(func=clone(e.func), args=[ast.GeneratorExp(elt=clone(g.elt), generators=[clone_comp(c) for c in g.generators])], keywords=[]))
    seen, uniq = set(), []
    for f in out:
        try:
            ast.fix_missing_locations(f)
            t = u(f)
        except Exception:
            continue
        if t not in seen:
            seen.add(t)
            uniq.append(f)
    return uniq


def _ends_in_jump(body: Sequence[ast.stmt]) -> bool:
    if not body:
        return False
    s = body[-1]
    if isinstance(s, JUMPS):
        return True
    if isinstance(s, ast.If) and s.orelse:
        return _ends_in_jump(s.body) and _ends_in_jump(s.orelse)
    return False


def _pick(e: ast.AST, wanted: Set[str]) -> Optional[ast.AST]:
    for f in forms(e):
        if u(f) in wanted:
            return f
    return None


def canon_tests(fn: ast.AST, entry) -> int:
    rt = set(entry.get("tests", []))
    ifs = {t: (he, ej) for t, he, ej in entry.get("ifs", [])}
    rexprs = set(entry.get("compares", [])) | set(entry.get("boolops", [])) | set(entry.get("quants", []))
    n_changed = 0
    # 0. merge nested ifs when the conjunction is a reference test: if a: (if b: X)  ->  if a and b: X
    for blk in list(blocks_of(fn)):
        for s in blk:
            while isinstance(s, ast.If) and not s.orelse and len(s.body) == 1 and isinstance(s.body[0], ast.If) and not s.body[0].orelse \
                    and u(s.test) not in rt:
                inner = s.body[0]
                vals = (s.test.values if isinstance(s.test, ast.BoolOp) and isinstance(s.test.op, ast.And) else [s.test]) + \
                       (inner.test.values if isinstance(inner.test, ast.BoolOp) and isinstance(inner.test.op, ast.And) else [inner.test])
                cand = ast.BoolOp(op=ast.And(), values=[clone(v) for v in vals])
                ast.fix_missing_locations(cand)
                if u(cand) in rt or _pick(cand, rt) is not None:
                    s.test = cand
                    s.body = inner.body
                    n_changed += 1
                else:
                    break
    # 1. tests of if / while / conditional expressions
    for blk in list(blocks_of(fn)):
        k = 0
        while k < len(blk):
            s = blk[k]
            k += 1
            if not isinstance(s, (ast.If, ast.While)):
                continue
            t = u(s.test)
            if t in rt:
                continue
            f = _pick(s.test, rt)
            if f is not None:
                s.test = f
                n_changed += 1
                continue
            if isinstance(s, ast.While):
                continue
            neg = None
            for cand in negations(s.test):
                ast.fix_missing_locations(cand)
                neg = cand if u(cand) in rt else _pick(cand, rt)
                if neg is not None:
                    break
            if neg is None:
                continue
            elif_chain = len(s.orelse) == 1 and isinstance(s.orelse[0], ast.If)
            if s.orelse and not elif_chain:
                s.test = neg
                s.body, s.orelse = s.orelse, s.body
                n_changed += 1
            elif not s.orelse and _ends_in_jump(s.body) and blk[k:]:
                # guard clause: if not c: B (leaves)  ; REST    ->   if c: REST else: B
                rest = blk[k:]
                del blk[k:]
                s.test = neg
                s.orelse = s.body
                s.body = rest
                n_changed += 1
    for n in ast.walk(fn):
        if isinstance(n, ast.IfExp) and u(n.test) not in rt:
            f = _pick(n.test, rt)
            if f is not None:
                n.test = f
                n_changed += 1
                continue
            for cand in negations(n.test):
                ast.fix_missing_locations(cand)
                neg = cand if u(cand) in rt else _pick(cand, rt)
                if neg is not None:
                    n.test = neg
                    n.body, n.orelse = n.orelse, n.body
                    n_changed += 1
                    break
    # 2. the reference wrote a guard clause (no else, body leaves) where the function has an if/else: flatten
    for blk in list(blocks_of(fn)):
        for k, s in enumerate(blk):
            if isinstance(s, ast.If) and s.orelse and not (len(s.orelse) == 1 and isinstance(s.orelse[0], ast.If)):
                info = ifs.get(u(s.test))
                if info is not None and info[0] is False and info[1] is True and _ends_in_jump(s.body):
                    tail = s.orelse
                    s.orelse = []
                    blk[k + 1:k + 1] = tail
                    n_changed += 1
                    break
    # 3. comparisons, and/or expressions and quantifiers anywhere else
    for n in list(ast.walk(fn)):
        if isinstance(n, (ast.Compare, ast.BoolOp)) or (isinstance(n, ast.Call) and isinstance(n.func, ast.Name) and n.func.id in ("all", "any")) \
                or (isinstance(n, ast.UnaryOp) and isinstance(n.op, ast.Not)):
            t = u(n)
            if t in rexprs or t in rt:
                continue
            f = _pick(n, rexprs)
            if f is not None and type(f) is type(n):
                for fld in n._fields:
                    setattr(n, fld, getattr(f, fld))
                n_changed += 1
            elif f is not None:
                if _replace(fn, n, f):
                    n_changed += 1
    if n_changed:
        ast.fix_missing_locations(fn)
    return n_changed


# ------------------------------------------------------------------------------------------------ inline new helpers
class _Subst(ast.NodeTransformer):
    def __init__(self, mapping: Dict[str, ast.AST]):
        self.mapping = mapping

    def visit_Name(self, node):
        if isinstance(node.ctx, ast.Load) and node.id in self.mapping:
            return ast.copy_location(clone(self.mapping[node.id]), node)
        return node


def _simple(e: ast.AST) -> bool:
    return isinstance(e, (ast.Name, ast.Constant)) or (isinstance(e, ast.Attribute) and _simple(e.value))


def _helper_kind(fn: ast.FunctionDef):
    body = list(fn.body)
    if body and isinstance(body[0], ast.Expr) and isinstance(body[0].value, ast.Constant) and isinstance(body[0].value.value, str):
        body = body[1:]
    if not body:
        return None
    if fn.args.vararg or fn.args.kwarg or fn.args.kwonlyargs:
        return None
    if any(isinstance(n, (ast.Yield, ast.YieldFrom, ast.Await, ast.Global, ast.Nonlocal, ast.FunctionDef)) for s in body for n in ast.walk(s)):
        return None
    hp = {a.arg for a in fn.args.posonlyargs + fn.args.args}
    if any(isinstance(n, ast.Lambda) and ({a.arg for a in n.args.args} & hp) for s in body for n in ast.walk(s)):
        return None  # a lambda parameter that shadows a parameter of the helper: substitution would capture it
    if len(body) == 1 and isinstance(body[0], ast.Return) and body[0].value is not None:
        return ("expr", body)
    # a decision list: `if c: return A` ... `return B`  is the expression `A if c else ... B`
    folded = _fold_decision_list(body)
    if folded is not None:
        return ("expr", [ast.Return(value=folded)])
    body = _fold_guard_returns(body)
    rets = [n for s in body for n in ast.walk(s) if isinstance(n, ast.Return)]
    if all(r is body[-1] for r in rets):
        return ("proc", body)
    # a search: `return <bool>` inside the loops of the last-but-one statement, `return <the other bool>` at the end
    if len(body) >= 2 and isinstance(body[-1], ast.Return) and isinstance(body[-1].value, ast.Constant) and isinstance(body[-1].value.value, bool) \
            and isinstance(body[-2], (ast.For, ast.While)) and not body[-2].orelse:
        final = body[-1].value.value
        inner = [r for r in rets if r is not body[-1]]
        in_last = {id(n) for n in ast.walk(body[-2])}
        if inner and all(id(r) in in_last and isinstance(r.value, ast.Constant) and r.value.value is (not final) for r in inner) \
                and not any(isinstance(n, (ast.Try, ast.With)) for n in ast.walk(body[-2])):
            return ("search", body)
    # a search for a value: `return <tuple of names / name>` inside the loops of the last-but-one statement, `return None` at the end
    if len(body) >= 2 and isinstance(body[-1], ast.Return) and (body[-1].value is None or (isinstance(body[-1].value, ast.Constant) and body[-1].value.value is None)) \
            and isinstance(body[-2], (ast.For, ast.While)) and not body[-2].orelse:
        inner = [r for r in rets if r is not body[-1]]
        in_last = {id(n) for n in ast.walk(body[-2])}
        if inner and all(id(r) in in_last and ((isinstance(r.value, ast.Tuple) and all(isinstance(e, ast.Name) for e in r.value.elts))
                                               or isinstance(r.value, ast.Name)) for r in inner) \
                and not any(isinstance(n, (ast.Try, ast.With)) for n in ast.walk(body[-2])):
            return ("valsearch", body)
    return None


def _fold_guard_returns(body: List[ast.stmt]) -> List[ast.stmt]:
    """`if c: return` (bare) followed by REST, at the top level of a procedure, is `if not c: REST`."""
    for i, st in enumerate(body):
        if isinstance(st, ast.If) and not st.orelse and len(st.body) == 1 and isinstance(st.body[0], ast.Return) and st.body[0].value is None \
                and i + 1 < len(body) and not any(isinstance(n, ast.Return) for x in body[:i] for n in ast.walk(x)):
            rest = _fold_guard_returns(body[i + 1:])
            if rest and isinstance(rest[-1], ast.Return) and rest[-1].value is None:
                rest = rest[:-1]
            if any(isinstance(n, ast.Return) for x in rest for n in ast.walk(x)):
                return body
            neg = ast.UnaryOp(op=ast.Not(), operand=st.test)
            return body[:i] + [ast.copy_location(ast.If(test=neg, body=rest or [ast.Pass()], orelse=[]), st)]
    return body


def _fold_decision_list(body: List[ast.stmt]) -> Optional[ast.AST]:
    if not body or not isinstance(body[-1], ast.Return) or body[-1].value is None:
        return None
    acc = body[-1].value
    for st in reversed(body[:-1]):
        if not isinstance(st, ast.If):
            return None
        if st.orelse:
            e = _fold_decision_list(st.orelse)
            if e is None:
                return None
            acc = e
        b = _fold_decision_list(st.body)
        if b is None:
            return None
        acc = ast.IfExp(test=st.test, body=b, orelse=acc)
    return acc


def _bind_args(fn: ast.FunctionDef, call: ast.Call, drop_first: bool) -> Optional[Dict[str, ast.AST]]:
    params = [a.arg for a in fn.args.posonlyargs + fn.args.args]
    if drop_first:
        params = params[1:]
    defaults = fn.args.defaults
    dmap = dict(zip(params[len(params) - len(defaults):], defaults)) if defaults else {}
    out: Dict[str, ast.AST] = {}
    if len(call.args) > len(params) or any(isinstance(a, ast.Starred) for a in call.args):
        return None
    for p, a in zip(params, call.args):
        out[p] = a
    for k in call.keywords:
        if k.arg is None or k.arg not in params or k.arg in out:
            return None
        out[k.arg] = k.value
    for p in params:
        if p not in out:
            if p in dmap:
                out[p] = dmap[p]
            else:
                return None
    return out


def inline_new_helpers(tree: ast.AST, ref_functions: Set[str]) -> int:
    """Substitute private helper methods/functions that the reference module does not define."""
    done = 0
    for cls in [n for n in ast.walk(tree) if isinstance(n, ast.ClassDef)]:
        meths = {s.name: s for s in cls.body if isinstance(s, ast.FunctionDef)}
        for name, h in list(meths.items()):
            q = _qual_in(tree, cls, name)
            if q in ref_functions or not name.startswith("_") or name.startswith("__") and name.endswith("__"):
                continue
            kind = _helper_kind(h)
            if kind is None:
                continue
            decs = {d.id for d in h.decorator_list if isinstance(d, ast.Name)}
            if decs - {"staticmethod"}:
                continue
            static = "staticmethod" in decs
            mangled = f"_{cls.name.lstrip('_')}{name}" if name.startswith("__") else name
            hparams = {a.arg for a in h.args.posonlyargs + h.args.args}
            if any(isinstance(n, ast.Name) and isinstance(n.ctx, ast.Del) and n.id in hparams for n in ast.walk(h)):
                continue
            # a parameter the helper re-binds: only when the argument is the caller's local of the same name and the caller cannot tell
            stored_params = {n.id for n in ast.walk(h) if isinstance(n, ast.Name) and isinstance(n.ctx, ast.Store) and n.id in hparams}
            if stored_params and kind[0] != "proc":
                continue
            hstores = {n.id for n in ast.walk(h) if isinstance(n, ast.Name) and isinstance(n.ctx, ast.Store)}
            # call sites in the same class
            sites = []
            others = 0
            for m in meths.values():
                if m is h:
                    if any(isinstance(c, ast.Attribute) and c.attr in (name, mangled) for c in ast.walk(m)):
                        others += 1  # recursive
                    continue
                for c in ast.walk(m):
                    if isinstance(c, ast.Attribute) and c.attr in (name, mangled):
                        others += 1
                    if isinstance(c, ast.Call) and isinstance(c.func, ast.Attribute) and c.func.attr in (name, mangled) \
                            and isinstance(c.func.value, ast.Name) and c.func.value.id in ("self", cls.name):
                        sites.append((m, c))
            if not sites or others != len(sites):
                continue
            # uses outside the class?
            if any(isinstance(c, ast.Attribute) and c.attr in (name, mangled) and not _inside(cls, c, tree) for c in ast.walk(tree)):
                continue
            ok_all = True
            for m, c in sites:
                binding = _bind_args(h, c, drop_first=not static)
                if binding is None:
                    ok_all = False
                    break
                if not static and c.func.value.id != "self":
                    ok_all = False
                    break
                if any(not (isinstance(binding.get(p), ast.Name) and binding[p].id == p) for p in stored_params):
                    ok_all = False
                    break
                if kind[0] == "proc":
                    # the names the helper binds become names of the caller: nothing there may read them afterwards
                    site = next((st for blk in blocks_of(m) for st in blk if not isinstance(st, (ast.If, ast.For, ast.While, ast.With, ast.Try))
                                 and any(x is c for x in ast.walk(st))), None)
                    shared = {n.id for n in ast.walk(m) if isinstance(n, ast.Name) and n.id in hstores}
                    if isinstance(site, ast.Assign) and site.value is c:
                        shared -= {t.id for t in site.targets if isinstance(t, ast.Name)}  # bound by the statement itself once the call is over
                    if site is None or (shared and not _leak_is_unobservable(m, site, shared)):
                        ok_all = False
                        break
                if not _inline_site(m, c, h, kind, binding):
                    ok_all = False
                    break
                done += 1
            if ok_all:
                cls.body.remove(h)
    if done:
        ast.fix_missing_locations(tree)
    return done


def inline_local_functions(fn: ast.AST, keep: Set[str] = frozenset()) -> int:
    """A function defined inside `fn` (a closure over fn's variables) that is only ever called by name, whose body is one
    `return <expr>`, a decision list, or a straight-line procedure, is substituted at its call sites (names in `keep` are left)."""
    done = 0
    for _ in range(4):
        progressed = False
        for blk in list(blocks_of(fn)):
            for h in [s for s in blk if isinstance(s, ast.FunctionDef) and s is not fn]:
                if h.name in keep or h.decorator_list:
                    continue
                kind = _helper_kind(h)
                if kind is None:
                    continue
                hparams = {a.arg for a in h.args.posonlyargs + h.args.args}
                if any(isinstance(n, ast.Name) and isinstance(n.ctx, (ast.Store, ast.Del)) and n.id in hparams for n in ast.walk(h)):
                    continue
                if any(isinstance(n, ast.Nonlocal) for n in ast.walk(h)):
                    continue
                # a procedure that binds names would bind them in the enclosing function after substitution: only when they are its own
                outer_names = {n.id for n in ast.walk(fn) if isinstance(n, ast.Name) and not any(n is x for x in ast.walk(h))}
                own_stores = {n.id for n in ast.walk(h) if isinstance(n, ast.Name) and isinstance(n.ctx, ast.Store)}
                if own_stores & outer_names:
                    continue
                refs = [n for n in ast.walk(fn) if isinstance(n, ast.Name) and n.id == h.name and not any(n is x for x in ast.walk(h))]
                calls = [c for c in ast.walk(fn) if isinstance(c, ast.Call) and isinstance(c.func, ast.Name) and c.func.id == h.name
                         and not any(c is x for x in ast.walk(h))]
                if not calls or len(refs) != len(calls):
                    continue  # also handed around as a value (key=..., weights=...)
                if any(isinstance(n, ast.Name) and n.id == h.name for n in ast.walk(h)):
                    continue  # recursive
                ok_all = True
                for c in calls:
                    binding = _bind_args(h, c, drop_first=False)
                    if binding is None or not _inline_site(fn, c, h, kind, binding):
                        ok_all = False
                        break
                    done += 1
                if ok_all:
                    for b2 in blocks_of(fn):
                        if any(x is h for x in b2):
                            b2.remove(h)
                            if not b2:
                                b2.append(ast.Pass())
                            break
                    progressed = True
                    break
            if progressed:
                break
        if not progressed:
            break
    if done:
        ast.fix_missing_locations(fn)
    return done


def _inside(cls, node, tree) -> bool:
    return any(n is node for n in ast.walk(cls))


def _qual_in(tree, cls, name) -> str:
    def rec(node, stack):
        for ch in ast.iter_child_nodes(node):
            if ch is cls:
                return ".".join(stack + [cls.name, name])
            if isinstance(ch, ast.ClassDef):
                r = rec(ch, stack + [ch.name])
                if r:
                    return r
            elif not isinstance(ch, (ast.FunctionDef, ast.AsyncFunctionDef)):
                r = rec(ch, stack)
                if r:
                    return r
        return None
    return rec(tree, []) or f"{cls.name}.{name}"


def _inline_search(m, call, body, mapping, pre) -> bool:
    """v = self.h(...) with h a search (see _helper_kind): v = <final>; the loops with `return R` spelt `v = R; break`, and
    `if v: break` (or `if not v`) behind every inner loop that holds one."""
    final = body[-1].value.value
    for blk in blocks_of(m):
        for i, s in enumerate(blk):
            if not (isinstance(s, ast.Assign) and s.value is call and len(s.targets) == 1 and isinstance(s.targets[0], ast.Name)):
                continue
            v = s.targets[0].id
            stmts = [_Subst(mapping).visit(ast.parse(u(x)).body[0]) for x in body[:-1]]
            if any(isinstance(n, ast.Name) and n.id == v for x in stmts for n in ast.walk(x)):
                return False

            def has_ret(n):
                return any(isinstance(x, ast.Return) for x in ast.walk(n))

            def rewrite(block: List[ast.stmt], depth: int):
                out: List[ast.stmt] = []
                for st in block:
                    if isinstance(st, ast.Return):
                        out.append(ast.Assign(targets=[ast.Name(id=v, ctx=ast.Store())], value=ast.Constant(value=not final), lineno=0, col_offset=0))
                        out.append(ast.Break())
                        continue
                    if isinstance(st, (ast.For, ast.While)) and has_ret(st):
                        st.body = rewrite(st.body, depth + 1)
                        out.append(st)
                        if depth > 0:
                            test = ast.Name(id=v, ctx=ast.Load()) if not final else ast.UnaryOp(op=ast.Not(), operand=ast.Name(id=v, ctx=ast.Load()))
                            out.append(ast.If(test=test, body=[ast.Break()], orelse=[]))
                        continue
                    if isinstance(st, ast.If) and has_ret(st):
                        st.body = rewrite(st.body, depth)
                        st.orelse = rewrite(st.orelse, depth)
                    out.append(st)
                return out
            new_body = list(pre) + [ast.Assign(targets=[ast.Name(id=v, ctx=ast.Store())], value=ast.Constant(value=final), lineno=0, col_offset=0)] \
                + stmts[:-1] + rewrite([stmts[-1]], 0)
            for x in new_body:
                for n in ast.walk(x):
                    if not hasattr(n, "lineno") or not getattr(n, "lineno", 0):
                        ast.copy_location(n, s)
            blk[i:i + 1] = new_body
            return True
    return False


def _hit_loops(v: str, flag: str, loops: ast.stmt, made: Optional[List[ast.Assign]] = None) -> List[ast.stmt]:
    """`loops` with every `return E` spelt `v = E; flag = True; break` and `if flag: break` behind every inner loop that holds one."""
    def has_ret(n):
        return any(isinstance(x, ast.Return) for x in ast.walk(n))

    def rewrite(block: List[ast.stmt], depth: int):
        out: List[ast.stmt] = []
        for st in block:
            if isinstance(st, ast.Return):
                out.append(ast.Assign(targets=[ast.Name(id=v, ctx=ast.Store())], value=st.value, lineno=0, col_offset=0))
                if made is not None:
                    made.append(out[-1])
                out.append(ast.Assign(targets=[ast.Name(id=flag, ctx=ast.Store())], value=ast.Constant(value=True), lineno=0, col_offset=0))
                out.append(ast.Break())
                continue
            if isinstance(st, (ast.For, ast.While)) and has_ret(st):
                st.body = rewrite(st.body, depth + 1)
                out.append(st)
                if depth > 0:
                    out.append(ast.If(test=ast.Name(id=flag, ctx=ast.Load()), body=[ast.Break()], orelse=[]))
                continue
            if isinstance(st, ast.If) and has_ret(st):
                st.body = rewrite(st.body, depth)
                st.orelse = rewrite(st.orelse, depth)
            out.append(st)
        return out
    return rewrite([loops], 0)


_NONNULL: Optional[Set[str]] = None


def _never_none_local(stmts: List[ast.stmt], name: str) -> bool:
    """Every binding of `name` in `stmts` is a display, a constructor call, or a call of a repository function whose every return is
    one (reference/locals.json `__nonnull__`)."""
    global _NONNULL
    if _NONNULL is None:
        try:
            import json as _json
            import os as _os
            _NONNULL = set(_json.load(open(_os.path.join(_os.path.dirname(_os.path.dirname(_os.path.abspath(__file__))), "reference", "locals.json"))).get("__nonnull__", []))
        except Exception:
            _NONNULL = set()
    defs = [a for x in stmts for a in ast.walk(x) if isinstance(a, ast.Assign) and any(isinstance(t, ast.Name) and t.id == name for t in a.targets)
            and not (isinstance(a.value, ast.Name) and a.value.id == name)]
    if not defs:
        return False
    for a in defs:
        val = a.value
        if isinstance(val, (ast.Tuple, ast.List, ast.Dict, ast.Set)):
            continue
        if isinstance(val, ast.Call):
            nm = val.func.attr if isinstance(val.func, ast.Attribute) else (val.func.id if isinstance(val.func, ast.Name) else "")
            if nm[:1].isupper() or nm in _NONNULL:
                continue
        return False
    return True


def _install_value_search(m: ast.AST, blk: List[ast.stmt], i: int, v: str, loops: ast.stmt, pre: List[ast.stmt]) -> bool:
    """Replace blk[i] (`v = <search>`) by the explicit search with a found-flag, and - when every hit value is a tuple of names and v
    is otherwise only tested against None and unpacked - drop the tuple: tests become tests of the flag, the unpacking binds the names."""
    s = blk[i]
    flag = f"is_{v}_found"
    if any(isinstance(n, ast.Name) and n.id == flag for n in ast.walk(m)):
        return False
    hits: List[ast.Assign] = []
    body = _hit_loops(v, flag, loops, hits)
    new_body = list(pre) + [ast.Assign(targets=[ast.Name(id=v, ctx=ast.Store())], value=ast.Constant(value=None), lineno=0, col_offset=0),
                            ast.Assign(targets=[ast.Name(id=flag, ctx=ast.Store())], value=ast.Constant(value=False), lineno=0, col_offset=0)] + body
    tuple_hits = hits and all(isinstance(h.value, ast.Tuple) and all(isinstance(e, ast.Name) for e in h.value.elts) for h in hits) \
        and len({u(h.value) for h in hits}) == 1
    name_hits = hits and not tuple_hits and all(isinstance(h.value, ast.Name) for h in hits) and len({u(h.value) for h in hits}) == 1 \
        and _never_none_local(body, hits[0].value.id)
    # other uses of v in the function
    mine = {id(n) for x in new_body for n in ast.walk(x)}
    uses = [n for n in ast.walk(m) if isinstance(n, ast.Name) and n.id == v and id(n) not in mine and not any(n is y for y in ast.walk(s))]
    ok_simplify = bool(tuple_hits)
    rewrites = []
    if name_hits:
        # v is the hit's own local (never None): `v is None` is `not flag`; when the names coincide the copy `v = v` goes away
        parents2: Dict[int, ast.AST] = {}
        for pnode in ast.walk(m):
            for ch in ast.iter_child_nodes(pnode):
                parents2[id(ch)] = pnode
        for n in uses:
            pn = parents2.get(id(n))
            if isinstance(pn, ast.Compare) and pn.left is n and len(pn.ops) == 1 and isinstance(pn.ops[0], (ast.Is, ast.IsNot)) \
                    and isinstance(pn.comparators[0], ast.Constant) and pn.comparators[0].value is None:
                rewrites.append(("test", pn, isinstance(pn.ops[0], ast.IsNot)))
    if ok_simplify:
        parents: Dict[int, ast.AST] = {}
        for pnode in ast.walk(m):
            for ch in ast.iter_child_nodes(pnode):
                parents[id(ch)] = pnode
        for n in uses:
            pn = parents.get(id(n))
            if isinstance(pn, ast.Compare) and pn.left is n and len(pn.ops) == 1 and isinstance(pn.ops[0], (ast.Is, ast.IsNot)) \
                    and isinstance(pn.comparators[0], ast.Constant) and pn.comparators[0].value is None:
                rewrites.append(("test", pn, isinstance(pn.ops[0], ast.IsNot)))
            elif isinstance(pn, ast.Assign) and pn.value is n and len(pn.targets) == 1 and isinstance(pn.targets[0], ast.Tuple) \
                    and all(isinstance(e, ast.Name) for e in pn.targets[0].elts) and len(pn.targets[0].elts) == len(hits[0].value.elts):
                rewrites.append(("unpack", pn, None))
            else:
                ok_simplify = False
                break
    for x in new_body:
        for n in ast.walk(x):
            if not getattr(n, "lineno", 0):
                ast.copy_location(n, s)
    blk[i:i + 1] = new_body
    if name_hits:
        for kind, node, positive in rewrites:
            new = ast.Name(id=flag, ctx=ast.Load()) if positive else ast.UnaryOp(op=ast.Not(), operand=ast.Name(id=flag, ctx=ast.Load()))
            _replace(m, node, new)
        for b2 in list(blocks_of(m)):
            for x in list(b2):
                if x in hits and isinstance(x.value, ast.Name) and x.value.id == v:
                    b2.remove(x)  # v = v
                    if not b2:
                        b2.append(ast.Pass())
    if ok_simplify:
        elts = [e.id for e in hits[0].value.elts]
        for kind, node, positive in rewrites:
            if kind == "test":
                new = ast.Name(id=flag, ctx=ast.Load()) if positive else ast.UnaryOp(op=ast.Not(), operand=ast.Name(id=flag, ctx=ast.Load()))
                _replace(m, node, new)
            else:
                tg = [e.id for e in node.targets[0].elts]
                if tg == elts:
                    for b2 in blocks_of(m):
                        if any(x is node for x in b2):
                            b2.remove(node)
                            if not b2:
                                b2.append(ast.Pass())
                            break
                else:
                    # the search can bind the unpacked names itself when nobody can tell: they are not mentioned in the search, not read
                    # between the search and the unpacking, and a binding made at the search is not observable elsewhere
                    pos2, last2 = _positions(m)
                    search_nodes = {id(n) for x in new_body for n in ast.walk(x)}
                    lo2 = min(pos2[id(x)] for x in new_body)
                    clash = any(isinstance(n, ast.Name) and n.id in tg and id(n) in search_nodes for n in ast.walk(m))
                    between = any(isinstance(n, ast.Name) and n.id in tg and id(n) not in search_nodes and lo2 < pos2[id(n)] < pos2[id(node)] for n in ast.walk(m))
                    first_loop = next((x for x in new_body if isinstance(x, (ast.For, ast.While))), None)
                    if not clash and not between and len(set(tg)) == len(tg) and first_loop is not None and _leak_is_unobservable(m, first_loop, set(tg)):
                        ren = dict(zip(elts, tg))
                        for x in new_body:
                            for n in ast.walk(x):
                                if isinstance(n, ast.Name) and n.id in ren:
                                    n.id = ren[n.id]
                        for b2 in blocks_of(m):
                            if any(x is node for x in b2):
                                b2.remove(node)
                                if not b2:
                                    b2.append(ast.Pass())
                                break
                    else:
                        node.value = ast.Tuple(elts=[ast.Name(id=e, ctx=ast.Load()) for e in elts], ctx=ast.Load())
        # the tuple itself is no longer needed
        for b2 in list(blocks_of(m)):
            for x in list(b2):
                if isinstance(x, ast.Assign) and len(x.targets) == 1 and isinstance(x.targets[0], ast.Name) and x.targets[0].id == v \
                        and (x in hits or (isinstance(x.value, ast.Constant) and x.value.value is None)):
                    b2.remove(x)
                    if not b2:
                        b2.append(ast.Pass())
    ast.fix_missing_locations(m)
    return True


def _inline_value_search(m, call, body, mapping, pre) -> bool:
    for blk in blocks_of(m):
        for i, s in enumerate(blk):
            if isinstance(s, ast.Assign) and s.value is call and len(s.targets) == 1 and isinstance(s.targets[0], ast.Name):
                stmts = [_Subst(mapping).visit(ast.parse(u(x)).body[0]) for x in body[:-1]]
                if len(stmts) != 1:
                    return False
                return _install_value_search(m, blk, i, s.targets[0].id, stmts[0], list(pre))
    return False


def loop_binding_is_private(fn: ast.AST, loop: ast.For, name: str) -> bool:
    """The binding of `name` made by `loop` (its target) is seen by nobody outside the loop: every read of the name outside it either
    comes before the loop and outside every loop around it, or is preceded on its own path by another binding (an assignment or another
    loop's target) that follows the loop / starts inside the shared enclosing loop."""
    parents: Dict[int, ast.AST] = {}
    for p in ast.walk(fn):
        for ch in ast.iter_child_nodes(p):
            parents[id(ch)] = p
    pos, last = _positions(fn)
    inside = {id(n) for n in ast.walk(loop)}
    enc = []
    q = parents.get(id(loop))
    while q is not None:
        if isinstance(q, (ast.For, ast.While)):
            enc.append(q)
        q = parents.get(id(q))

    def binds(st, nm):
        return isinstance(st, ast.Assign) and any(isinstance(t, ast.Name) and t.id == nm for tg in st.targets for t in ast.walk(tg))

    def dominated(n, lo):
        child = n
        p = parents.get(id(child))
        while p is not None:
            if isinstance(p, ast.For) and p is not loop and any(child is x for x in p.body) and pos[id(p)] > lo \
                    and any(isinstance(t, ast.Name) and t.id == n.id for t in ast.walk(p.target)):
                return True
            for f in ("body", "orelse", "finalbody"):
                b = getattr(p, f, None)
                if isinstance(b, list) and any(child is x for x in b):
                    k = [j for j, x in enumerate(b) if x is child][0]
                    if any(binds(x, n.id) and pos[id(x)] > lo for x in b[:k]):
                        return True
            child, p = p, parents.get(id(p))
        return False
    for n in ast.walk(fn):
        if not (isinstance(n, ast.Name) and n.id == name and isinstance(n.ctx, ast.Load)) or id(n) in inside:
            continue
        if pos[id(n)] > last[id(loop)]:
            if not dominated(n, last[id(loop)]):
                return False
        else:
            loops_n = []
            q = parents.get(id(n))
            while q is not None:
                if isinstance(q, (ast.For, ast.While)):
                    loops_n.append(q)
                q = parents.get(id(q))
            shared = [l for l in enc if any(l is x for x in loops_n)]
            if shared and not dominated(n, pos[id(shared[0])]):
                return False
    return True


def _leak_is_unobservable(fn: ast.AST, s: ast.stmt, names: Set[str]) -> bool:
    """The variables of a generator become locals of the function when the generator is spelt as loops. Nothing can tell when every
    read of such a name outside `s` is preceded, on every path, by a binding of that name that itself follows `s` (reads after `s`), or
    lies outside every loop around `s` (reads before `s`), or is preceded inside that loop by such a binding."""
    parents: Dict[int, ast.AST] = {}
    for p in ast.walk(fn):
        for ch in ast.iter_child_nodes(p):
            parents[id(ch)] = p
    # the statement right after `s` leaves the function without reading the names: nothing runs afterwards that could tell
    holder = parents.get(id(s))
    for f in ("body", "orelse", "finalbody"):
        b = getattr(holder, f, None)
        if isinstance(b, list) and any(x is s for x in b):
            k = [j for j, x in enumerate(b) if x is s][0]
            if k + 1 < len(b) and isinstance(b[k + 1], (ast.Return, ast.Raise)) \
                    and not any(isinstance(n, ast.Name) and n.id in names for n in ast.walk(b[k + 1])) \
                    and not any(isinstance(q, ast.Try) for q in ast.walk(fn)):
                return True
    pos, last = _positions(fn)
    inside_s = {id(n) for n in ast.walk(s)}
    enc_loops = []
    q = parents.get(id(s))
    while q is not None:
        if isinstance(q, (ast.For, ast.While)):
            enc_loops.append(q)
        q = parents.get(id(q))

    def binds(st: ast.stmt, name: str) -> bool:
        if isinstance(st, ast.Assign):
            return any(isinstance(t, ast.Name) and t.id == name for tg in st.targets for t in ast.walk(tg))
        return False

    def dominated(n: ast.Name, lo: int) -> bool:
        """a binding of n.id positioned after `lo` that structurally precedes n (earlier sibling of n's statement or of an ancestor of it,
        or the target of a for loop whose body holds n)"""
        child = n
        p = parents.get(id(child))
        while p is not None:
            if isinstance(p, ast.For) and any(child is x for x in p.body) and pos[id(p)] > lo \
                    and any(isinstance(t, ast.Name) and t.id == n.id for t in ast.walk(p.target)):
                return True
            for f in ("body", "orelse", "finalbody"):
                b = getattr(p, f, None)
                if isinstance(b, list) and any(child is x for x in b):
                    k = [j for j, x in enumerate(b) if x is child][0]
                    if any(binds(x, n.id) and pos[id(x)] > lo for x in b[:k]):
                        return True
            child, p = p, parents.get(id(p))
        return False
    def scoped(n: ast.Name) -> bool:
        """bound by a comprehension or lambda around it: not the function's variable of that name"""
        q = parents.get(id(n))
        while q is not None:
            if isinstance(q, (ast.ListComp, ast.SetComp, ast.GeneratorExp, ast.DictComp)) \
                    and any(isinstance(t, ast.Name) and t.id == n.id for g in q.generators for t in ast.walk(g.target)):
                return True
            if isinstance(q, ast.Lambda) and any(a.arg == n.id for a in q.args.args):
                return True
            q = parents.get(id(q))
        return False
    for n in ast.walk(fn):
        if not (isinstance(n, ast.Name) and n.id in names and isinstance(n.ctx, ast.Load)) or id(n) in inside_s or scoped(n):
            continue
        if pos[id(n)] > last[id(s)]:
            if not dominated(n, last[id(s)]):
                return False
        else:
            loops_of_n = []
            q = parents.get(id(n))
            while q is not None:
                if isinstance(q, (ast.For, ast.While)):
                    loops_of_n.append(q)
                q = parents.get(id(q))
            shared = [l for l in enc_loops if any(l is x for x in loops_of_n)]
            if shared and not dominated(n, pos[id(shared[0])]):
                return False
    return True


def expand_next_search(fn: ast.AST) -> int:
    """`v = next((E for a in A for b in B if c), None)` is the explicit search: nested loops, the hit recorded, `break` out of both."""
    done = 0
    for blk in list(blocks_of(fn)):
        for i, s in enumerate(blk):
            if not (isinstance(s, ast.Assign) and len(s.targets) == 1 and isinstance(s.targets[0], ast.Name) and isinstance(s.value, ast.Call)
                    and isinstance(s.value.func, ast.Name) and s.value.func.id == "next" and len(s.value.args) == 2 and not s.value.keywords
                    and isinstance(s.value.args[0], ast.GeneratorExp) and isinstance(s.value.args[1], ast.Constant) and s.value.args[1].value is None):
                continue
            gen = s.value.args[0]
            # the generator's variables become locals of the function: they must not be live names of it (other than being re-bound later)
            gvars = {n.id for g in gen.generators for n in ast.walk(g.target) if isinstance(n, ast.Name)}
            inner: List[ast.stmt] = [ast.Return(value=clone(gen.elt))]
            for g in reversed(gen.generators):
                for c in reversed(g.ifs):
                    inner = [ast.If(test=clone(c), body=inner, orelse=[])]
                inner = [ast.For(target=ast.parse(u(g.target) + " = 0").body[0].targets[0], iter=clone(g.iter), body=inner, orelse=[], lineno=s.lineno, col_offset=0)]
            if not _leak_is_unobservable(fn, s, gvars):
                continue
            if _install_value_search(fn, blk, i, s.targets[0].id, inner[0], []):
                done += 1
                return done + expand_next_search(fn)
    return done


def _leading(value: ast.AST, call: ast.Call) -> bool:
    """`call` is evaluated before anything else with an effect in `value`: value is f(call, ...) / x.m(call, ...) nested."""
    node = value
    for _ in range(4):
        if node is call:
            return True
        if isinstance(node, ast.Call) and _simple(node.func) and node.args and not isinstance(node.args[0], ast.Starred):
            node = node.args[0]
            continue
        return False
    return False


def _inline_site(m: ast.FunctionDef, call: ast.Call, h: ast.FunctionDef, kind, binding: Dict[str, ast.AST]) -> bool:
    k, body = kind
    uses = {}
    for n in ast.walk(h):
        if isinstance(n, ast.Name) and isinstance(n.ctx, ast.Load) and n.id in binding:
            uses[n.id] = uses.get(n.id, 0) + 1
    pre: List[ast.stmt] = []
    mapping: Dict[str, ast.AST] = {}
    for p, a in binding.items():
        if _simple(a) or uses.get(p, 0) <= 1 and not roots_attrs(a)[2]:
            mapping[p] = a
        else:
            pre.append(ast.Assign(targets=[ast.Name(id=p, ctx=ast.Store())], value=clone(a), lineno=call.lineno, col_offset=0))
    if k == "expr":
        if pre:
            return False
        new = _Subst(mapping).visit(clone(body[0].value))
        return _replace(m, call, new)
    if k in ("search", "valsearch"):
        for blk in blocks_of(m):
            for i, st in enumerate(blk):
                if isinstance(st, ast.If) and st.test is call:
                    tmp = "is_" + call.func.attr.strip("_") + "_done"
                    if any(isinstance(n, ast.Name) and n.id == tmp for n in ast.walk(m)):
                        return False
                    blk.insert(i, ast.copy_location(ast.Assign(targets=[ast.Name(id=tmp, ctx=ast.Store())], value=call), st))
                    st.test = ast.copy_location(ast.Name(id=tmp, ctx=ast.Load()), call)
                    ast.fix_missing_locations(m)
                    break
            else:
                continue
            break
    if k == "search":
        return _inline_search(m, call, body, mapping, pre)
    if k == "valsearch":
        return _inline_value_search(m, call, body, mapping, pre)
    # procedure: the call must be a whole statement
    for blk in blocks_of(m):
        for i, s in enumerate(blk):
            tgt = None
            if isinstance(s, ast.Expr) and s.value is call:
                mode = "expr"
            elif isinstance(s, ast.Assign) and s.value is call and len(s.targets) == 1:
                mode, tgt = "assign", s.targets[0]
            elif isinstance(s, ast.Return) and s.value is call:
                mode = "return"
            elif isinstance(s, (ast.Expr, ast.Assign, ast.Return)) and s.value is not None and _leading(s.value, call) \
                    and isinstance(body[-1], ast.Return) and body[-1].value is not None and _simple(body[-1].value) \
                    and (not isinstance(s, ast.Assign) or all(_simple(t) for t in s.targets)):
                # the call is the first thing the statement evaluates: run the body first, then the statement on the returned name
                stmts = [_Subst(mapping).visit(ast.parse(u(x)).body[0]) for x in body[:-1]]
                ret = _Subst(mapping).visit(clone(body[-1].value))
                for x in stmts:
                    ast.copy_location(x, s)
                _replace(s, call, ret)
                blk[i:i] = list(pre) + stmts
                return True
            else:
                continue
            new_body: List[ast.stmt] = list(pre)
            stmts = [ast.parse(u(x)).body[0] for x in body]
            last = stmts[-1] if stmts and isinstance(stmts[-1], ast.Return) else None
            if last is not None:
                stmts = stmts[:-1]
            for x in stmts:
                new_body.append(_Subst(mapping).visit(x))
            if last is not None and last.value is not None:
                val = _Subst(mapping).visit(last.value)
                if mode == "assign":
                    new_body.append(ast.Assign(targets=[tgt], value=val, lineno=s.lineno, col_offset=0))
                elif mode == "return":
                    new_body.append(ast.Return(value=val))
                else:
                    new_body.append(ast.Expr(value=val))
            elif mode == "assign":
                new_body.append(ast.Assign(targets=[tgt], value=ast.Constant(value=None), lineno=s.lineno, col_offset=0))
            elif mode == "return":
                new_body.append(ast.Return(value=None))
            for x in new_body:
                ast.copy_location(x, s)
            blk[i:i + 1] = new_body
            return True
    return False
