"""Statement-level control-flow graph, dominators and bounded path enumeration.

Node kinds
  entry / ret (normal exit) / exc (exceptional exit)
  stmt   – a simple statement (Assign, Expr, Return, Raise, Assert, Delete, ...)
  test   – the test expression of an If / While / (one `case` of a Match)
  for    – the head of a For loop (ast = the For statement; consult .iter/.target)
  with   – the head of a With (ast = the With statement; consult .items)
  handler– entry of an `except` clause (ast = the ExceptHandler)

Edge labels
  None            sequential
  ('T', expr)     test evaluated true         ('F', expr)  test evaluated false
  ('iter', For)   loop takes another element  ('done', For) loop exhausted
  ('raise', n)    explicit raise / failed assert leaving to handler or exc exit
  ('exc', n)      implicit exception edge from a statement in a try body
"""
from __future__ import annotations

import ast
from typing import Callable, Dict, Iterator, List, Optional, Sequence, Set, Tuple

from .core import AnalysisError, parent, src

Label = Optional[Tuple[str, object]]


class Node:
    __slots__ = ("id", "kind", "ast")

    def __init__(self, id: int, kind: str, node: Optional[ast.AST]):
        self.id = id
        self.kind = kind
        self.ast = node

    @property
    def lineno(self) -> int:
        return getattr(self.ast, "lineno", 0)

    def __repr__(self) -> str:
        text = src(self.ast).split("\n")[0][:60] if self.ast is not None else ""
        return f"<{self.id}:{self.kind}@{self.lineno} {text}>"


class CFG:
    def __init__(self, func: ast.AST, implicit_exc: bool = False):
        self.func = func
        self.implicit_exc = implicit_exc
        self.nodes: List[Node] = []
        self.succ: Dict[int, List[Tuple[int, Label]]] = {}
        self.pred: Dict[int, List[Tuple[int, Label]]] = {}
        self.entry = self._new("entry", None)
        self.ret = self._new("ret", None)
        self.exc = self._new("exc", None)
        self._ast2node: Dict[int, int] = {}
        body = func.body if hasattr(func, "body") else []
        top_brk: List[Tuple[int, Label]] = []
        top_cont: List[Tuple[int, Label]] = []
        outs = self._block(body, [(self.entry.id, None)], top_brk, top_cont, [])
        # a synthetic body (e.g. one loop iteration) may break/continue at top level:
        # both leave the body normally; the kind of exit is visible from the last statement.
        for (n, lab) in outs + top_brk + top_cont:
            self._edge(n, self.ret.id, lab)
        self._dom: Optional[Dict[int, Set[int]]] = None
        self._pdom: Optional[Dict[int, Set[int]]] = None

    # -- construction ------------------------------------------------------
    def _new(self, kind: str, node: Optional[ast.AST]) -> Node:
        n = Node(len(self.nodes), kind, node)
        self.nodes.append(n)
        self.succ[n.id] = []
        self.pred[n.id] = []
        return n

    def _edge(self, a: int, b: int, lab: Label) -> None:
        self.succ[a].append((b, lab))
        self.pred[b].append((a, lab))

    def _attach(self, ins: List[Tuple[int, Label]], n: Node) -> None:
        for (p, lab) in ins:
            self._edge(p, n.id, lab)

    def _block(self, stmts: Sequence[ast.stmt], ins, brk, cont, handlers) -> List[Tuple[int, Label]]:
        cur = list(ins)
        for s in stmts:
            if not cur:
                break  # unreachable code after return/raise/continue/break
            cur = self._stmt(s, cur, brk, cont, handlers)
        return cur

    def _raise_targets(self, handlers) -> List[int]:
        if handlers:
            return list(handlers[-1])
        return [self.exc.id]

    def _stmt(self, s: ast.stmt, ins, brk, cont, handlers) -> List[Tuple[int, Label]]:
        if isinstance(s, ast.If):
            t = self._new("test", s.test)
            self._ast2node[id(s)] = t.id
            self._ast2node[id(s.test)] = t.id
            self._attach(ins, t)
            self._maybe_exc(t, handlers)
            outs = self._block(s.body, [(t.id, ("T", s.test))], brk, cont, handlers)
            if s.orelse:
                outs += self._block(s.orelse, [(t.id, ("F", s.test))], brk, cont, handlers)
            else:
                outs.append((t.id, ("F", s.test)))
            return outs
        if isinstance(s, ast.While):
            t = self._new("test", s.test)
            self._ast2node[id(s)] = t.id
            self._ast2node[id(s.test)] = t.id
            self._attach(ins, t)
            self._maybe_exc(t, handlers)
            my_brk: List[Tuple[int, Label]] = []
            my_cont: List[Tuple[int, Label]] = []
            body_out = self._block(s.body, [(t.id, ("T", s.test))], my_brk, my_cont, handlers)
            for (n, lab) in body_out + my_cont:
                self._edge(n, t.id, lab)
            outs: List[Tuple[int, Label]] = list(my_brk)
            is_true = isinstance(s.test, ast.Constant) and bool(s.test.value) is True
            if not is_true:
                if s.orelse:
                    outs += self._block(s.orelse, [(t.id, ("F", s.test))], brk, cont, handlers)
                else:
                    outs.append((t.id, ("F", s.test)))
            return outs
        if isinstance(s, (ast.For, ast.AsyncFor)):
            h = self._new("for", s)
            self._ast2node[id(s)] = h.id
            self._ast2node[id(s.iter)] = h.id
            self._attach(ins, h)
            self._maybe_exc(h, handlers)
            my_brk = []
            my_cont = []
            body_out = self._block(s.body, [(h.id, ("iter", s))], my_brk, my_cont, handlers)
            for (n, lab) in body_out + my_cont:
                self._edge(n, h.id, lab)
            outs = list(my_brk)
            if s.orelse:
                outs += self._block(s.orelse, [(h.id, ("done", s))], brk, cont, handlers)
            else:
                outs.append((h.id, ("done", s)))
            return outs
        if isinstance(s, (ast.With, ast.AsyncWith)):
            w = self._new("with", s)
            self._ast2node[id(s)] = w.id
            self._attach(ins, w)
            self._maybe_exc(w, handlers)
            return self._block(s.body, [(w.id, None)], brk, cont, handlers)
        if isinstance(s, ast.Try) or s.__class__.__name__ == "TryStar":
            h_entries: List[Node] = []
            for h in s.handlers:
                hn = self._new("handler", h)
                self._ast2node[id(h)] = hn.id
                h_entries.append(hn)
            catches_all = any(
                h.type is None or (isinstance(h.type, ast.Name) and h.type.id in ("Exception", "BaseException"))
                for h in s.handlers
            )
            targets = [hn.id for hn in h_entries]
            if not catches_all:
                targets += self._raise_targets(handlers)
            new_handlers = handlers + [targets] if s.handlers else handlers
            body_out = self._block(s.body, ins, brk, cont, new_handlers)
            if s.orelse:
                body_out = self._block(s.orelse, body_out, brk, cont, handlers)
            outs = list(body_out)
            for hn, h in zip(h_entries, s.handlers):
                outs += self._block(h.body, [(hn.id, None)], brk, cont, handlers)
            if s.finalbody:
                outs = self._block(s.finalbody, outs, brk, cont, handlers)
            return outs
        if isinstance(s, ast.Match):
            subj = self._new("stmt", s)  # evaluates the subject
            self._ast2node[id(s)] = subj.id
            self._attach(ins, subj)
            outs = []
            fall: List[Tuple[int, Label]] = [(subj.id, None)]
            exhaustive = False
            for i, case in enumerate(s.cases):
                t = self._new("test", case.pattern)
                self._ast2node[id(case)] = t.id
                self._attach(fall, t)
                outs += self._block(case.body, [(t.id, ("T", case.pattern))], brk, cont, handlers)
                fall = [(t.id, ("F", case.pattern))]
                if isinstance(case.pattern, ast.MatchAs) and case.pattern.pattern is None and case.guard is None:
                    exhaustive = True
                    fall = []
            if not exhaustive:
                outs += fall
            return outs
        # ---- simple statements ----
        n = self._new("stmt", s)
        self._ast2node[id(s)] = n.id
        self._attach(ins, n)
        if isinstance(s, ast.Return):
            self._edge(n.id, self.ret.id, None)
            return []
        if isinstance(s, ast.Raise):
            for t in self._raise_targets(handlers):
                self._edge(n.id, t, ("raise", s))
            return []
        if isinstance(s, ast.Break):
            brk.append((n.id, None))
            return []
        if isinstance(s, ast.Continue):
            cont.append((n.id, None))
            return []
        if isinstance(s, ast.Assert):
            for t in self._raise_targets(handlers):
                self._edge(n.id, t, ("raise", s))
            return [(n.id, ("T", s.test))]
        self._maybe_exc(n, handlers)
        return [(n.id, None)]

    def _maybe_exc(self, n: Node, handlers) -> None:
        if self.implicit_exc and handlers:
            for t in handlers[-1]:
                self._edge(n.id, t, ("exc", n.ast))

    # -- lookup --------------------------------------------------------------
    def node_of(self, sub: ast.AST) -> Node:
        """The CFG node whose evaluation includes `sub` (a statement or expression)."""
        n: Optional[ast.AST] = sub
        while n is not None:
            nid = self._ast2node.get(id(n))
            if nid is not None:
                node = self.nodes[nid]
                # An If/While statement maps to its test node only when `sub` is
                # inside the test; a sub-node in the body has its own statement.
                return node
            if n is self.func:
                break
            n = parent(n)
        raise AnalysisError(f"no CFG node for `{src(sub)[:60]}` in {getattr(self.func, 'name', '?')}")

    def stmt_nodes(self) -> List[Node]:
        return [n for n in self.nodes if n.kind not in ("entry", "ret", "exc")]

    # -- dominators ------------------------------------------------------------
    def _compute_dom(self, start: int, succ: Dict[int, List[Tuple[int, Label]]], pred) -> Dict[int, Set[int]]:
        reach: Set[int] = set()
        stack = [start]
        while stack:
            x = stack.pop()
            if x in reach:
                continue
            reach.add(x)
            stack.extend(t for (t, _) in succ[x])
        dom = {n: set(reach) for n in reach}
        dom[start] = {start}
        changed = True
        order = sorted(reach)
        while changed:
            changed = False
            for n in order:
                if n == start:
                    continue
                ps = [p for (p, _) in pred[n] if p in reach]
                if not ps:
                    new = {n}
                else:
                    new = set.intersection(*(dom[p] for p in ps)) | {n}
                if new != dom[n]:
                    dom[n] = new
                    changed = True
        return dom

    def dominators(self) -> Dict[int, Set[int]]:
        if self._dom is None:
            self._dom = self._compute_dom(self.entry.id, self.succ, self.pred)
        return self._dom

    def dominates(self, a: Node, b: Node) -> bool:
        d = self.dominators()
        return b.id in d and a.id in d[b.id]

    def reachable(self, a: Node, b: Node, avoid: Optional[Set[int]] = None) -> bool:
        """Is there a path a -> ... -> b (length >= 1) that avoids `avoid` nodes?"""
        avoid = avoid or set()
        seen: Set[int] = set()
        stack = [t for (t, _) in self.succ[a.id]]
        while stack:
            x = stack.pop()
            if x in seen or x in avoid:
                continue
            if x == b.id:
                return True
            seen.add(x)
            stack.extend(t for (t, _) in self.succ[x])
        return False

    def reachable_from_entry(self, b: Node, avoid: Set[int]) -> bool:
        if self.entry.id in avoid:
            return False
        seen: Set[int] = set()
        stack = [self.entry.id]
        while stack:
            x = stack.pop()
            if x in seen or x in avoid:
                continue
            if x == b.id:
                return True
            seen.add(x)
            stack.extend(t for (t, _) in self.succ[x])
        return False

    # -- edge-sensitive dominance ---------------------------------------------
    def edge_dominates(self, test: Node, polarity: str, b: Node) -> bool:
        """Every entry->b path leaves `test` through its `polarity` ('T'/'F') edge."""
        # Remove the other-polarity edges out of `test` and also require `test` to dominate b.
        if not self.dominates(test, b):
            return False
        other = "F" if polarity == "T" else "T"
        # Now compute reachability of b when only the `other` edges (and no polarity edges) leave test.
        seen: Set[int] = set()
        stack = [t for (t, lab) in self.succ[test.id] if lab is not None and lab[0] == other]
        while stack:
            x = stack.pop()
            if x in seen:
                continue
            if x == b.id:
                return False
            seen.add(x)
            if x == test.id:
                continue  # re-entering test (loop): its outgoing edges are examined separately
            stack.extend(t for (t, _) in self.succ[x])
        return True

    # -- paths -------------------------------------------------------------------
    def paths(
        self,
        loop_bound: int = 1,
        start: Optional[Node] = None,
        stop: Optional[Callable[[Node], bool]] = None,
        max_paths: int = 200000,
    ) -> Iterator[List[Tuple[Node, Label]]]:
        """Enumerate paths from `start` (entry) to an exit (ret/exc) or a `stop` node.

        A path is a list of (node, label of the edge taken *into* the node).
        Each loop head (test of While / for node) may be entered through its
        back/iter edge at most `loop_bound` times per path.
        """
        start = start or self.entry
        count = 0
        path: List[Tuple[Node, Label]] = []
        visits: Dict[int, int] = {}

        def rec(nid: int, lab: Label):
            nonlocal count
            node = self.nodes[nid]
            path.append((node, lab))
            if node.kind in ("ret", "exc") or (stop is not None and stop(node) and len(path) > 1):
                count += 1
                if count > max_paths:
                    raise AnalysisError(
                        f"path explosion in {getattr(self.func, 'name', '?')} (> {max_paths})"
                    )
                yield list(path)
                path.pop()
                return
            for (t, l) in self.succ[nid]:
                is_loop_take = l is not None and l[0] in ("iter",) or (
                    l is not None and l[0] == "T" and self._is_while_test(nid)
                )
                if is_loop_take:
                    c = visits.get(nid, 0)
                    if c >= loop_bound:
                        continue
                    visits[nid] = c + 1
                    yield from rec(t, l)
                    visits[nid] = c
                else:
                    yield from rec(t, l)
            path.pop()

        yield from rec(start.id, None)

    def _is_while_test(self, nid: int) -> bool:
        node = self.nodes[nid]
        if node.kind != "test":
            return False
        p = parent(node.ast) if node.ast is not None else None
        return isinstance(p, ast.While) and p.test is node.ast


def build(func: ast.AST, implicit_exc: bool = False) -> CFG:
    return CFG(func, implicit_exc=implicit_exc)


def path_exit_kind(path: List[Tuple[Node, Label]]) -> str:
    return path[-1][0].kind


def path_conditions(path: List[Tuple[Node, Label]]) -> List[Tuple[str, ast.AST]]:
    """[(polarity, test expr)] for every branch decision on the path, in order."""
    out = []
    for (_n, lab) in path:
        if lab is not None and lab[0] in ("T", "F") and isinstance(lab[1], ast.AST):
            out.append((lab[0], lab[1]))
    return out
