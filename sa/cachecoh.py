"""Cache coherence: a value memoised on an object must be dropped by every method that changes what it was computed from.

Caches recognised in a class K:
  * `@cached_property` / `@lru_cache` / `@cache` methods;
  * lazy memos: a method that stores `self.F = <expr>` and returns `self.F`, where F is initialised to None / a falsy
    sentinel in `__init__` or tested (`is None`, `not self.F`, `key in self.F`) before the store;
  * memo tables: `self.F[key] = <expr>` in a method that returns `self.F[key]`.
Dependencies of a cache = the fields of `self` read (transitively through self-calls, bases included) by the computation.
Mutators = methods other than `__init__` defined in K, its bases or its subclasses that write (assignment, `del`,
subscript store, mutating container call), transitively through self-calls, one of those fields.
A mutator is coherent when it resets the cache as a whole (`self.F = None` / `self.F = {}` / `.clear()` /
`self.__dict__.pop(name)` / `del self.name`) on every path, or re-invokes `__init__`.
"""
from __future__ import annotations

import ast
from typing import Dict, List, Optional, Set, Tuple

from . import cfg as cfgmod
from .core import Repo, call_name, is_self_attr, methods, norm

MUTATING_CALLS = {"append", "extend", "remove", "pop", "clear", "update", "insert", "setdefault", "popitem", "add", "discard",
                  "appendleft", "extendleft", "popleft", "sort", "reverse"}
CACHE_DECORATORS = {"cached_property", "lru_cache", "cache"}


def _class_index(repo: Repo) -> Dict[str, Tuple[str, ast.ClassDef]]:
    out = {}
    mods = sorted(repo.program_modules(), key=lambda m: (0 if m.rel.startswith(("workload/", "workers/")) else 1, m.rel))
    for m in mods:
        for c in ast.walk(m.tree):
            if isinstance(c, ast.ClassDef):
                out.setdefault(c.name, (m.rel, c))
    return out


def _bases(cls: ast.ClassDef, index) -> List[ast.ClassDef]:
    out = []
    for b in cls.bases:
        name = b.id if isinstance(b, ast.Name) else (b.value.id if isinstance(b, ast.Subscript) and isinstance(b.value, ast.Name) else None)
        if name in index:
            bc = index[name][1]
            out.append(bc)
            out += _bases(bc, index)
    return out


def _subclasses(cls: ast.ClassDef, index) -> List[ast.ClassDef]:
    return [c for (_r, c) in index.values() if c is not cls and cls in _bases(c, index)]


def _mangle(cls_name: str, attr: str) -> str:
    return f"_{cls_name.lstrip('_')}{attr}" if attr.startswith("__") and not attr.endswith("__") else attr


class ClassFacts:
    def __init__(self, cls: ast.ClassDef, index):
        self.cls = cls
        self.family = [cls] + _bases(cls, index)
        self.methods: Dict[str, Tuple[ast.ClassDef, ast.FunctionDef]] = {}
        for k in reversed(self.family):
            for name, fn in methods(k).items():
                self.methods[name] = (k, fn)

    def reads(self, fn: ast.FunctionDef, owner: ast.ClassDef, depth=0, seen=None) -> Set[str]:
        seen = seen if seen is not None else set()
        if fn in seen or depth > 5:
            return set()
        seen.add(fn)
        out = set()
        for n in ast.walk(fn):
            if isinstance(n, ast.Attribute) and is_self_attr(n) and isinstance(n.ctx, ast.Load):
                if n.attr in self.methods:
                    k, f = self.methods[n.attr]
                    out |= self.reads(f, k, depth + 1, seen)
                else:
                    out.add(_mangle(owner.name, n.attr))
            if isinstance(n, ast.Call) and isinstance(n.func, ast.Name) and n.func.id == "super":
                pass
        return out

    def writes(self, fn: ast.FunctionDef, owner: ast.ClassDef, depth=0, seen=None) -> Set[str]:
        seen = seen if seen is not None else set()
        if fn in seen or depth > 5:
            return set()
        seen.add(fn)
        out = set()
        for n in ast.walk(fn):
            if isinstance(n, (ast.Assign, ast.AugAssign, ast.Delete, ast.AnnAssign)):
                ts = n.targets if isinstance(n, (ast.Assign, ast.Delete)) else [n.target]
                for t in ts:
                    base = t
                    while isinstance(base, ast.Subscript):
                        base = base.value
                    if is_self_attr(base):
                        out.add(_mangle(owner.name, base.attr))
            if isinstance(n, ast.Call) and isinstance(n.func, ast.Attribute):
                if n.func.attr in MUTATING_CALLS:
                    base = n.func.value
                    while isinstance(base, ast.Subscript):
                        base = base.value
                    if is_self_attr(base):
                        out.add(_mangle(owner.name, base.attr))
                if is_self_attr(n.func) and n.func.attr in self.methods:
                    k, f = self.methods[n.func.attr]
                    out |= self.writes(f, k, depth + 1, seen)
                # super().__init__(...) / super(K, self).__init__(...) / cls.__init__(self, ...)
                if n.func.attr == "__init__":
                    for k in self.family:
                        init = methods(k).get("__init__")
                        if init is not None and init is not fn:
                            out |= self.writes(init, k, depth + 1, seen)
        return out


class Cache:
    def __init__(self, cls, fn, kind, name, field, deps):
        self.cls, self.fn, self.kind, self.name, self.field, self.deps = cls, fn, kind, name, field, deps


def find_caches(cf: ClassFacts) -> List[Cache]:
    out = []
    cls = cf.cls
    init = methods(cls).get("__init__")
    for name, fn in methods(cls).items():
        decs = {d.id if isinstance(d, ast.Name) else (d.func.id if isinstance(d, ast.Call) and isinstance(d.func, ast.Name) else getattr(d, "attr", ""))
                for d in fn.decorator_list}
        if decs & CACHE_DECORATORS:
            deps = cf.reads(fn, cls)
            out.append(Cache(cls, fn, "decorator", name, name, deps))
            continue
        if name == "__init__":
            continue
        # lazy memo: store self.F = expr (or self.F[k] = expr) and return self.F (self.F[k])
        for a in ast.walk(fn):
            if not isinstance(a, ast.Assign) or len(a.targets) != 1:
                continue
            t = a.targets[0]
            base = t.value if isinstance(t, ast.Subscript) else t
            if not is_self_attr(base):
                continue
            fld = base.attr
            returns_it = any(isinstance(r, ast.Return) and r.value is not None and any(is_self_attr(x, fld) for x in ast.walk(r.value)) for r in ast.walk(fn))
            def mentions(t2):
                for x in ast.walk(t2):
                    if is_self_attr(x, fld):
                        return True
                    if isinstance(x, ast.Call) and isinstance(x.func, ast.Name) and x.func.id in ("getattr", "hasattr") and len(x.args) >= 2 \
                            and isinstance(x.args[1], ast.Constant) and x.args[1].value == fld:
                        return True
                return False
            tested = any(mentions(i.test) for i in ast.walk(fn) if isinstance(i, (ast.If, ast.IfExp)))
            if not (returns_it and tested):
                continue
            # the value must be computed from other state of self (otherwise it is plain state, not a cache)
            vreads = set()
            for x in ast.walk(a.value):
                if isinstance(x, ast.Attribute) and is_self_attr(x) and x.attr != fld:
                    if x.attr in cf.methods:
                        k, f = cf.methods[x.attr]
                        vreads |= cf.reads(f, k)
                    else:
                        vreads.add(_mangle(cls.name, x.attr))
            if not vreads and any(isinstance(x, ast.Name) for x in ast.walk(a.value)):
                # the stored value is a local: it was computed in this method from whatever the method reads
                vreads = set(cf.reads(fn, cls))
            vreads.discard(_mangle(cls.name, fld))
            if not vreads:
                continue
            out.append(Cache(cls, fn, "memo", name, _mangle(cls.name, fld), vreads))
            break
    return out


def _resets(fn: ast.FunctionDef, cache: Cache, cf: ClassFacts, depth=0) -> bool:
    """The method drops the cached value on every normal path (directly or through a self-call / re-invoked __init__)."""
    g = cfgmod.build(fn)
    reset_nodes = set()
    for n in ast.walk(fn):
        hit = False
        if isinstance(n, ast.Assign):
            for t in n.targets:
                if is_self_attr(t) and _mangle(cache.cls.name, t.attr) == cache.field and not isinstance(t, ast.Subscript):
                    v = n.value
                    if (isinstance(v, ast.Constant) and not v.value) or (isinstance(v, (ast.Dict, ast.List, ast.Set)) and not getattr(v, "keys", getattr(v, "elts", []))) \
                            or (isinstance(v, ast.Call) and call_name(v) in ("dict", "defaultdict", "list", "set") and not v.args):
                        hit = True
        if isinstance(n, ast.Delete):
            for t in n.targets:
                if is_self_attr(t) and t.attr in (cache.field, cache.name):
                    hit = True
        if isinstance(n, ast.Call) and isinstance(n.func, ast.Attribute):
            if n.func.attr == "clear" and is_self_attr(n.func.value) and _mangle(cache.cls.name, n.func.value.attr) == cache.field:
                hit = True
            if n.func.attr == "pop" and "__dict__" in norm(n.func.value) and n.args and isinstance(n.args[0], ast.Constant) and n.args[0].value in (cache.name, cache.field):
                hit = True
            if n.func.attr == "cache_clear":
                hit = True
            if n.func.attr == "__init__" and cache.kind == "memo":
                hit = True  # re-running the constructor re-initialises the memo field
            if is_self_attr(n.func) and n.func.attr in cf.methods and depth < 3:
                k, f = cf.methods[n.func.attr]
                if f is not fn and _resets(f, cache, cf, depth + 1):
                    hit = True
        if hit:
            try:
                reset_nodes.add(g.node_of(n).id)
            except Exception:
                pass
    return bool(reset_nodes) and not g.reachable_from_entry(g.ret, reset_nodes)


def incoherent(repo: Repo, class_names: List[str]):
    """-> [(cache, mutator class, mutator fn, fields)] for the named classes."""
    index = _class_index(repo)
    out = []
    facts = []
    for cn in class_names:
        if cn not in index:
            continue
        rel, cls = index[cn]
        cf = ClassFacts(cls, index)
        caches = find_caches(cf)
        facts.append((rel, cls, caches))
        for c in caches:
            family = cf.family + _subclasses(cls, index)
            for k in family:
                kf = ClassFacts(k, index)
                for mname, fn in methods(k).items():
                    if mname in ("__init__", "__new__") or fn is c.fn:
                        continue
                    if any(isinstance(d, ast.Name) and d.id in ("property", "staticmethod", "classmethod") or
                           (isinstance(d, ast.Name) and d.id in CACHE_DECORATORS) for d in fn.decorator_list):
                        continue
                    w = kf.writes(fn, k)
                    hit = sorted(w & c.deps)
                    if not hit:
                        continue
                    # a store to the memo field itself inside its own getter is not a mutation of the dependencies
                    if _resets(fn, c, kf):
                        continue
                    out.append((rel, c, k, fn, hit))
    return facts, out
