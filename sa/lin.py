"""Guard algebra: conditions -> boolean combinations of canonical linear atoms.

The repository wraps every time value in `EventTime`; `.to(unit)`, `.time`,
`EventTime(k, unit)`, `EventTime.zero()` do not change the denoted microsecond
quantity, so they are stripped before a comparison is normalised.  Two guards
are "the same" when their truth tables over the canonical atoms agree, so
`a > b + c`, `not a <= c + b` and `b + c < a` are one guard.
"""
from __future__ import annotations

import ast
import itertools
from fractions import Fraction
from typing import Dict, List, Optional, Tuple

from .core import dotted, norm

UNIT_FACTOR = {"US": 1, "MS": 1000, "S": 1000000}


class Lin:
    """sum(coef * term) + const, terms are opaque strings."""

    __slots__ = ("terms", "const")

    def __init__(self, terms: Optional[Dict[str, Fraction]] = None, const=0):
        self.terms: Dict[str, Fraction] = {k: Fraction(v) for k, v in (terms or {}).items() if v != 0}
        self.const = Fraction(const)

    def __add__(self, o: "Lin") -> "Lin":
        t = dict(self.terms)
        for k, v in o.terms.items():
            t[k] = t.get(k, 0) + v
        return Lin(t, self.const + o.const)

    def scale(self, k) -> "Lin":
        k = Fraction(k)
        return Lin({a: b * k for a, b in self.terms.items()}, self.const * k)

    def __neg__(self) -> "Lin":
        return self.scale(-1)

    def __sub__(self, o: "Lin") -> "Lin":
        return self + (-o)

    def is_const(self) -> bool:
        return not self.terms

    def key(self) -> Tuple:
        return (tuple(sorted(self.terms.items())), self.const)

    def __eq__(self, o) -> bool:
        return isinstance(o, Lin) and self.key() == o.key()

    def __hash__(self) -> int:
        return hash(self.key())

    def __repr__(self) -> str:
        parts = []
        for k, v in sorted(self.terms.items()):
            parts.append(f"{'+' if v >= 0 else '-'}{'' if abs(v) == 1 else abs(v)}{'*' if abs(v) != 1 else ''}{k}")
        if self.const or not parts:
            parts.append(f"{'+' if self.const >= 0 else '-'}{abs(self.const)}")
        return " ".join(parts).lstrip("+")


def _unit_of(node: ast.AST) -> Optional[str]:
    d = dotted(node)
    if d and d.split(".")[-1] in UNIT_FACTOR and "Unit" in d:
        return d.split(".")[-1]
    return None


def strip_time(node: ast.AST) -> ast.AST:
    """Remove value-preserving EventTime wrappers from the outside of an expression."""
    while True:
        if isinstance(node, ast.Attribute) and node.attr == "time":
            node = node.value
            continue
        if (
            isinstance(node, ast.Call)
            and isinstance(node.func, ast.Attribute)
            and node.func.attr == "to"
            and len(node.args) + len(node.keywords) == 1
        ):
            node = node.func.value
            continue
        return node


def lin_of(node: ast.AST, env: Optional[Dict[str, "Lin"]] = None, strip: bool = True) -> Lin:
    """Linear form of an arithmetic expression (opaque sub-expressions become terms).

    `strip=False` keeps `.time` / `.to()` / `EventTime(...)` opaque: needed when analysing
    EventTime itself, where `.time` is the raw unit-dependent field."""
    if strip:
        node = strip_time(node)
    env = env or {}
    if isinstance(node, ast.Constant) and isinstance(node.value, (int, float)) and not isinstance(node.value, bool):
        return Lin(const=Fraction(node.value).limit_denominator(10**9))
    if isinstance(node, ast.Name) and node.id in env:
        return env[node.id]
    if isinstance(node, ast.UnaryOp) and isinstance(node.op, ast.USub):
        return -lin_of(node.operand, env, strip)
    if isinstance(node, ast.UnaryOp) and isinstance(node.op, ast.UAdd):
        return lin_of(node.operand, env, strip)
    if isinstance(node, ast.BinOp):
        if isinstance(node.op, ast.Add):
            return lin_of(node.left, env, strip) + lin_of(node.right, env, strip)
        if isinstance(node.op, ast.Sub):
            return lin_of(node.left, env, strip) - lin_of(node.right, env, strip)
        if isinstance(node.op, ast.Mult):
            l, r = lin_of(node.left, env, strip), lin_of(node.right, env, strip)
            if l.is_const():
                return r.scale(l.const)
            if r.is_const():
                return l.scale(r.const)
    if isinstance(node, ast.Call) and strip:
        d = dotted(node.func)
        if d in ("EventTime.zero",):
            return Lin(const=0)
        if d in ("EventTime.invalid",):
            return Lin(const=-1)
        if d == "EventTime" and (len(node.args) + len(node.keywords)) == 2:
            t = None
            u = None
            if len(node.args) >= 1:
                t = node.args[0]
            if len(node.args) >= 2:
                u = node.args[1]
            for kw in node.keywords:
                if kw.arg == "time":
                    t = kw.value
                if kw.arg == "unit":
                    u = kw.value
            unit = _unit_of(u) if u is not None else None
            if t is not None and unit is not None:
                return lin_of(t, env).scale(UNIT_FACTOR[unit])
    return Lin({norm(node): 1})


# ---------------------------------------------------------------------------
# Boolean formulas over canonical atoms
# ---------------------------------------------------------------------------
# Formula := ('atom', key, positive) | ('and', [F]) | ('or', [F]) | ('const', bool)

def _canon_le(l: Lin, integer: bool) -> Tuple[Tuple, bool]:
    """Canonical key and polarity for the atom `l <= 0`."""
    if l.is_const():
        return (("const",), l.const <= 0)
    first = sorted(l.terms.items())[0][1]
    if first > 0:
        return (("le", l.key()), True)
    # l <= 0  <=>  not (-l < 0)  <=> (integer) not (-l + 1 <= 0)
    if integer:
        m = (-l) + Lin(const=1)
        return (("le", m.key()), False)
    return (("lt", (-l).key()), False)


def _canon_lt(l: Lin, integer: bool) -> Tuple[Tuple, bool]:
    if l.is_const():
        return (("const",), l.const < 0)
    if integer:
        return _canon_le(l + Lin(const=1), integer)
    first = sorted(l.terms.items())[0][1]
    if first > 0:
        return (("lt", l.key()), True)
    return (("le", (-l).key()), False)


def _canon_eq(l: Lin) -> Tuple[Tuple, bool]:
    if l.is_const():
        return (("const",), l.const == 0)
    first = sorted(l.terms.items())[0][1]
    if first < 0:
        l = -l
    return (("eq", l.key()), True)


def _atom(key, pos):
    if key == ("const",):
        return ("const", bool(pos))
    return ("atom", key, bool(pos))


def f_not(f):
    if f[0] == "const":
        return ("const", not f[1])
    if f[0] == "atom":
        return ("atom", f[1], not f[2])
    if f[0] == "and":
        return ("or", [f_not(x) for x in f[1]])
    if f[0] == "or":
        return ("and", [f_not(x) for x in f[1]])
    raise ValueError(f)


def formula(node: ast.AST, integer: bool = True, env: Optional[Dict[str, Lin]] = None,
            benv: Optional[Dict[str, tuple]] = None, strip: bool = True):
    """Boolean formula of a condition. `benv` maps local names to formulas (flags)."""
    benv = benv or {}
    if isinstance(node, ast.BoolOp):
        parts = [formula(v, integer, env, benv, strip) for v in node.values]
        return ("and" if isinstance(node.op, ast.And) else "or", parts)
    if isinstance(node, ast.UnaryOp) and isinstance(node.op, ast.Not):
        return f_not(formula(node.operand, integer, env, benv, strip))
    if isinstance(node, ast.Constant) and isinstance(node.value, bool):
        return ("const", node.value)
    if isinstance(node, ast.Name) and node.id in benv:
        return benv[node.id]
    if isinstance(node, ast.Compare):
        parts = []
        left = node.left
        for op, right in zip(node.ops, node.comparators):
            parts.append(_cmp(left, op, right, integer, env, strip))
            left = right
        return parts[0] if len(parts) == 1 else ("and", parts)
    # opaque boolean atom
    return ("atom", ("bool", norm(node)), True)


def _cmp(left, op, right, integer, env, strip=True):
    if isinstance(op, (ast.Lt, ast.LtE, ast.Gt, ast.GtE, ast.Eq, ast.NotEq)):
        a, b = lin_of(left, env, strip), lin_of(right, env, strip)
        if isinstance(op, ast.Lt):
            return _atom(*_canon_lt(a - b, integer))
        if isinstance(op, ast.LtE):
            return _atom(*_canon_le(a - b, integer))
        if isinstance(op, ast.Gt):
            return _atom(*_canon_lt(b - a, integer))
        if isinstance(op, ast.GtE):
            return _atom(*_canon_le(b - a, integer))
        if isinstance(op, ast.Eq):
            return _atom(*_canon_eq(a - b))
        k, p = _canon_eq(a - b)
        return _atom(k, not p)
    st = strip_time if strip else (lambda x: x)
    text = f"{norm(st(left))} {type(op).__name__} {norm(st(right))}"
    if isinstance(op, (ast.NotIn, ast.IsNot)):
        pos_name = "In" if isinstance(op, ast.NotIn) else "Is"
        text = f"{norm(st(left))} {pos_name} {norm(st(right))}"
        return ("atom", ("bool", text), False)
    return ("atom", ("bool", text), True)


def atoms(f) -> List[Tuple]:
    out: List[Tuple] = []

    def rec(x):
        if x[0] == "atom":
            if x[1] not in out:
                out.append(x[1])
        elif x[0] in ("and", "or"):
            for y in x[1]:
                rec(y)

    rec(f)
    return out


def evaluate(f, assignment: Dict[Tuple, bool]) -> bool:
    if f[0] == "const":
        return f[1]
    if f[0] == "atom":
        v = assignment[f[1]]
        return v if f[2] else not v
    if f[0] == "and":
        return all(evaluate(x, assignment) for x in f[1])
    if f[0] == "or":
        return any(evaluate(x, assignment) for x in f[1])
    raise ValueError(f)


def _consistent(keys: List[Tuple], assignment: Dict[Tuple, bool]) -> bool:
    """Reject assignments that contradict arithmetic between atoms over the same
    linear part: `x + c1 <= 0` implies `x + c2 <= 0` for c2 <= c1, and eq vs le."""
    les = []
    for k in keys:
        if k[0] == "le":
            terms, const = k[1]
            les.append((terms, const, assignment[k]))
    for (t1, c1, v1) in les:
        for (t2, c2, v2) in les:
            if t1 == t2 and c1 > c2 and v1 and not v2:
                # x + c1 <= 0 true but x + c2 <= 0 (weaker, c2 < c1) false
                return False
    for k in keys:
        if k[0] == "eq" and assignment[k]:
            terms, const = k[1]
            for (t2, c2, v2) in les:
                if t2 == terms:
                    # x + const == 0  =>  x + c2 <= 0  iff c2 - const <= 0
                    if (c2 - const <= 0) != v2:
                        return False
    # integer tightness: x + c <= 0 and not (x + c + 1 <= 0)  <=>  x + c == 0
    for k in keys:
        if k[0] == "eq":
            terms, const = k[1]
            l0 = [v for (t, c, v) in les if t == terms and c == const]
            l1 = [v for (t, c, v) in les if t == terms and c == const + 1]
            if l0 and l1:
                if assignment[k] != (l0[0] and not l1[0]):
                    return False
    return True


def _tables(fs, max_atoms=14):
    keys: List[Tuple] = []
    for f in fs:
        for k in atoms(f):
            if k not in keys:
                keys.append(k)
    if len(keys) > max_atoms:
        raise ValueError("too many atoms")
    for bits in itertools.product([False, True], repeat=len(keys)):
        a = dict(zip(keys, bits))
        if _consistent(keys, a):
            yield a


def equivalent(f, g) -> bool:
    return all(evaluate(f, a) == evaluate(g, a) for a in _tables([f, g]))


def entails(f, g) -> bool:
    """f => g under every consistent assignment of the atoms."""
    return all((not evaluate(f, a)) or evaluate(g, a) for a in _tables([f, g]))


def satisfiable(f) -> bool:
    return any(evaluate(f, a) for a in _tables([f]))


def show(f) -> str:
    if f[0] == "const":
        return str(f[1])
    if f[0] == "atom":
        k = f[1]
        if k[0] == "bool":
            s = k[1]
        else:
            terms, const = k[1]
            s = f"{Lin(dict(terms), const)!r} {'<=' if k[0]=='le' else '<' if k[0]=='lt' else '=='} 0"
        return s if f[2] else f"not({s})"
    return "(" + (" and " if f[0] == "and" else " or ").join(show(x) for x in f[1]) + ")"
