"""Program index for the static checks: parses /repo's working tree on every run.

Nothing here imports or executes repository code; everything is `ast` over the
source text found on disk at the time of the call.
"""
from __future__ import annotations

import ast
import hashlib
import os
from typing import Dict, Iterable, Iterator, List, Optional, Tuple


class AnalysisError(Exception):
    """The analysis cannot decide (an anchor vanished, an idiom is not recognised).

    The driver turns this into `ANALYSIS-ERROR` / exit 2: never a silent pass and
    never a violation.
    """


# Directories that are parsed but are not "the program" for who-may-call rules.
NON_PROGRAM_PREFIXES = ("tests/", "scripts/", "rpc/", "schedulers/tetrisched/")
NON_PROGRAM_FILES = ("analyze.py", "setup.py")
# Needs the compiled tetrisched_py module: cannot be confirmed against running code.
UNCONFIRMABLE_FILES = (
    "schedulers/tetrisched_scheduler.py",
    "schedulers/graphene_scheduler.py",
)


def repo_root() -> str:
    return os.environ.get("VERIF_REPO", "/repo")


class Module:
    def __init__(self, rel: str, path: str, source: str, tree: ast.Module):
        self.rel = rel
        self.path = path
        self.source = source
        self.tree = tree
        self.lines = source.splitlines()
        for parent in ast.walk(tree):
            for child in ast.iter_child_nodes(parent):
                child._parent = parent  # type: ignore[attr-defined]
        tree._parent = None  # type: ignore[attr-defined]
        for node in ast.walk(tree):
            node._module = self  # type: ignore[attr-defined]

    # -- lookup ---------------------------------------------------------
    def classes(self) -> Iterator[ast.ClassDef]:
        for node in ast.walk(self.tree):
            if isinstance(node, ast.ClassDef):
                yield node

    def cls(self, name: str) -> ast.ClassDef:
        for c in self.classes():
            if c.name == name:
                return c
        raise AnalysisError(f"class {name} not found in {self.rel}")

    def func(self, name: str) -> ast.FunctionDef:
        for node in self.tree.body:
            if isinstance(node, (ast.FunctionDef, ast.AsyncFunctionDef)) and node.name == name:
                return node
        raise AnalysisError(f"function {name} not found in {self.rel}")


def methods(cls: ast.ClassDef) -> Dict[str, ast.FunctionDef]:
    out: Dict[str, ast.FunctionDef] = {}
    for node in cls.body:
        if isinstance(node, (ast.FunctionDef, ast.AsyncFunctionDef)):
            # property setters etc. would overwrite; keep the first getter.
            out.setdefault(node.name, node)
    return out


def method(cls: ast.ClassDef, name: str) -> ast.FunctionDef:
    m = methods(cls).get(name)
    if m is None:
        raise AnalysisError(
            f"method {cls.name}.{name} not found in {getattr(cls, '_module').rel}"
        )
    return m


def has_method(cls: ast.ClassDef, name: str) -> bool:
    return name in methods(cls)


def mangle(cls_name: str, attr: str) -> str:
    """Python's private-name mangling, so `self.__x` inside class C is C.__x."""
    if attr.startswith("__") and not attr.endswith("__"):
        return f"_{cls_name.lstrip('_')}{attr}"
    return attr


_PARSE_CACHE: Dict[Tuple[str, int, int], "Module"] = {}


def _alpha_normalise(tree: ast.AST, rel: str, src: Optional[str] = None) -> None:
    """Undo consistent renames of local variables (sa/alpha.py); VERIF_NO_ALPHA=1 switches it off."""
    if os.environ.get("VERIF_NO_ALPHA") == "1":
        return
    from . import alpha
    try:
        alpha.normalise(tree, rel, src)
    except Exception:  # normalisation is an aid, never a reason to fail
        pass


class Repo:
    def __init__(self, root: Optional[str] = None, overrides: Optional[Dict[str, str]] = None):
        """`overrides` (rel path -> source text) replaces files in memory: used by the
        self-validation to analyse a variant of the tree without touching /repo."""
        self.root = root or repo_root()
        self.modules: Dict[str, Module] = {}
        self.parse_failures: List[Tuple[str, str]] = []
        overrides = overrides or {}
        for rel in sorted(set(self._py_files()) | set(overrides)):
            path = os.path.join(self.root, rel)
            try:
                if rel in overrides:
                    src = overrides[rel]
                    tree = ast.parse(src, filename=rel)
                    _alpha_normalise(tree, rel, src)
                    self.modules[rel] = Module(rel, path, src, tree)
                else:
                    # unchanged files are parsed once per process (variants of the tree differ in one or two files);
                    # the parsed modules are never mutated by the rules
                    st = os.stat(path)
                    key = (path, st.st_mtime_ns, st.st_size)
                    cached = _PARSE_CACHE.get(key)
                    if cached is None:
                        with open(path, "r", encoding="utf-8") as fh:
                            src = fh.read()
                        tree = ast.parse(src, filename=rel)
                        _alpha_normalise(tree, rel, src)
                        cached = Module(rel, path, src, tree)
                        _PARSE_CACHE[key] = cached
                    self.modules[rel] = cached
            except (OSError, SyntaxError, UnicodeDecodeError) as exc:
                self.parse_failures.append((rel, repr(exc)))
                continue

    def _py_files(self) -> Iterable[str]:
        skip_dirs = {".git", "__pycache__", "erdos_sim.egg-info", "build", "extern", ".pytest_cache"}
        for dirpath, dirnames, filenames in os.walk(self.root):
            dirnames[:] = [d for d in dirnames if d not in skip_dirs]
            for fn in filenames:
                if fn.endswith(".py"):
                    yield os.path.relpath(os.path.join(dirpath, fn), self.root)

    def calls_named(self, name: str, program_only: bool = True) -> List[ast.Call]:
        """All call expressions whose callee's last component is `name`."""
        idx = getattr(self, "_call_index", None)
        if idx is None:
            idx = {}
            for m in self.modules.values():
                for n in ast.walk(m.tree):
                    if isinstance(n, ast.Call):
                        nm = call_name(n)
                        if nm:
                            idx.setdefault(nm, []).append(n)
            self._call_index = idx
        out = idx.get(name, [])
        if program_only:
            out = [c for c in out if not (c._module.rel.startswith(NON_PROGRAM_PREFIXES) or c._module.rel in NON_PROGRAM_FILES)]
        return out

    def mod(self, rel: str) -> Module:
        m = self.modules.get(rel)
        if m is None:
            for bad, why in self.parse_failures:
                if bad == rel:
                    raise AnalysisError(f"{rel} does not parse: {why}")
            raise AnalysisError(f"module {rel} not found under {self.root}")
        return m

    def program_modules(self) -> List[Module]:
        out = []
        for rel, m in self.modules.items():
            if rel.startswith(NON_PROGRAM_PREFIXES) or rel in NON_PROGRAM_FILES:
                continue
            out.append(m)
        return out

    def digest(self, rels: Iterable[str]) -> str:
        h = hashlib.sha256()
        for rel in sorted(rels):
            m = self.modules.get(rel)
            h.update(rel.encode())
            h.update(b"\0")
            h.update(m.source.encode() if m else b"<missing>")
        return h.hexdigest()[:16]


# ---------------------------------------------------------------------------
# Small AST helpers used by every rule.
# ---------------------------------------------------------------------------

def src(node: Optional[ast.AST]) -> str:
    if node is None:
        return "<none>"
    try:
        return ast.unparse(node)
    except Exception:  # pragma: no cover
        return ast.dump(node)


def norm(node: ast.AST) -> str:
    """Whitespace-insensitive text of a node: used for construct keys."""
    return " ".join(src(node).split())


def loc(node: ast.AST) -> str:
    m = getattr(node, "_module", None)
    rel = m.rel if m else "?"
    return f"{rel}:{getattr(node, 'lineno', 0)}"


def parent(node: ast.AST) -> Optional[ast.AST]:
    return getattr(node, "_parent", None)


def enclosing(node: ast.AST, kinds) -> Optional[ast.AST]:
    p = parent(node)
    while p is not None and not isinstance(p, kinds):
        p = parent(p)
    return p


def enclosing_function(node: ast.AST) -> Optional[ast.FunctionDef]:
    return enclosing(node, (ast.FunctionDef, ast.AsyncFunctionDef))  # type: ignore[return-value]


def enclosing_class(node: ast.AST) -> Optional[ast.ClassDef]:
    return enclosing(node, ast.ClassDef)  # type: ignore[return-value]


def qualname(node: ast.AST) -> str:
    parts: List[str] = []
    n: Optional[ast.AST] = node
    while n is not None:
        if isinstance(n, (ast.FunctionDef, ast.AsyncFunctionDef, ast.ClassDef)):
            parts.append(n.name)
        n = parent(n)
    m = getattr(node, "_module", None)
    return (m.rel if m else "?") + "::" + ".".join(reversed(parts))


def attr_chain(node: ast.AST) -> Optional[List[str]]:
    """`a.b.c` -> ['a','b','c']; None when the base is not a plain name."""
    parts: List[str] = []
    while isinstance(node, ast.Attribute):
        parts.append(node.attr)
        node = node.value
    if isinstance(node, ast.Name):
        parts.append(node.id)
        return list(reversed(parts))
    return None


def dotted(node: ast.AST) -> Optional[str]:
    c = attr_chain(node)
    return ".".join(c) if c else None


def call_name(call: ast.Call) -> Optional[str]:
    """Last component of the callee: `a.b.f(x)` -> 'f', `f(x)` -> 'f'."""
    f = call.func
    if isinstance(f, ast.Attribute):
        return f.attr
    if isinstance(f, ast.Name):
        return f.id
    return None


def calls_in(node: ast.AST, name: Optional[str] = None) -> List[ast.Call]:
    out = []
    for n in ast.walk(node):
        if isinstance(n, ast.Call) and (name is None or call_name(n) == name):
            out.append(n)
    return out


class Iteration:
    """The innermost `for` statement or comprehension clause around a node: what is iterated, the loop variable, the construct."""

    def __init__(self, iter_: ast.AST, target: ast.AST, node: ast.AST):
        self.iter, self.target, self.node = iter_, target, node


def iteration_around(node: ast.AST) -> Optional[Iteration]:
    p = parent(node)
    child = node
    while p is not None and not isinstance(p, (ast.FunctionDef, ast.AsyncFunctionDef, ast.Lambda)):
        if isinstance(p, ast.For) and any(child is x for x in p.body):
            return Iteration(p.iter, p.target, p)
        if isinstance(p, (ast.ListComp, ast.SetComp, ast.GeneratorExp, ast.DictComp)) and not any(child is g for g in p.generators):
            g = p.generators[-1]
            return Iteration(g.iter, g.target, p)
        child, p = p, parent(p)
    return None


def resolve_local(fn: ast.AST, expr: ast.AST, depth: int = 3) -> ast.AST:
    """`expr` with the locals of `fn` that have exactly one plain binding `v = E` replaced by E (a private copy; for reading only)."""
    stores: Dict[str, List[ast.AST]] = {}
    for n in ast.walk(fn):
        if isinstance(n, ast.Name) and isinstance(n.ctx, (ast.Store, ast.Del)):
            stores.setdefault(n.id, []).append(n)
    defs: Dict[str, ast.AST] = {}
    if isinstance(fn, (ast.FunctionDef, ast.AsyncFunctionDef)):
        for a in fn.args.posonlyargs + fn.args.args + fn.args.kwonlyargs + [x for x in (fn.args.vararg, fn.args.kwarg) if x is not None]:
            stores.setdefault(a.arg, []).append(a)  # a parameter is a binding too
    for a in ast.walk(fn):
        if isinstance(a, ast.Assign) and len(a.targets) == 1 and isinstance(a.targets[0], ast.Name) and len(stores.get(a.targets[0].id, [])) == 1:
            defs[a.targets[0].id] = a.value
        elif isinstance(a, ast.AnnAssign) and a.value is not None and isinstance(a.target, ast.Name) and len(stores.get(a.target.id, [])) == 1:
            defs[a.target.id] = a.value

    class _S(ast.NodeTransformer):
        def visit_Name(self, node):
            if isinstance(node.ctx, ast.Load) and node.id in defs:
                return ast.parse(ast.unparse(defs[node.id]), mode="eval").body
            return node
    out = ast.parse(ast.unparse(expr), mode="eval").body
    for _ in range(depth):
        before = ast.unparse(out)
        out = ast.fix_missing_locations(_S().visit(out))
        if ast.unparse(out) == before:
            break
    return out


def closure_functions(fn: ast.AST, depth: int = 3) -> List[ast.AST]:
    """`fn` and the methods of its class it reaches through `self.h(...)` calls (at most `depth` levels): the unit a rule inspects
    when a search or an update may have been moved into a private helper."""
    cls = enclosing_class(fn)
    own = methods(cls) if cls is not None else {}
    out = [fn]
    frontier = [(fn, 0)]
    while frontier:
        f, d = frontier.pop()
        if d >= depth:
            continue
        for c in calls_in(f):
            if isinstance(c.func, ast.Attribute) and is_self_attr(c.func) and c.func.attr in own and own[c.func.attr] not in out:
                out.append(own[c.func.attr])
                frontier.append((own[c.func.attr], d + 1))
    return out


def reaching_calls(fn: ast.AST, name: str, depth: int = 3) -> List[ast.Call]:
    """Calls in `fn` that are calls of `name`, or calls of a method of the same class (`self.h(...)`) whose body reaches a call
    of `name` through at most `depth` such helpers: a search or an update moved into a private helper is still found at the site
    that triggers it."""
    cls = enclosing_class(fn)
    own = methods(cls) if cls is not None else {}

    def reaches(f: ast.AST, d: int, seen) -> bool:
        if f in seen or d < 0:
            return False
        seen.add(f)
        for c in calls_in(f):
            if call_name(c) == name:
                return True
            if isinstance(c.func, ast.Attribute) and is_self_attr(c.func) and c.func.attr in own and reaches(own[c.func.attr], d - 1, seen):
                return True
        return False
    out = []
    for c in calls_in(fn):
        if call_name(c) == name:
            out.append(c)
        elif isinstance(c.func, ast.Attribute) and is_self_attr(c.func) and c.func.attr in own and own[c.func.attr] is not fn \
                and reaches(own[c.func.attr], depth - 1, set()):
            out.append(c)
    return out


def walk_no_nested_defs(node: ast.AST) -> Iterator[ast.AST]:
    """ast.walk that does not descend into nested function/class/lambda bodies."""
    stack = [node]
    first = True
    while stack:
        n = stack.pop()
        if not first and isinstance(n, (ast.FunctionDef, ast.AsyncFunctionDef, ast.ClassDef, ast.Lambda)):
            continue
        first = False
        yield n
        stack.extend(reversed(list(ast.iter_child_nodes(n))))


def is_self_attr(node: ast.AST, attr: Optional[str] = None, selfname: str = "self") -> bool:
    return (
        isinstance(node, ast.Attribute)
        and isinstance(node.value, ast.Name)
        and node.value.id == selfname
        and (attr is None or node.attr == attr)
    )


def stmt_of(node: ast.AST) -> ast.stmt:
    n: Optional[ast.AST] = node
    while n is not None and not isinstance(n, ast.stmt):
        n = parent(n)
    if n is None:
        raise AnalysisError(f"no enclosing statement for {src(node)}")
    return n  # type: ignore[return-value]


def kwarg(call: ast.Call, name: str, pos: Optional[int] = None) -> Optional[ast.AST]:
    for kw in call.keywords:
        if kw.arg == name:
            return kw.value
    if pos is not None and pos < len(call.args):
        a = call.args[pos]
        if not isinstance(a, ast.Starred):
            return a
    return None


def const_value(node: ast.AST):
    if isinstance(node, ast.Constant):
        return node.value
    if isinstance(node, ast.UnaryOp) and isinstance(node.op, ast.USub) and isinstance(node.operand, ast.Constant):
        return -node.operand.value
    return None
