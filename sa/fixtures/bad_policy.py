"""Positive fixture for C10.R1 (never imported, never part of /repo): a policy that mutates the live cluster and tasks.
The effect analysis must flag every marked line on every run; otherwise it went blind."""
from copy import copy

from schedulers import BaseScheduler
from workload import Placement, Placements


class BadPolicy(BaseScheduler):
    def schedule(self, sim_time, workload, worker_pools):
        tasks = workload.get_schedulable_tasks(time=sim_time, worker_pools=worker_pools)
        scratch = copy(worker_pools)
        placements = []
        for task in tasks:
            for worker_pool in worker_pools.worker_pools:  # LIVE iteration
                for strategy in task.available_execution_strategies:
                    if worker_pool.can_accomodate_strategy(strategy):
                        worker_pool.place_task(task, execution_strategy=strategy)  # FLAG: live cluster mutated
                        task.schedule(sim_time, None)  # FLAG: task state changed
                        task._deadline = sim_time  # FLAG: attribute store on a task
                        placements.append(Placement.create_task_placement(task=task))
            self._helper(worker_pools, task)
            for pool in scratch.worker_pools:
                pool.place_task(task)  # fine: scratch copy
        return Placements(runtime=sim_time, true_runtime=sim_time, placements=placements)

    def _helper(self, pools, task):
        for pool in pools.worker_pools:
            pool.remove_task(None, task)  # FLAG: live cluster mutated through a helper argument
