"""C02 — Tasks start only after release and after all predecessors finish."""
from __future__ import annotations

import ast
from collections import deque
from typing import Dict, List, Optional, Set, Tuple

from .. import cfg as cfgmod
from .. import lin
from ..anchors import SIM, TASKS, WORKLOAD, Sim, event_constructions
from ..core import (
    AnalysisError,
    call_name,
    calls_in,
    dotted,
    enclosing_class,
    enclosing_function,
    is_self_attr,
    loc,
    method,
    methods,
    norm,
    parent,
    qualname,
    src,
)
from ..report import Context
from . import c06

EXPLANATION = (
    "Static who-may-call / dominance / origin analysis of the start path: Task.start is called only from the "
    "TASK_PLACEMENT handler and Task.resume only from the TASK_MIGRATION handler; in the placement handler the "
    "not-ready branch leaves the function, so place_task/start are dominated by readiness; is_ready_to_run is "
    "(all parents complete | any parent if terminal) AND state in {SCHEDULED, PREEMPTED}; every TASK_RELEASE event "
    "is built from get_releasable_tasks / notify_task_completion / notify_task_graph_completion, and children are "
    "released on completion only under `terminal or all parents complete`; Task.start asserts start >= release "
    "before the state write and the SCHEDULER_FINISHED handler rejects placements in the past before creating the "
    "placement event; on the extracted typestate relation a started task cannot start again without preempt and "
    "finish leads only to absorbing states. NOT decided: timing along whole runs; that the join of a conditional is "
    "neither starved nor run twice end-to-end."
)
ASSUMPTIONS = [
    "receivers named *task* are Tasks; `.start(`/`.resume(` on other receivers are listed as unresolved",
    "the typestate relation is the one extracted for C06 (same assumptions)",
]


def r1_who_may_start(ctx: Context) -> None:
    ctx.rule("C02.R1", "Task.start is called only from the TASK_PLACEMENT handler, Task.resume only from TASK_MIGRATION")
    sim = Sim(ctx.repo)
    for name, et in (("start", "TASK_PLACEMENT"), ("resume", "TASK_MIGRATION")):
        h = sim.handler(et)
        sites = [c for c in ctx.repo.calls_named(name) if isinstance(c.func, ast.Attribute)]
        n_task = 0
        for c in sites:
            recv = norm(c.func.value)
            if recv.startswith("super("):
                continue
            if "task" not in recv.lower():
                ctx.note(f"unresolved receiver for .{name}(): {loc(c)} `{recv}`")
                continue
            n_task += 1
            ctx.check(enclosing_function(c) is h, "C02.R1", f"{qualname(c)}|`{norm(c)[:50]}`", loc(c),
                      f"in the {et} handler", f"`{norm(c)[:60]}` {name}s a task outside the {et} handler, bypassing the readiness and capacity checks")
        ctx.floor("C02.R1", f"task.{name}() call sites", n_task, 1)


def _ready_tests(g: cfgmod.CFG):
    out = []
    for t in g.nodes:
        if t.kind == "test" and "is_ready_to_run(" in src(t.ast):
            f = lin.formula(t.ast)
            atoms = [a for a in lin.atoms(f) if "is_ready_to_run" in str(a)]
            if len(atoms) == 1:
                ready = ("atom", atoms[0], True)
                if lin.entails(f, lin.f_not(ready)) and lin.entails(lin.f_not(ready), f):
                    out.append((t, "F"))  # test is `not ready`: continue on F
                elif lin.entails(f, ready) and lin.entails(ready, f):
                    out.append((t, "T"))
    return out


def r2_readiness_dominates(ctx: Context) -> None:
    ctx.rule("C02.R2", "in the placement handler place_task and start are dominated by the ready outcome of "
                       "task.is_ready_to_run(task_graph); the not-ready branch leaves the function")
    sim = Sim(ctx.repo)
    h = sim.handler("TASK_PLACEMENT")
    ctx.analysed_function(qualname(h))
    g = cfgmod.build(h)
    rts = _ready_tests(g)
    starts = [c for c in calls_in(h, "start") if "task" in norm(c.func.value)]
    places = [c for c in calls_in(h, "place_task")]
    ctx.floor("C02.R2", "start/place_task in the placement handler", len(starts) + len(places), 2)
    if not rts:
        ctx.violation("C02.R2", f"{qualname(h)}|readiness test", loc(h), "the placement handler no longer tests task.is_ready_to_run()")
        return
    for c in starts + places:
        ok = any(g.edge_dominates(t, pol, g.node_of(c)) for t, pol in rts)
        ctx.check(ok, "C02.R2", f"{qualname(h)}|`{norm(c)[:40]}` only when ready", loc(c), "dominated by the ready branch",
                  f"`{norm(c)[:60]}` is reachable for a task whose predecessors have not finished")
    # the readiness test concerns the event's task and its own graph
    t0 = rts[0][0]
    call = [c for c in ast.walk(t0.ast) if isinstance(c, ast.Call) and call_name(c) == "is_ready_to_run"][0]
    ok = norm(call.func.value) == norm(starts[0].func.value) if starts else False
    ctx.check(ok, "C02.R2", f"{qualname(h)}|readiness of the started task", loc(call), "same task",
              f"readiness is tested on `{norm(call.func.value)}` but `{norm(starts[0].func.value) if starts else '?'}` is started")
    ga = call.args[0] if call.args else None
    okg = False
    if isinstance(ga, ast.Name):
        for a in ast.walk(h):
            if isinstance(a, ast.Assign) and any(isinstance(t, ast.Name) and t.id == ga.id for t in a.targets) \
                    and isinstance(a.value, ast.Call) and call_name(a.value) == "get_task_graph" and a.value.args \
                    and norm(a.value.args[0]).endswith("task.task_graph"):
                okg = True
    ctx.check(okg, "C02.R2", f"{qualname(h)}|readiness against the task's own graph", loc(call), "graph = get_task_graph(task.task_graph)",
              "readiness is evaluated against a graph that is not looked up from the task's own graph name")


def _subst_locals(fn: ast.FunctionDef, e: ast.AST, depth=0) -> ast.AST:
    if isinstance(e, ast.Name) and depth < 4:
        defs = [n for n in ast.walk(fn) if isinstance(n, ast.Assign) and len(n.targets) == 1
                and isinstance(n.targets[0], ast.Name) and n.targets[0].id == e.id]
        if len(defs) == 1:
            return _subst_locals(fn, defs[0].value, depth + 1)
    return e


def _quantified_complete(fn, e: ast.AST, quant: str, parents_of: str, graph_recv: Optional[str] = None) -> bool:
    """`e` is quant([p.is_complete() for p in G.get_parents(X)]) (also generator / map forms)."""
    e = _subst_locals(fn, e)
    if not (isinstance(e, ast.Call) and call_name(e) == quant and len(e.args) == 1):
        return False
    a = _subst_locals(fn, e.args[0])
    it = None
    elt_ok = False
    if isinstance(a, (ast.ListComp, ast.GeneratorExp)) and len(a.generators) == 1 and not a.generators[0].ifs:
        it = a.generators[0].iter
        tv = a.generators[0].target
        elt_ok = isinstance(a.elt, ast.Call) and call_name(a.elt) == "is_complete" and isinstance(tv, ast.Name) \
            and norm(a.elt.func.value) == tv.id and not a.elt.args
    elif isinstance(a, ast.Call) and call_name(a) == "map" and len(a.args) == 2:
        it = a.args[1]
        f = a.args[0]
        elt_ok = isinstance(f, ast.Lambda) and isinstance(f.body, ast.Call) and call_name(f.body) == "is_complete" \
            and norm(f.body.func.value) == f.args.args[0].arg
    if it is None or not elt_ok:
        return False
    it = _subst_locals(fn, it)
    return isinstance(it, ast.Call) and call_name(it) == "get_parents" and len(it.args) == 1 and norm(it.args[0]) == parents_of


def _conjuncts(e: ast.AST) -> List[ast.AST]:
    if isinstance(e, ast.BoolOp) and isinstance(e.op, ast.And):
        return [c for v in e.values for c in _conjuncts(v)]
    return [e]


def _selection_as_loop(fn: ast.FunctionDef) -> ast.FunctionDef:
    """`return [t for t in ITER if A if B and C]` (also list(<generator>), also `xs = [...]` ... `return xs` with xs bound once)
    rewritten, on a private copy, as the loop `for t in ITER: if A: if B: if C: out.append(t)`; the tests are pure selections, so
    nesting the conjuncts keeps the meaning. The function is returned unchanged when it has another shape."""
    rets = [r for r in ast.walk(fn) if isinstance(r, ast.Return) and r.value is not None]
    if len(rets) != 1 or rets[0] not in fn.body:
        return fn

    def comp_of(v):
        if isinstance(v, ast.Call) and isinstance(v.func, ast.Name) and v.func.id == "list" and len(v.args) == 1 and isinstance(v.args[0], ast.GeneratorExp):
            v = v.args[0]
        if isinstance(v, (ast.ListComp, ast.GeneratorExp)) and len(v.generators) == 1 and isinstance(v.generators[0].target, ast.Name) \
                and isinstance(v.elt, ast.Name) and v.elt.id == v.generators[0].target.id:
            return v
        return None

    holder, out = rets[0], "__selected"
    v = comp_of(rets[0].value)
    if v is None and isinstance(rets[0].value, ast.Name):
        out = rets[0].value.id
        binds = [x for x in ast.walk(fn) if isinstance(x, ast.Name) and x.id == out and isinstance(x.ctx, (ast.Store, ast.Del))]
        asg = [st for st in fn.body if isinstance(st, ast.Assign) and len(st.targets) == 1 and isinstance(st.targets[0], ast.Name) and st.targets[0].id == out]
        if len(binds) == 1 and len(asg) == 1:
            v = comp_of(asg[0].value)
            holder = asg[0]
    if v is None:
        return fn
    g = v.generators[0]
    tests = [c for t in g.ifs for c in _conjuncts(t)]
    lines = ["def %s(%s):" % (fn.name, ast.unparse(fn.args))]
    for st in fn.body:
        if isinstance(st, ast.Expr) and isinstance(st.value, ast.Constant):
            continue
        if st is holder:
            ind = "        "
            lines += ["    %s = []" % out, "    for %s in %s:" % (g.target.id, ast.unparse(g.iter))]
            for t in tests:
                lines.append(ind + "if %s:" % ast.unparse(t))
                ind += "    "
            lines.append(ind + "%s.append(%s)" % (out, v.elt.id))
            if holder is rets[0]:
                lines.append("    return %s" % out)
        else:
            lines += ["    " + ln for ln in ast.unparse(st).splitlines()]
    new = ast.parse("\n".join(lines)).body[0]
    for par in ast.walk(new):
        for ch in ast.iter_child_nodes(par):
            ch._parent = par  # type: ignore[attr-defined]
    new._parent = getattr(fn, "_parent", None)  # type: ignore[attr-defined]
    for n in ast.walk(new):
        n._module = getattr(fn, "_module", None)  # type: ignore[attr-defined]
        if hasattr(n, "lineno"):
            n.lineno = fn.lineno
    return new


def r3_readiness_predicate(ctx: Context) -> None:
    ctx.rule("C02.R3", "is_ready_to_run = (any parent complete if terminal else all parents complete) and state in "
                       "{SCHEDULED, PREEMPTED}")
    mod = ctx.repo.mod(TASKS)
    task = mod.cls("Task")
    fn = method(task, "is_ready_to_run")
    ctx.analysed_function(f"{TASKS}::Task.is_ready_to_run")
    rets = [r for r in ast.walk(fn) if isinstance(r, ast.Return)]
    if len(rets) != 1 or not (isinstance(rets[0].value, ast.BoolOp) and isinstance(rets[0].value.op, ast.And)):
        raise AnalysisError("is_ready_to_run: expected a single `return A and B`")
    vals = rets[0].value.values
    state_parts = [v for v in vals if "state" in src(v)]
    parent_parts = [v for v in vals if v not in state_parts]
    interp, _cls, _w = c06.task_interp(ctx.repo)
    for s in interp.members:
        v = interp.ev(state_parts[0], {"_state": s, "_pre_scheduling_state": "VIRTUAL"}) if len(state_parts) == 1 else ("unknown",)
        want = s in ("SCHEDULED", "PREEMPTED")
        ctx.check(v == ("bool", want), "C02.R3", f"Task.is_ready_to_run|state {s}", loc(rets[0]), f"{want}",
                  f"the state conjunct evaluates to {v} for {s}: a {s} task would {'not ' if want else ''}be startable")
    ok = False
    if len(parent_parts) == 1:
        e = _subst_locals(fn, parent_parts[0])
        if isinstance(e, ast.IfExp) and norm(e.test) == "self.terminal":
            ok = _quantified_complete(fn, e.body, "any", "self") and _quantified_complete(fn, e.orelse, "all", "self")
        elif isinstance(e, ast.IfExp) and norm(e.test) == "not self.terminal":
            ok = _quantified_complete(fn, e.orelse, "any", "self") and _quantified_complete(fn, e.body, "all", "self")
    ctx.check(ok, "C02.R3", "Task.is_ready_to_run|parents complete (all, or any for a terminal join)", loc(rets[0]),
              "any(parents complete) if self.terminal else all(parents complete)",
              f"the parent conjunct is `{norm(_subst_locals(fn, parent_parts[0]))[:120] if parent_parts else '?'}`")
    # `terminal` comes from the job
    tp = methods(task).get("terminal")
    ok = tp is not None and any(isinstance(r, ast.Return) and norm(r.value) == "self._creating_job.terminal" for r in ast.walk(tp))
    ctx.check(ok, "C02.R3", "Task.terminal|job's terminal flag", loc(tp) if tp else loc(task), "accessor", "Task.terminal changed")


ALLOWED_RELEASE_SOURCES = {"get_releasable_tasks", "notify_task_completion", "notify_task_graph_completion"}


def _origin_of_loop_var(fn: ast.FunctionDef, name_node: ast.Name) -> Tuple[Set[str], List[str]]:
    """Which calls feed the list that `name_node` (a loop variable) iterates over."""
    # find the enclosing For whose target binds the name
    p = parent(name_node)
    loop = None
    while p is not None and p is not fn:
        if isinstance(p, ast.For):
            tnames = {n.id for n in ast.walk(p.target) if isinstance(n, ast.Name)}
            if name_node.id in tnames:
                loop = p
                break
        p = parent(p)
    if loop is None:
        return set(), [f"`{name_node.id}` is not a loop variable"]
    it = loop.iter
    while isinstance(it, ast.Call) and call_name(it) in ("enumerate", "sorted", "list", "reversed") and it.args:
        it = it.args[0]
    sources: Set[str] = set()
    problems: List[str] = []
    seen: Set[str] = set()

    def feed(e: ast.AST):
        if isinstance(e, ast.Call):
            cn = call_name(e)
            sources.add(cn or "?")
            return
        if isinstance(e, ast.Name):
            if e.id in seen:
                return
            seen.add(e.id)
            found = False
            for n in ast.walk(fn):
                if isinstance(n, ast.Assign):
                    for t in n.targets:
                        if isinstance(t, ast.Name) and t.id == e.id:
                            found = True
                            if isinstance(n.value, ast.List) and not n.value.elts:
                                continue
                            feed(n.value)
                        elif isinstance(t, ast.Tuple) and any(isinstance(x, ast.Name) and x.id == e.id for x in t.elts):
                            found = True
                            feed(n.value)
                elif isinstance(n, ast.Call) and isinstance(n.func, ast.Attribute) and n.func.attr in ("extend", "append") \
                        and isinstance(n.func.value, ast.Name) and n.func.value.id == e.id and n.args:
                    found = True
                    if n.func.attr == "append":
                        problems.append(f"`{norm(n)[:50]}` appends a single task")
                    feed(n.args[0])
            if not found:
                problems.append(f"`{e.id}` has no definition in {fn.name}")
            return
        problems.append(f"`{norm(e)[:50]}` not understood")

    feed(it)
    return sources, problems


def r4_release_discipline(ctx: Context) -> None:
    ctx.rule("C02.R4", "TASK_RELEASE events are built only from get_releasable_tasks / notify_task_completion / "
                       "notify_task_graph_completion; children are released only under `terminal or all parents complete`")
    sim = Sim(ctx.repo)
    evs = event_constructions(sim.cls, "TASK_RELEASE")
    # re-emission of an event with the same type (`event_type=event.event_type`) is handled in C05.R2
    ctx.floor("C02.R4", "TASK_RELEASE event constructions", len(evs), 3)
    for e in evs:
        fn = enclosing_function(e)
        tk = next((k.value for k in e.keywords if k.arg == "task"), None)
        key = f"{qualname(e)}|TASK_RELEASE(task={norm(tk) if tk is not None else '?'})"
        if not isinstance(tk, ast.Name):
            ctx.violation("C02.R4", key, loc(e), "TASK_RELEASE event for a task that is not drawn from a release list")
            continue
        sources, problems = _origin_of_loop_var(fn, tk)
        ok = bool(sources) and sources <= ALLOWED_RELEASE_SOURCES and not problems
        ctx.check(ok, "C02.R4", key, loc(e), f"fed by {sorted(sources)}",
                  f"the released task comes from {sorted(sources)} {problems}: only tasks whose parents completed may be released")
        ctx.sample({"TASK_RELEASE": loc(e), "sources": sorted(sources)})
    for m in ctx.repo.program_modules():
        if m.rel == SIM:
            continue
        for e in event_constructions(m.tree, "TASK_RELEASE"):
            ctx.violation("C02.R4", f"{qualname(e)}|TASK_RELEASE outside the simulator", loc(e), "TASK_RELEASE event built outside the simulator")
    # notify_task_completion, non-conditional branch
    tg = ctx.repo.mod(TASKS).cls("TaskGraph")
    fn = method(tg, "notify_task_completion")
    ctx.analysed_function(f"{TASKS}::TaskGraph.notify_task_completion")
    g = cfgmod.build(fn)
    rets = [r for r in ast.walk(fn) if isinstance(r, ast.Return) and isinstance(r.value, ast.Tuple)]
    rel_names = {norm(r.value.elts[0]) for r in rets if r.value.elts}
    if len(rel_names) != 1:
        raise AnalysisError("notify_task_completion: released list not identified")
    rel = rel_names.pop()
    apps = [c for c in calls_in(fn, "append") if norm(c.func.value) == rel]
    ctx.floor("C02.R4", "appends to the released list", len(apps), 2)
    cond_test = [t for t in g.nodes if t.kind == "test" and norm(t.ast) in ("task.conditional",)]
    n_plain = 0
    for a in apps:
        an = g.node_of(a)
        in_conditional = any(g.edge_dominates(t, "T", an) for t in cond_test)
        if in_conditional:
            continue  # C07.R1
        n_plain += 1
        child = norm(a.args[0])
        guards = [t for t in g.nodes if t.kind == "test" and g.edge_dominates(t, "T", an) and isinstance(t.ast, ast.BoolOp)
                  and isinstance(t.ast.op, ast.Or)]
        ok = False
        for t in guards:
            vals = t.ast.values
            term = [v for v in vals if norm(v) == f"{child}.terminal"]
            allp = [v for v in vals if _quantified_complete(fn, v, "all", child)]
            if len(vals) == 2 and len(term) == 1 and len(allp) == 1:
                ok = True
        ctx.check(ok, "C02.R4", f"TaskGraph.notify_task_completion|`{norm(a)}` guarded", loc(a),
                  f"{child}.terminal or all(parents of {child} complete)",
                  f"`{norm(a)}` releases a child without requiring all of its parents to be complete")
        # the child is a child of the completed task
        lp = parent(a)
        while lp is not None and not isinstance(lp, ast.For):
            lp = parent(lp)
        okc = lp is not None and norm(lp.iter) == "self.get_children(task)" and norm(lp.target) == child
        ctx.check(okc, "C02.R4", f"TaskGraph.notify_task_completion|`{child}` ranges over the children of the finished task", loc(a),
                  "for child in self.get_children(task)", "released tasks are not the children of the completed task")
    ctx.floor("C02.R4", "non-conditional release append", n_plain, 1)
    # incomplete task is refused
    tests = [t for t in g.nodes if t.kind == "test" and "is_complete()" in src(t.ast) and isinstance(parent(t.ast), ast.If)
             and any(isinstance(x, ast.Raise) for x in parent(t.ast).body)]
    ok = bool(tests) and all(g.edge_dominates(tests[0], "F", g.node_of(a)) for a in apps)
    ctx.check(ok, "C02.R4", "TaskGraph.notify_task_completion|refuses an incomplete task", loc(fn), "not task.is_complete() -> raise",
              "children can be released by notifying the completion of a task that is not complete")
    # get_releasable_tasks
    gr = _selection_as_loop(method(tg, "get_releasable_tasks"))
    ctx.analysed_function(f"{TASKS}::TaskGraph.get_releasable_tasks")
    g2 = cfgmod.build(gr)
    apps = [c for c in calls_in(gr, "append")]
    ctx.floor("C02.R4", "append in get_releasable_tasks", len(apps), 1)
    for a in apps:
        an = g2.node_of(a)
        who = norm(a.args[0])
        ok = any(t.kind == "test" and g2.edge_dominates(t, "T", an) and any(_quantified_complete(gr, cj, "all", who) for cj in _conjuncts(t.ast))
                 for t in g2.nodes)
        ctx.check(ok, "C02.R4", "TaskGraph.get_releasable_tasks|all parents complete", loc(a), "guarded by all(parents complete)",
                  "a task with unfinished parents is reported releasable")
        st = [t for t in g2.nodes if t.kind == "test" and "RELEASABLE_TASK_STATES" in src(t.ast)]
        ok2 = bool(st) and any(g2.edge_dominates(t, "F" if isinstance(t.ast, ast.Compare) and isinstance(t.ast.ops[0], ast.NotIn) else "T", an) for t in st)
        ctx.check(ok2, "C02.R4", "TaskGraph.get_releasable_tasks|only releasable states", loc(a), "state in RELEASABLE_TASK_STATES",
                  "released/finished tasks can be reported releasable again")
    # Workload aggregation and closed-loop
    wl = ctx.repo.mod(WORKLOAD).cls("Workload")
    wg = method(wl, "get_releasable_tasks")
    ok = any(call_name(c) == "get_releasable_tasks" and not is_self_attr(c.func) for c in calls_in(wg))
    ctx.check(ok, "C02.R4", "Workload.get_releasable_tasks|delegates to each TaskGraph", loc(wg), "delegates", "does not delegate to TaskGraph.get_releasable_tasks")
    wn = method(wl, "notify_task_graph_completion")
    for r in [r for r in ast.walk(wn) if isinstance(r, ast.Return)]:
        v = r.value
        ok = (isinstance(v, ast.List) and not v.elts) or (isinstance(v, ast.Call) and call_name(v) == "get_releasable_tasks")
        ctx.check(ok, "C02.R4", f"Workload.notify_task_graph_completion|returns `{norm(v)[:40]}`", loc(r), "releasable tasks of the next graph or nothing",
                  f"returns `{norm(v)[:60]}`")
    wc = method(wl, "notify_task_completion")
    ok = any(isinstance(r, ast.Return) and isinstance(r.value, ast.Call) and call_name(r.value) == "notify_task_completion" for r in ast.walk(wc))
    ctx.check(ok, "C02.R4", "Workload.notify_task_completion|delegates to the task's graph", loc(wc), "delegates", "does not delegate")


def r5_start_after_release(ctx: Context) -> None:
    ctx.rule("C02.R5", "Task.start asserts start_time >= release_time before the state write; the SCHEDULER_FINISHED "
                       "handler rejects placements in the past before creating the placement event")
    task = ctx.repo.mod(TASKS).cls("Task")
    fn = method(task, "start")
    ctx.analysed_function(f"{TASKS}::Task.start")
    g = cfgmod.build(fn)
    want = lin.formula(ast.parse("self._start_time >= self._release_time", mode="eval").body, strip=False)
    asserts = [n for n in g.nodes if n.kind == "stmt" and isinstance(n.ast, ast.Assert)
               and lin.equivalent(lin.formula(n.ast.test, strip=False), want)]
    writes = [n for n in ast.walk(fn) if isinstance(n, ast.Assign) and any(is_self_attr(t, "_state") for t in n.targets)]
    ctx.floor("C02.R5", "state write in Task.start", len(writes), 1)
    if not asserts:
        # an explicit raise is as good as an assert
        guards = [t for t in g.nodes if t.kind == "test" and lin.equivalent(lin.formula(t.ast, strip=False), lin.f_not(want))
                  and isinstance(parent(t.ast), ast.If) and any(isinstance(x, ast.Raise) for x in parent(t.ast).body)]
        ok = bool(guards) and g.edge_dominates(guards[0], "F", g.node_of(writes[0]))
        ctx.check(ok, "C02.R5", "Task.start|start_time >= release_time checked before RUNNING", loc(fn), "guard",
                  "Task.start no longer refuses a start before the release time")
    else:
        ok = g.dominates(asserts[0], g.node_of(writes[0]))
        ctx.check(ok, "C02.R5", "Task.start|start_time >= release_time checked before RUNNING", loc(asserts[0].ast),
                  "assert dominates the state write", "the state becomes RUNNING before the release-time check")
        # _start_time is the given time at that point
        sets = [n for n in ast.walk(fn) if isinstance(n, ast.Assign) and any(is_self_attr(t, "_start_time") for t in n.targets)]
        ok = bool(sets) and g.dominates(g.node_of(sets[0]), asserts[0]) and "time" in norm(sets[0].value)
        if not ok and sets:
            # `if time is not None: self._start_time = time` ahead of the assert: recorded on every path that was given a time
            iff = parent(sets[0])
            ok = isinstance(iff, ast.If) and any(x is sets[0] for x in iff.body) and norm(iff.test) in ("time is not None", "time != None") \
                and norm(sets[0].value) == "time" and g.dominates(g.node_of(iff.test), asserts[0]) \
                and not any(isinstance(x, ast.Assign) and any(is_self_attr(t, "_start_time") for t in x.targets) for y in iff.orelse for x in ast.walk(y))
        ctx.check(ok, "C02.R5", "Task.start|start time recorded before the check", loc(sets[0]) if sets else loc(fn),
                  "self._start_time = time ... precedes the assert", "the assert does not see the new start time")
    sim = Sim(ctx.repo)
    h = sim.handler("SCHEDULER_FINISHED")
    ctx.analysed_function(qualname(h))
    g = cfgmod.build(h)
    creators = [c for c in calls_in(h) if is_self_attr(c.func) and "create_events_from_task_placement" in c.func.attr
                and "skip" not in c.func.attr]
    ctx.floor("C02.R5", "placement-event creation call", len(creators), 1)
    past = lin.formula(ast.parse("placement.is_placed() and placement.placement_time < event.time", mode="eval").body)
    guards = [t for t in g.nodes if t.kind == "test" and isinstance(parent(t.ast), ast.If)
              and any(isinstance(x, ast.Raise) for x in parent(t.ast).body)
              and lin.entails(past, lin.formula(t.ast)) and "placement_time" in src(t.ast)]
    ok = any(g.edge_dominates(t, "F", g.node_of(creators[0])) for t in guards)
    if not ok:
        # nested form: `if placed: (if time < now: raise) ...` ahead of the creation: the conjunction of the tests around a raise is
        # implied by "placed and in the past", and the outermost of them is evaluated on every path to the creation
        common = set()
        q = creators[0]
        while q is not None:
            common.add(id(q))
            q = parent(q)
        for r in [x for x in ast.walk(h) if isinstance(x, ast.Raise)]:
            chain = []
            node, top = r, None
            while True:
                p = parent(node)
                # tests that enclose the creation as well are not part of the rejection condition
                if p is None or isinstance(p, (ast.For, ast.While, ast.FunctionDef)) or id(p) in common:
                    break
                if isinstance(p, ast.If):
                    f = lin.formula(p.test)
                    chain.append(f if any(x is node for x in p.body) else lin.f_not(f))
                    top = p
                node = p
            if top is None or not any("placement_time" in src(t) for t in [top.test] + [x.test for x in ast.walk(top) if isinstance(x, ast.If)]):
                continue
            if lin.entails(past, ("and", chain)) and g.dominates(g.node_of(top.test), g.node_of(creators[0])):
                ok = True
                break
    ctx.check(ok, "C02.R5", f"{qualname(h)}|placements in the past rejected", loc(creators[0]),
              "placed and placement_time < now -> raise, before the event is created",
              "a placement whose time is before the current time reaches event creation")
    # the event carries the placement's own time
    cr = [m for m in sim.methods.values() if "create_events_from_task_placement" in m.name and "skip" not in m.name]
    if not cr:
        raise AnalysisError("placement event creator not found")
    evs = event_constructions(cr[0], "TASK_PLACEMENT")
    ctx.floor("C02.R5", "TASK_PLACEMENT event constructions", len(evs), 2)
    for e in evs:
        t = next((k.value for k in e.keywords if k.arg == "time"), None)
        ctx.check(t is not None and norm(t) == "placement.placement_time", "C02.R5", f"{qualname(e)}|TASK_PLACEMENT at placement_time", loc(e),
                  "time=placement.placement_time", f"TASK_PLACEMENT event is created for time `{norm(t) if t is not None else '?'}`")


def r6_start_once(ctx: Context) -> None:
    ctx.rule("C02.R6", "on the extracted typestate relation: start only from SCHEDULED; without preempt no state after "
                       "start accepts start again; finish leads only to absorbing states")
    interp, _cls, writers = c06.task_interp(ctx.repo)
    names = sorted(n for n in writers if n != "__init__")
    rel = c06.relation(interp, names)
    seen = c06.reachable_pairs(rel, names)
    pairs = sorted({(s, p) for (s, p, _b) in seen})
    accepts_start = {(s, p) for (s, p) in pairs if any(o.kind == "return" for o in rel[("start", s, p)])}
    ctx.check({s for s, _ in accepts_start} <= {"SCHEDULED"}, "C02.R6", "Task.start|accepted only from SCHEDULED", f"{TASKS}:{interp.methods['start'].lineno}",
              "only SCHEDULED", f"start is accepted from {sorted({s for s, _ in accepts_start})}")
    # BFS from states right after start, not using preempt
    after = {(o.fields["_state"], o.fields["_pre_scheduling_state"]) for (s, p) in accepts_start for o in rel[("start", s, p)] if o.kind == "return"}
    q = deque(after)
    reach = set(after)
    while q:
        s, p = q.popleft()
        for m in names:
            if m == "preempt":
                continue
            for o in rel[(m, s, p)]:
                if o.kind == "return":
                    n = (o.fields["_state"], o.fields["_pre_scheduling_state"])
                    if n not in reach:
                        reach.add(n)
                        q.append(n)
    again = sorted(x for x in reach if x in accepts_start)
    ctx.check(not again, "C02.R6", "Task|no second start without preemption", f"{TASKS}:{interp.methods['start'].lineno}",
              f"{len(reach)} states reachable after start without preempt, none accepts start",
              f"a running task can reach {again} without being preempted and be started again")
    fin = {(o.fields["_state"], o.fields["_pre_scheduling_state"]) for (s, p) in pairs for o in rel[("finish", s, p)] if o.kind == "return"}
    bad = []
    for (s, p) in fin:
        for m in names:
            for o in rel[(m, s, p)]:
                if o.kind == "return" and o.fields["_state"] != s:
                    bad.append(f"{m}: {s}->{o.fields['_state']}")
    ctx.check(not bad and bool(fin), "C02.R6", "Task.finish|leads only to absorbing states", f"{TASKS}:{interp.methods['finish'].lineno}",
              f"finish -> {sorted({s for s, _ in fin})}, absorbing", f"a finished task can move on: {bad}")
    ctx.sample({"after_start_without_preempt": sorted(f"{s}/{p}" for s, p in reach)})


def r8_release_event_uses_own_time(ctx: Context) -> None:
    ctx.rule("C02.R8", "a TASK_RELEASE event for task X is stamped with X's own release time (possibly max-ed with the "
                       "current time), never with another task's")
    n = 0
    for m in ctx.repo.program_modules():
        for e in event_constructions(m.tree, "TASK_RELEASE"):
            kw = {k.arg: k.value for k in e.keywords}
            if "task" not in kw or "time" not in kw:
                continue
            n += 1
            who = norm(kw["task"])
            rts = [norm(x.value) for x in ast.walk(kw["time"]) if isinstance(x, ast.Attribute) and x.attr in ("release_time", "intended_release_time")]
            ok = bool(rts) and all(r == who for r in rts)
            ctx.check(ok, "C02.R8", f"{qualname(e)}|release of `{who}` at its own release time", loc(e), f"time=`{norm(kw['time'])[:50]}`",
                      f"the TASK_RELEASE event of `{who}` is stamped `{norm(kw['time'])[:70]}`, which reads the release time of "
                      f"{sorted(set(r for r in rts if r != who)) or 'no task'}: a task with a later release time of its own is released (and can "
                      "start) before that time")
    ctx.floor("C02.R8", "TASK_RELEASE event constructions", n, 3)


def run(ctx: Context) -> None:
    ctx.isolate(r1_who_may_start)
    ctx.isolate(r2_readiness_dominates)
    ctx.isolate(r3_readiness_predicate)
    ctx.isolate(r4_release_discipline)
    ctx.isolate(r5_start_after_release)
    ctx.isolate(r6_start_once)
    ctx.isolate(c06.r8b_task_is_complete, rule="C02.R7")
    ctx.isolate(r8_release_event_uses_own_time)
    ctx.isolate(c06.r9_cascade_exemptions, _alias={"C06.R9": "C02.R9", "C06.R11": "C02.R9b"})
    # the branch not taken is cancelled (otherwise its SCHEDULED tasks start without release and the join starts early): C07.R1
    from . import c07
    ctx.isolate(c07.r1_one_of_n, _alias={"C07.R1": "C02.R10"})
