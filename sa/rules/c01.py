"""C01 — No worker is ever oversubscribed during a simulation."""
from __future__ import annotations

import ast
from typing import Dict, List, Optional

from .. import cfg as cfgmod
from .. import lin
from ..anchors import RESOURCES, SIM, WORKERS, Sim
from ..core import (
    closure_functions,
    AnalysisError,
    call_name,
    calls_in,
    dotted,
    enclosing_class,
    enclosing_function,
    is_self_attr,
    loc,
    mangle,
    method,
    methods,
    norm,
    parent,
    qualname,
    src,
)
from ..report import Context
from . import c04

EXPLANATION = (
    "Static dominance / who-may-call / effect analysis of the admission path: the availability test "
    "(available < requested -> raise) dominates every ledger write in Resources.allocate and the checking "
    "loop dominates the allocating loop in allocate_multiple; ledger fields are written only inside "
    "Resources and allocate/allocate_multiple/deallocate are called only from the four Worker mutators; a "
    "task enters a worker's occupancy only together with an allocation, or by joining an already allocated "
    "batch under the membership and batch-size guards; Task.start/resume in the simulator are dominated by the "
    "success branch of WorkerPool.place_task, which places on at most one worker and records it; the fit tests "
    "compare against the available (not total) vector; policies plan on copies (shared with C10). NOT decided: "
    "the sum of demands at every instant of every run (a runtime quantity)."
)
ASSUMPTIONS = c04.ASSUMPTIONS + ["`Resources.get_available_quantity` sums the current (not total) vector; checked by R7"]


def _local_env(fn: ast.FunctionDef) -> Dict[str, lin.Lin]:
    """Single-assignment locals -> their defining expression (as linear forms)."""
    counts: Dict[str, int] = {}
    vals: Dict[str, ast.AST] = {}
    for n in ast.walk(fn):
        if isinstance(n, ast.Assign) and len(n.targets) == 1 and isinstance(n.targets[0], ast.Name):
            counts[n.targets[0].id] = counts.get(n.targets[0].id, 0) + 1
            vals[n.targets[0].id] = n.value
        elif isinstance(n, (ast.AugAssign,)) and isinstance(n.target, ast.Name):
            counts[n.target.id] = counts.get(n.target.id, 0) + 2
    return {k: lin.lin_of(v) for k, v in vals.items() if counts[k] == 1}


def _refusal_guards(g: cfgmod.CFG):
    """Test nodes whose true branch consists of a raise (refusal guards)."""
    out = []
    for n in g.nodes:
        if n.kind != "test":
            continue
        p = parent(n.ast)
        if isinstance(p, ast.If) and p.test is n.ast and p.body and isinstance(p.body[-1], ast.Raise) \
                and all(isinstance(s, (ast.Raise, ast.Expr)) for s in p.body):
            out.append(n)
    return out


# ---------------------------------------------------------------------------
# R1b: the allocating loop records exactly what was requested (loop invariant)
# ---------------------------------------------------------------------------
class _LoopState:
    def __init__(self, env, conds, appended, dec, writes):
        self.env, self.conds, self.appended, self.dec, self.writes = env, conds, appended, dec, writes

    def fork(self):
        return _LoopState(dict(self.env), list(self.conds), self.appended, self.dec, self.writes)


def _walk_loop_body(stmts, st, vector_field, ledger_field):
    """Enumerate the paths of a loop body: yields (state, exit) with exit in fall/break/continue/leave."""
    if not stmts:
        yield st, "fall"
        return
    s, rest = stmts[0], stmts[1:]
    if isinstance(s, ast.If):
        f = lin.formula(s.test, env=st.env)
        for branch, cond in ((s.body, f), (s.orelse, lin.f_not(f))):
            b = st.fork()
            b.conds.append(cond)
            for st2, ex in _walk_loop_body(branch, b, vector_field, ledger_field):
                if ex == "fall":
                    yield from _walk_loop_body(rest, st2, vector_field, ledger_field)
                else:
                    yield st2, ex
        return
    if isinstance(s, ast.Break):
        yield st, "break"
        return
    if isinstance(s, ast.Continue):
        yield st, "continue"
        return
    if isinstance(s, (ast.Return, ast.Raise)):
        yield st, "leave"
        return
    if isinstance(s, ast.Assign) and len(s.targets) == 1:
        t = s.targets[0]
        if isinstance(t, ast.Name):
            st.env[t.id] = lin.lin_of(s.value, st.env)
        elif isinstance(t, ast.Subscript) and is_self_attr(t.value, vector_field):
            held = lin.Lin({norm(t): 1})
            st.dec = st.dec + held - lin.lin_of(s.value, st.env)
            st.writes += 1
        else:
            raise AnalysisError(f"unrecognised store `{norm(s)[:60]}` in the allocation loop")
    elif isinstance(s, ast.AugAssign) and isinstance(s.op, (ast.Add, ast.Sub)):
        v = lin.lin_of(s.value, st.env)
        sign = 1 if isinstance(s.op, ast.Add) else -1
        if isinstance(s.target, ast.Name):
            cur = st.env.get(s.target.id, lin.Lin({s.target.id: 1}))
            st.env[s.target.id] = cur + v.scale(sign)
        elif isinstance(s.target, ast.Subscript) and is_self_attr(s.target.value, vector_field):
            st.dec = st.dec - v.scale(sign)
            st.writes += 1
        else:
            raise AnalysisError(f"unrecognised update `{norm(s)[:60]}` in the allocation loop")
    elif isinstance(s, ast.Expr) and isinstance(s.value, ast.Call):
        c = s.value
        if isinstance(c.func, ast.Attribute) and c.func.attr == "append" and any(
                is_self_attr(x, ledger_field) for x in ast.walk(c.func.value)):
            if not (c.args and isinstance(c.args[0], ast.Tuple) and len(c.args[0].elts) == 2):
                raise AnalysisError("allocation record is no longer a (resource, quantity) pair")
            st.appended = st.appended + lin.lin_of(c.args[0].elts[1], st.env)
    elif isinstance(s, (ast.Pass,)):
        pass
    else:
        raise AnalysisError(f"unrecognised statement `{norm(s)[:60]}` in the allocation loop")
    yield from _walk_loop_body(rest, st, vector_field, ledger_field)


def r1b_allocation_invariant(ctx: Context, rule: str = "C01.R1b") -> None:
    ctx.rule(rule, "loop invariant of Resources.allocate, verified per path of the loop body with linear arithmetic: "
                   "remaining == requested - (sum of recorded quantities); each availability decrement equals the "
                   "quantity recorded for it; every `break` leaves with the whole request recorded")
    cls = ctx.repo.mod(RESOURCES).cls("Resources")
    fn = method(cls, "allocate")
    loops = [n for n in ast.walk(fn) if isinstance(n, ast.For) and is_self_attr(n.iter, "_resource_vector")]
    ctx.floor(rule, "loop over the resource vector in Resources.allocate", len(loops), 1)
    loop = loops[0]
    rem = "quantity"
    for n in fn.body:
        if isinstance(n, ast.Assign) and isinstance(n.targets[0], ast.Name) and isinstance(n.value, ast.Name) \
                and n.value.id == "quantity" and n.lineno < loop.lineno:
            rem = n.targets[0].id
    R = lin.Lin({"R": 1})
    start = _LoopState({rem: R}, [], lin.Lin(), lin.Lin(), 0)
    paths = list(_walk_loop_body(loop.body, start, "_resource_vector", "_current_allocations"))
    ctx.floor(rule, "paths through the allocation loop body", len(paths), 4)
    ctx.count("allocate_loop_paths", len(paths))
    zero = lin.Lin()
    n_break = 0
    for i, (st, ex) in enumerate(paths):
        if ex == "leave":
            continue
        held_terms = set()
        for l in (st.dec, st.appended, st.env.get(rem, R)):
            held_terms |= {k for k in l.terms if k != "R"}
        assume = [lin._atom(*lin._canon_le(-lin.Lin({k: 1}), True)) for k in sorted(held_terms)]  # quantities are >= 0
        pc = ("and", list(st.conds) + assume)
        if not lin.satisfiable(pc):
            continue
        desc = " and ".join(lin.show(c) for c in st.conds) or "always"
        key = f"Resources.allocate|path {ex} under [{desc[:110]}]"

        def holds(l):
            return l == zero or lin.entails(pc, lin._atom(*lin._canon_eq(l)))
        ok_pair = holds(st.dec - st.appended) and st.writes <= 1
        ctx.check(ok_pair, rule, key + " decrement == recorded", loc(loop), "availability falls by the recorded quantity",
                  f"on the path [{desc}] the availability decreases by `{st.dec!r}` but `{st.appended!r}` is recorded for the "
                  "computation: deallocate returns something else than was taken")
        rem_end = st.env.get(rem, R)
        if ex == "break":
            n_break += 1
            ok = holds(R - st.appended)
            ctx.check(ok, rule, key + " request fully recorded", loc(loop), "recorded == requested at the exit",
                      f"the loop is left by `break` on the path [{desc}] with `{st.appended!r}` recorded out of the "
                      "remaining request R: less (or more) than the requested quantity is allocated")
        else:
            ok = holds(rem_end - (R - st.appended))
            ctx.check(ok, rule, key + " remaining == R - recorded", loc(loop), "invariant preserved",
                      f"on the path [{desc}] `{rem}` becomes `{rem_end!r}` while `{st.appended!r}` was recorded: the next "
                      "iteration allocates against a wrong remainder (over- or negative allocation, availability "
                      "overstated)")
    ctx.floor(rule, "`break` exits of the allocation loop", n_break, 1)


def r1_ledger_guard(ctx: Context) -> None:
    ctx.rule("C01.R1", "the availability test dominates every ledger write in Resources.allocate; in "
                       "allocate_multiple the checking loop dominates the allocating loop over the same collection")
    cls = ctx.repo.mod(RESOURCES).cls("Resources")
    fn = method(cls, "allocate")
    ctx.analysed_function(f"{RESOURCES}::Resources.allocate")
    g = cfgmod.build(fn)
    env = _local_env(fn)
    params = [a.arg for a in fn.args.args]
    if not {"resource", "quantity"} <= set(params):
        raise AnalysisError("Resources.allocate signature changed (resource, quantity expected)")
    want = lin.formula(ast.parse("self.get_available_quantity(resource) < quantity", mode="eval").body, env=env)
    guards = [t for t in _refusal_guards(g) if lin.equivalent(lin.formula(t.ast, env=env), want)]
    muts = c04._direct_mutations(fn, "Resources")
    ctx.floor("C01.R1", "ledger writes in Resources.allocate", len(muts), 2)
    if not guards:
        ctx.violation("C01.R1", "Resources.allocate|availability guard", loc(fn),
                      "no test equivalent to `available < quantity -> raise` guards the allocation")
    else:
        t = guards[0]
        for m in muts:
            ctx.check(g.edge_dominates(t, "F", g.node_of(m)), "C01.R1",
                      f"Resources.allocate|guard dominates `{norm(m)[:50]}`", loc(m),
                      f"`{norm(t.ast)}` false-edge dominates the write",
                      f"`{norm(m)[:60]}` can execute without passing the availability test")
    # the loop only takes from entries that match the request, and never more than they hold
    for m in muts:
        if isinstance(m, ast.Assign) and isinstance(m.targets[0], ast.Subscript) and is_self_attr(m.targets[0].value, "_resource_vector"):
            v = m.value
            okv = (isinstance(v, ast.Constant) and v.value == 0) or (
                isinstance(v, ast.BinOp) and isinstance(v.op, ast.Sub))
            ctx.check(okv, "C01.R1", f"Resources.allocate|write `{norm(m)[:50]}` only lowers availability", loc(m),
                      "vector entry is set to (held - taken) or 0", f"`{norm(m)}` does not lower the available quantity")
            if isinstance(v, ast.BinOp) and isinstance(v.op, ast.Sub):
                # held - taken must be >= 0 on this path: dominated by a test `held >= taken`
                gn = g.node_of(m)
                need = lin.formula(ast.Compare(left=v.left, ops=[ast.GtE()], comparators=[v.right]), env=env)
                found = False
                for t in g.nodes:
                    if t.kind == "test":
                        f = lin.formula(t.ast, env=env)
                        if g.edge_dominates(t, "T", gn) and lin.entails(f, need):
                            found = True
                        if g.edge_dominates(t, "F", gn) and lin.entails(lin.f_not(f), need):
                            found = True
                ctx.check(found, "C01.R1", f"Resources.allocate|`{norm(m)[:50]}` cannot go negative", loc(m),
                          "guarded by held >= taken", f"`{norm(m)}` is not guarded by `{norm(v.left)} >= {norm(v.right)}`")
    # allocate_multiple
    fn2 = method(cls, "allocate_multiple")
    ctx.analysed_function(f"{RESOURCES}::Resources.allocate_multiple")
    g2 = cfgmod.build(fn2)
    loops = [n for n in ast.walk(fn2) if isinstance(n, ast.For)]
    check_loops = [l for l in loops if any(isinstance(x, ast.Raise) for x in ast.walk(l)) and not calls_in(l, "allocate")]
    alloc_loops = [l for l in loops if calls_in(l, "allocate")]
    if not check_loops or not alloc_loops:
        ctx.violation("C01.R1", "Resources.allocate_multiple|check-then-allocate", loc(fn2),
                      "allocate_multiple no longer has a checking loop followed by an allocating loop")
        return
    cl, al = check_loops[0], alloc_loops[0]
    ctx.check(norm(cl.iter) == norm(al.iter), "C01.R1", "Resources.allocate_multiple|both loops iterate the request",
              loc(al), f"both iterate `{norm(cl.iter)}`", f"check iterates `{norm(cl.iter)}`, allocation iterates `{norm(al.iter)}`")
    cn, an = g2.node_of(cl), g2.node_of(al)
    ctx.check(g2.dominates(cn, an), "C01.R1", "Resources.allocate_multiple|check loop dominates allocation loop", loc(al),
              "checking loop first", "the allocating loop can run without the checking loop")
    # guard in the check loop
    env2 = _local_env(fn2)
    tg = cl.target
    if isinstance(tg, ast.Tuple) and len(tg.elts) == 2 and all(isinstance(e, ast.Name) for e in tg.elts):
        r, q = tg.elts[0].id, tg.elts[1].id
        want2 = lin.formula(ast.parse(f"self.get_available_quantity({r}) < {q}", mode="eval").body, env=env2)
        gs = [t for t in _refusal_guards(g2) if lin.equivalent(lin.formula(t.ast, env=env2), want2)]
        ok = bool(gs) and any(isinstance(parent(t.ast), ast.If) and parent(t.ast) in cl.body for t in gs)
        ctx.check(ok, "C01.R1", "Resources.allocate_multiple|per-resource availability guard", loc(cl),
                  "requested > available -> raise, for every requested resource",
                  "the checking loop does not refuse a request above availability")
    else:
        raise AnalysisError("allocate_multiple check loop target not (resource, quantity)")


def r2_who_may_touch(ctx: Context) -> None:
    ctx.rule("C01.R2", "ledger fields are written only in Resources; allocate only from Resources; "
                       "allocate_multiple/deallocate only from the four Worker mutators")
    n_writes = 0
    for m in ctx.repo.program_modules():
        for node in ast.walk(m.tree):
            if isinstance(node, (ast.Assign, ast.AugAssign, ast.Delete)):
                ts = node.targets if isinstance(node, (ast.Assign, ast.Delete)) else [node.target]
                for t in ts:
                    base = t.value if isinstance(t, ast.Subscript) else t
                    if isinstance(base, ast.Attribute):
                        cls = enclosing_class(node)
                        attr = mangle(cls.name, base.attr) if cls is not None else base.attr
                        if attr in c04.LEDGER_FIELDS or base.attr in ("_resource_vector", "_current_allocations"):
                            n_writes += 1
                            ok = m.rel == RESOURCES and cls is not None and cls.name == "Resources"
                            ctx.check(ok, "C01.R2", f"{qualname(node)}|{norm(node)[:60]}", loc(node), "inside Resources",
                                      f"`{norm(node)[:80]}` writes the resource ledger from outside class Resources")
            elif isinstance(node, ast.Call) and isinstance(node.func, ast.Attribute) and node.func.attr in (
                    "clear", "pop", "update", "setdefault", "append", "extend", "remove", "popitem", "__setitem__", "__delitem__"):
                b = node.func.value
                base = b.value if isinstance(b, ast.Subscript) else b
                if isinstance(base, ast.Attribute):
                    cls = enclosing_class(node)
                    attr = mangle(cls.name, base.attr) if cls is not None else base.attr
                    if attr in c04.LEDGER_FIELDS or base.attr in ("_resource_vector", "_current_allocations"):
                        n_writes += 1
                        ok = m.rel == RESOURCES and cls is not None and cls.name == "Resources"
                        ctx.check(ok, "C01.R2", f"{qualname(node)}|{norm(node)[:60]}", loc(node), "inside Resources",
                                  f"`{norm(node)[:80]}` mutates the resource ledger from outside class Resources")
    ctx.floor("C01.R2", "ledger writes", n_writes, 6)
    allowed = {"allocate": {("Resources", "allocate_multiple"), ("Resources", "__copy__")},
               "allocate_multiple": {("Worker", "place_task"), ("Worker", "load_profile")},
               "deallocate": {("Worker", "remove_task"), ("Worker", "evict_profile")}}
    n_calls = 0
    for name, who in allowed.items():
        for c in ctx.repo.calls_named(name):
            if not isinstance(c.func, ast.Attribute):
                continue
            if c._module.rel in ("schedulers/tetrisched_scheduler.py", "schedulers/graphene_scheduler.py"):
                continue
            fn = enclosing_function(c)
            cls = enclosing_class(c)
            site = (cls.name if cls is not None else "?", fn.name if fn is not None else "?")
            n_calls += 1
            ctx.check(site in who, "C01.R2", f"{qualname(c)}|calls {name}", loc(c), f"{site[0]}.{site[1]} may call {name}",
                      f"{site[0]}.{site[1]} calls `{norm(c)[:70]}`: the ledger may only be driven through "
                      f"{sorted('.'.join(w) for w in who)}")
    ctx.floor("C01.R2", "ledger call sites", n_calls, 8)


def r4_simulator_side(ctx: Context) -> None:
    ctx.rule("C01.R4", "Task.start / Task.resume in the simulator are dominated by the success branch of "
                       "WorkerPool.place_task; the failure branch re-queues and never starts")
    sim = Sim(ctx.repo)
    for et, starter in (("TASK_PLACEMENT", "start"), ("TASK_MIGRATION", "resume")):
        h = sim.handler(et)
        ctx.analysed_function(qualname(h))
        g = cfgmod.build(h)
        starts = [c for c in calls_in(h, starter) if isinstance(c.func, ast.Attribute) and "task" in src(c.func.value)]
        ctx.floor("C01.R4", f"{starter}() in {et} handler", len(starts), 1)
        places = [a for a in ast.walk(h) if isinstance(a, ast.Assign) and isinstance(a.value, ast.Call)
                  and call_name(a.value) == "place_task" and isinstance(a.targets[0], ast.Name)]
        if not places:
            ctx.violation("C01.R4", f"{qualname(h)}|place_task result captured", loc(h),
                          "the handler no longer captures the result of WorkerPool.place_task")
            continue
        flag = places[0].targets[0].id
        tests = [n for n in g.nodes if n.kind == "test" and isinstance(n.ast, ast.Name) and n.ast.id == flag]
        for s in starts:
            sn = g.node_of(s)
            ok = any(g.edge_dominates(t, "T", sn) for t in tests) and g.dominates(g.node_of(places[0]), sn)
            ctx.check(ok, "C01.R4", f"{qualname(h)}|{starter} only after successful place_task", loc(s),
                      f"`{norm(s)[:40]}` dominated by `if {flag}` true-branch",
                      f"`{norm(s)[:60]}` can run although the pool did not accept the task")
        # the flag is not reassigned between
        n_assign = sum(1 for a in ast.walk(h) if isinstance(a, ast.Assign) and any(
            isinstance(t, ast.Name) and t.id == flag for t in a.targets))
        ctx.check(n_assign == 1, "C01.R4", f"{qualname(h)}|{flag} assigned once", loc(places[0]), "single definition",
                  f"`{flag}` is assigned {n_assign} times")
        # the task handed to place_task is the task that is started
        pt = places[0].value
        arg0 = pt.args[0] if pt.args else next((k.value for k in pt.keywords if k.arg == "task"), None)
        ctx.check(arg0 is not None and norm(arg0) == norm(starts[0].func.value), "C01.R4",
                  f"{qualname(h)}|placed task is the started task", loc(pt), "same task",
                  f"place_task({norm(arg0) if arg0 is not None else '?'}) but {norm(starts[0].func.value)}.{starter}()")


def r5_one_worker(ctx: Context) -> None:
    ctx.rule("C01.R5", "every path of WorkerPool.place_task places on at most one worker and records that worker")
    cls = ctx.repo.mod(WORKERS).cls("WorkerPool")
    fn = method(cls, "place_task")
    ctx.analysed_function(f"{WORKERS}::WorkerPool.place_task")
    g = cfgmod.build(fn)
    inner = [c for c in calls_in(fn, "place_task") if isinstance(c.func, ast.Attribute)
             and isinstance(c.func.value, ast.Subscript) and is_self_attr(c.func.value.value, "_workers")]
    ctx.floor("C01.R5", "Worker.place_task call in WorkerPool.place_task", len(inner), 1)
    inner_nodes = {g.node_of(c).id: c for c in inner}
    npaths = 0
    bad = 0
    for path in g.paths(loop_bound=1):
        if path[-1][0].kind != "ret":
            continue
        npaths += 1
        calls = [inner_nodes[n.id] for (n, _l) in path if n.id in inner_nodes]
        if len(calls) > 1:
            bad += 1
            ctx.violation("C01.R5", "WorkerPool.place_task|one Worker.place_task per path", loc(calls[1]),
                          "a path places the task on more than one worker")
        for c in calls:
            idx = norm(c.func.value.slice)
            recs = [n.ast for (n, _l) in path if isinstance(n.ast, ast.Assign) and isinstance(n.ast.targets[0], ast.Subscript)
                    and is_self_attr(n.ast.targets[0].value, "_placed_tasks")]
            okr = any(norm(r.value) == idx for r in recs)
            if not okr:
                bad += 1
                ctx.violation("C01.R5", "WorkerPool.place_task|placed worker recorded", loc(c),
                              f"the task is placed on worker `{idx}` but that id is not recorded in _placed_tasks")
        # a path that returns True must contain a placement
        last = path[-2][0].ast if len(path) >= 2 else None
        if isinstance(last, ast.Return) and isinstance(last.value, ast.Constant) and last.value.value is True and not calls:
            bad += 1
            ctx.violation("C01.R5", "WorkerPool.place_task|True only after placement", loc(last),
                          "place_task reports success on a path that placed the task nowhere")
        # ... and a path that placed the task must not report failure (the simulator re-queues a failed placement and
        # would place - and allocate for - the same task a second time)
        if isinstance(last, ast.Return) and calls and not (isinstance(last.value, ast.Constant) and last.value.value is True):
            bad += 1
            ctx.violation("C01.R5", "WorkerPool.place_task|a placement is reported as success", loc(last),
                          f"place_task returns `{norm(last.value) if last.value is not None else None}` on a path that placed the task on a worker: "
                          "the caller treats the placement as refused, retries it, and the task's resources are allocated twice")
    ctx.count("pool_place_paths", npaths)
    if not bad:
        ctx.ok("C01.R5", "WorkerPool.place_task|one worker, recorded", loc(fn), f"{npaths} normal paths examined")
    # the chosen worker passed the fit test for the chosen strategy on the first-fit branches
    fits = [c for f in closure_functions(fn) for c in calls_in(f, "can_accomodate_strategy")]
    ctx.floor("C01.R5", "fit tests in WorkerPool.place_task", len(fits), 3)
    # WorkerPool.remove_task removes from the recorded worker
    rm = method(cls, "remove_task")
    rc = [c for c in calls_in(rm, "remove_task") if isinstance(c.func.value, ast.Subscript)]
    ok = bool(rc) and "_placed_tasks[task]" in norm(rc[0].func.value.slice)
    ctx.check(ok, "C01.R5", "WorkerPool.remove_task|removes from the recorded worker", loc(rm),
              "self._workers[self._placed_tasks[task]].remove_task", "removal does not address the recorded worker")


def r11_resource_identity(ctx: Context, rule: str = "C01.R11") -> None:
    ctx.rule(rule, "Resource identity, on which every availability sum and fit test rests: `==` holds exactly when the names are equal "
                   "and (either id is the wildcard `any` or the ids are equal) - decided over all return paths with the guard algebra; a "
                   "shallow copy keeps the id, so a policy's scratch copy matches the same units")
    from .c16 import _ret_paths
    cls = ctx.repo.mod("workload/resource.py").cls("Resource")
    eq = method(cls, "__eq__")
    o = eq.args.args[1].arg
    want = lin.formula(ast.parse(f"self.name == {o}.name and (self.id == 'any' or {o}.id == 'any' or self.id == {o}.id)", mode="eval").body)
    true_paths = []
    for conds, ret in _ret_paths(eq):
        pc = [lin.formula(t) if pol == "T" else lin.f_not(lin.formula(t)) for pol, t in conds]
        if isinstance(ret, ast.Constant) and isinstance(ret.value, bool):
            if ret.value:
                true_paths.append(("and", pc) if pc else ("const", True))
        else:
            true_paths.append(("and", pc + [lin.formula(ret)]))
    got = ("or", true_paths) if true_paths else ("const", False)
    ctx.check(lin.equivalent(got, want), rule, "Resource.__eq__|same name and (wildcard or same id)", loc(eq), "equivalent",
              f"Resource.__eq__ is true under `{lin.show(got)[:160]}`: units of another resource (or not all units of this one) are counted "
              "as available for a request, so fit tests admit more than the worker owns")
    cp = method(cls, "__copy__")
    keeps = any(isinstance(a, ast.Assign) and isinstance(a.targets[0], ast.Attribute) and a.targets[0].attr == "_id" and is_self_attr(a.value, "_id") for a in ast.walk(cp))
    ctx.check(keeps, rule, "Resource.__copy__|keeps the id", loc(cp), "instance._id = self._id",
              "a copied Resource gets a fresh id: the allocations replayed onto a scratch copy no longer match its inventory")


def r7_fit_tests(ctx: Context) -> None:
    ctx.rule("C01.R7", "fit tests compare the request against the *available* quantities: Resources.__gt__, "
                       "get_available_quantity, Worker.can_accomodate_strategy, WorkerPool.can_accomodate_strategy")
    cls = ctx.repo.mod(RESOURCES).cls("Resources")
    ga = method(cls, "get_available_quantity")
    # sums self._resource_vector entries equal to the resource
    loops = [n for n in ast.walk(ga) if isinstance(n, ast.For)]
    ok = False
    for lp in loops:
        if "_resource_vector" in src(lp.iter) and "__total" not in src(lp.iter):
            for n in ast.walk(lp):
                if isinstance(n, ast.AugAssign) and isinstance(n.op, ast.Add):
                    p = parent(n)
                    if isinstance(p, ast.If) and isinstance(p.test, ast.Compare) and isinstance(p.test.ops[0], ast.Eq):
                        ok = True
    # the same as one expression: sum(q for r, q in self._resource_vector.items() if r == resource)
    for c in [c for c in calls_in(ga, "sum") if c.args and isinstance(c.args[0], (ast.GeneratorExp, ast.ListComp))]:
        comp = c.args[0]
        gen = comp.generators[0]
        if len(comp.generators) == 1 and "_resource_vector" in src(gen.iter) and "__total" not in src(gen.iter) and norm(gen.iter).endswith(".items()") \
                and isinstance(gen.target, ast.Tuple) and len(gen.target.elts) == 2 and norm(comp.elt) == norm(gen.target.elts[1]) \
                and len(gen.ifs) == 1 and isinstance(gen.ifs[0], ast.Compare) and isinstance(gen.ifs[0].ops[0], ast.Eq) \
                and {norm(gen.ifs[0].left), norm(gen.ifs[0].comparators[0])} == {norm(gen.target.elts[0]), "resource"}:
            ok = True
    ctx.check(ok, "C01.R7", "Resources.get_available_quantity|sums matching entries of the current vector", loc(ga),
              "sum over _resource_vector where entry == resource", "availability is not computed from the current vector")
    # ... and nothing else: every value the accessors return is accumulated in this call (no memo on the instance)
    for acc in ("get_available_quantity", "get_total_quantity", "get_allocated_quantity"):
        fn_acc = method(cls, acc)
        stale = []
        for r in ast.walk(fn_acc):
            if isinstance(r, ast.Return) and r.value is not None:
                # the ledger iterated by a comprehension inside the returned expression is a computation, not a stored value
                iterated = {id(x) for c in ast.walk(r.value) if isinstance(c, ast.comprehension) for x in ast.walk(c.iter)}
                for x in ast.walk(r.value):
                    if isinstance(x, ast.Attribute) and is_self_attr(x) and id(x) not in iterated \
                            and x.attr not in ("get_total_quantity", "get_available_quantity", "get_allocated_quantity"):
                        stale.append(norm(r.value)[:50])
        writes = [norm(a)[:50] for a in ast.walk(fn_acc) if isinstance(a, (ast.Assign, ast.AugAssign))
                  for t in (a.targets if isinstance(a, ast.Assign) else [a.target])
                  if (isinstance(t, ast.Subscript) and is_self_attr(t.value)) or is_self_attr(t)]
        ctx.check(not stale and not writes, "C01.R7", f"Resources.{acc}|computed from the ledger on every call", loc(fn_acc), "no cached value",
                  f"Resources.{acc} returns or stores instance state ({stale + writes}): a cached quantity survives allocations made under another "
                  "key that covers the same units (`any` vs a specific id), so the fit tests pass on units that are already taken")
    gt = method(cls, "__gt__")
    ctx.analysed_function(f"{RESOURCES}::Resources.__gt__")
    g = cfgmod.build(gt)
    loops = [n for n in ast.walk(gt) if isinstance(n, ast.For)]
    ok = False
    if len(loops) == 1 and isinstance(loops[0].target, ast.Tuple) and len(loops[0].target.elts) == 2 \
            and "other._resource_vector" in src(loops[0].iter):
        r, q = loops[0].target.elts[0].id, loops[0].target.elts[1].id
        want = lin.formula(ast.parse(f"self.get_available_quantity({r}) >= {q}", mode="eval").body)
        rets_false = [n for n in ast.walk(loops[0]) if isinstance(n, ast.Return) and isinstance(n.value, ast.Constant) and n.value.value is False]
        rets_true = [n for n in ast.walk(gt) if isinstance(n, ast.Return) and isinstance(n.value, ast.Constant) and n.value.value is True]
        tests = [t for t in g.nodes if t.kind == "test"]
        cond = False
        for t in tests:
            f = lin.formula(t.ast)
            for rf in rets_false:
                if lin.equivalent(f, want) and g.edge_dominates(t, "F", g.node_of(rf)):
                    cond = True
                if lin.equivalent(lin.f_not(f), want) and g.edge_dominates(t, "T", g.node_of(rf)):
                    cond = True
        # every iteration must reach the test: return True only after exhaustion
        after = all(not any(x is rt for x in ast.walk(loops[0])) for rt in rets_true) and len(rets_true) == 1
        # no way to skip the test inside an iteration (continue/break before it)
        skip = any(isinstance(x, (ast.Break, ast.Continue)) for x in ast.walk(loops[0]))
        ok = cond and after and not skip
    ctx.check(ok, "C01.R7", "Resources.__gt__|False unless every requested quantity is available", loc(gt),
              "for (r, q) in other: available(r) >= q else False; True after the loop",
              "Resources.__gt__ can report a fit although some requested quantity exceeds availability")
    w = ctx.repo.mod(WORKERS).cls("Worker")
    ca = method(w, "can_accomodate_strategy")
    rets = [n for n in ast.walk(ca) if isinstance(n, ast.Return)]
    ok = False
    if len(rets) == 1 and isinstance(rets[0].value, ast.BoolOp) and isinstance(rets[0].value.op, ast.Or):
        vals = rets[0].value.values
        fit = [v for v in vals if isinstance(v, ast.Compare) and len(v.ops) == 1 and isinstance(v.ops[0], ast.Gt)
               and is_self_attr(v.left, "_resources") and norm(v.comparators[0]).endswith(".resources")]
        batch = [v for v in vals if isinstance(v, ast.BoolOp) and isinstance(v.op, ast.And)
                 and "isinstance" in src(v) and "BatchStrategy" in src(v) and "in self._placed_batches" in src(v)
                 and "not in" not in src(v)]
        ok = len(fit) == 1 and len(fit) + len(batch) == len(vals)
    elif len(rets) == 1 and isinstance(rets[0].value, ast.Compare):
        v = rets[0].value
        ok = isinstance(v.ops[0], ast.Gt) and is_self_attr(v.left, "_resources")
    ctx.check(ok, "C01.R7", "Worker.can_accomodate_strategy|available > requested, or member of a placed batch", loc(ca),
              "self._resources > strategy.resources or (batch strategy already placed)",
              f"fit test is `{norm(rets[0].value) if rets else '?'}`")
    wp = ctx.repo.mod(WORKERS).cls("WorkerPool")
    cp = method(wp, "can_accomodate_strategy")
    rets = [n for n in ast.walk(cp) if isinstance(n, ast.Return)]
    ok = len(rets) == 1 and isinstance(rets[0].value, ast.Call) and call_name(rets[0].value) == "any" \
        and "can_accomodate_strategy" in src(rets[0].value) and "self._workers" in src(rets[0].value)
    ctx.check(ok, "C01.R7", "WorkerPool.can_accomodate_strategy|any worker fits", loc(cp),
              "any(worker.can_accomodate_strategy(s) for worker in workers)",
              f"pool fit test is `{norm(rets[0].value)[:80] if rets else '?'}`")


def run(ctx: Context) -> None:
    ctx.isolate(r1_ledger_guard)
    ctx.isolate(r1b_allocation_invariant)
    ctx.isolate(r2_who_may_touch)
    ctx.isolate(c04.r1_coindexed, rule="C01.R3")
    ctx.isolate(c04.r2_refusal_changes_nothing, rule="C01.R6a")
    ctx.isolate(r4_simulator_side)
    ctx.isolate(r5_one_worker)
    ctx.isolate(r7_fit_tests)
    ctx.isolate(r11_resource_identity)
    ctx.isolate(c04.r2b_rollback_is_exact, rule="C01.R6b")
    ctx.isolate(c04.r3_deallocate, rule="C01.R8")
    ctx.isolate(c04.r4_r5_copies, rule4="C01.R9", rule5="C01.R9b")
    from . import c17
    ctx.isolate(c17.cache_coherence, "C01.R10", ("Resources", "Worker", "WorkerPool"), "availability answers must follow every allocation", 3)
    try:
        from . import c10
        ctx.isolate(c10.r1_side_effect_free, rule="C01.R6")
    except ImportError:
        ctx.note("C10.R1 (policies plan on copies) not available yet")
