"""C14 — Optimisation-based planners do not leave achievable goodput on the table ("no over-tight constraint" clauses)."""
from __future__ import annotations

import ast
from typing import Dict, List, Optional, Set, Tuple

from .. import cfg as cfgmod
from .. import lin
from ..core import (
    AnalysisError,
    call_name,
    calls_in,
    dotted,
    enclosing_function,
    is_self_attr,
    loc,
    method,
    methods,
    norm,
    parent,
    qualname,
    src,
)
from ..report import Context
from . import c10, c12

GUR = "schedulers/tetrisched_gurobi_scheduler.py"
CPX = "schedulers/tetrisched_cplex_scheduler.py"
ILP = "schedulers/ilp_scheduler.py"

EXPLANATION = (
    "Only the 'no over-tight constraint' clauses are decided statically: in both space-time formulations a cell is fixed "
    "to 0 only when the (worker, strategy) pair is incompatible with the emptied worker, the start is before the release, "
    "or (enforcement on and) start + runtime exceeds the deadline; the occupancy window is at most start <= t < start + "
    "runtime (touching intervals do not overlap) and the two sibling formulations agree; the capacity bound is the "
    "worker's full quantity and zero-request strategies add no term; the ILP overlap indicator pairs leave no gap; every "
    "cell is rewarded with a coefficient interpolated onto a strictly positive interval and the objective is maximised; "
    "already running tasks must occupy their worker only for their remaining time. NOT decided (the larger part of the "
    "property): optimality of goodput against exhaustive search, effects of the MIP gap and termination callbacks."
)
ASSUMPTIONS = ["np.interp maps the time range linearly onto the given interval"]


def r1_gating_exact(ctx: Context) -> None:
    c12.r3_space_time_gating(ctx, rule="C14.R1g", check_exact=True, exact_rule="C14.R1")
    ctx.rule("C14.R1", "a space-time cell is the constant 0 only for: incompatible pair, start < release, enforced and start + runtime > deadline")


def _window_formula(ctx: Context, rel: str, case: str):
    cls = ctx.repo.mod(rel).cls("TaskOptimizerVariables")
    pv = method(cls, "get_partition_variable")
    g = cfgmod.build(pv)
    apps = [c for c in calls_in(pv, "append")]
    if not apps:
        raise AnalysisError(f"{rel}: get_partition_variable has no append")
    an = g.node_of(apps[0])
    env = c10.window_cases(pv)[case]
    ctl = []
    for t in g.nodes:
        if t.kind == "test":
            for pol in ("T", "F"):
                if g.edge_dominates(t, pol, an):
                    f = lin.formula(t.ast, env=env)
                    ctl.append(f if pol == "T" else lin.f_not(f))
    parts = []
    for f in ctl:
        parts += c10._split_and(f)
    wo_kind = [f for f in parts if "variable" not in lin.show(f)]
    return pv, apps[0], ("and", wo_kind) if wo_kind else ("const", True)


def r2_occupancy_not_wider(ctx: Context) -> None:
    ctx.rule("C14.R2", "occupancy window at most start <= t < start + runtime on the cell's own worker; the Gurobi and CPLEX formulations agree")
    for case, need_src in (("new", "worker_id == worker_index and start_time <= time and start_time + strategy.runtime > time"),
                           ("placed", "worker_id == worker_index and start_time <= time and start_time + self._task.remaining_time > time")):
        forms = {}
        for rel in (GUR, CPX):
            pv, app, inc = _window_formula(ctx, rel, case)
            ctx.analysed_function(f"{rel}::TaskOptimizerVariables.get_partition_variable")
            need = lin.formula(ast.parse(need_src, mode="eval").body)
            ok = lin.entails(inc, need)
            forms[rel] = inc
            if case == "placed" and not ok:
                # reported by C14.R6 with a precise message
                continue
            ctx.check(ok, "C14.R2", f"{rel}::TaskOptimizerVariables.get_partition_variable|window not wider than the run ({case} task)", loc(app), lin.show(inc)[:140],
                      f"a cell is counted at a time outside its run or on another worker (included iff {lin.show(inc)[:160]}): feasible packings are ruled out")
        ok = lin.equivalent(forms[GUR], forms[CPX])
        ctx.check(ok, "C14.R2", f"TetriSched Gurobi vs CPLEX|same occupancy window ({case} task)", f"{GUR}:1", "sibling formulations agree",
                  f"the two formulations use different windows: {lin.show(forms[GUR])[:100]} vs {lin.show(forms[CPX])[:100]}")


def r3_capacity_bound(ctx: Context) -> None:
    ctx.rule("C14.R3", "capacity constraint bound is exactly the worker's quantity; strategies with zero request add no term")
    for rel, cname, addc in ((ILP, "ILPScheduler", "addConstr"), (GUR, "TetriSchedGurobiScheduler", "addConstr"), (CPX, "TetriSchedCPLEXScheduler", "add_constraint")):
        fn = method(ctx.repo.mod(rel).cls(cname), "_add_resource_constraints")
        cmps = [x for c in calls_in(fn, addc) for x in ast.walk(c) if isinstance(x, ast.Compare) and "quantity" in norm(x.comparators[0])]
        key = f"{rel}::{cname}._add_resource_constraints"
        if not cmps:
            ctx.violation("C14.R3", key + "|capacity comparison", loc(fn), "no capacity constraint found")
            continue
        x = cmps[0]
        rl = lin.lin_of(x.comparators[0])
        ok = isinstance(x.ops[0], ast.LtE) and rl.terms == {"quantity": 1} and rl.const == 0
        ctx.check(ok, "C14.R3", key + "|bound is exactly `<= quantity`", loc(x), norm(x)[:80], f"capacity is constrained as `{norm(x)[:80]}`: part of the worker is unusable")
        skips = [i for i in ast.walk(fn) if isinstance(i, ast.If) and isinstance(i.test, ast.Compare) and norm(i.test.comparators[0]) == "0"
                 and isinstance(i.test.ops[0], ast.Eq) and any(isinstance(y, ast.Continue) for y in i.body) and ("request" in norm(i.test.left) or "reqs" in norm(i.test.left))]
        ctx.check(bool(skips), "C14.R3", key + "|zero-request strategies contribute nothing", loc(fn), f"{len(skips)} skip(s)",
                  "strategies that do not use a resource still occupy it in the model")
        # the quantity comes from the totals of the worker (not the currently available amount)
        rcls = ctx.repo.mod("workload/resources.py").cls("Resources")
        gu = method(rcls, "get_unique_resource_types")
        ok = any(call_name(c) == "get_total_quantity" for c in calls_in(gu))
        ctx.check(ok, "C14.R3", "Resources.get_unique_resource_types|totals per resource type", loc(gu), "get_total_quantity", "capacity uses available instead of total quantities")


def r4_no_gap(ctx: Context) -> None:
    c10.r6_indicator_pairs(ctx, rule="C14.R4o", gap_rule="C14.R4")
    ctx.rule("C14.R4", "ILP indicator pairs leave no infeasible gap between the two ranges")
    # touching intervals: task 1 may start exactly when task 2 ends
    fn = method(ctx.repo.mod(ILP).cls("ILPScheduler"), "_overlaps")
    groups = c10.indicator_pairs(fn)
    for k, calls in groups.items():
        if len(calls) == 2 and "starts_after" in k:
            one = [c for c in calls if isinstance(c.args[1], ast.Constant) and c.args[1].value == 1][0]
            rhs = lin.lin_of(one.args[4])
            # e = s1 - s2 - r2 >= 1 means s1 >= s2 + r2 + 1; the property allows s1 >= s2 + r2; a threshold above 1 is over-tight
            ctx.check(rhs.is_const() and rhs.const <= 1, "C14.R4", f"{ILP}::ILPScheduler._overlaps|no idle slot forced between consecutive tasks beyond the integer step",
                      loc(one), f"threshold {rhs.const}", f"tasks on one worker must be separated by {rhs.const} time units")


def r5_rewards(ctx: Context) -> None:
    ctx.rule("C14.R5", "every cell is rewarded with a strictly positive coefficient and the objective is maximised")
    for rel in (GUR, CPX):
        init = method(ctx.repo.mod(rel).cls("TaskOptimizerVariables"), "__init__")
        interps = [c for c in calls_in(init, "interp")]
        key = f"{rel}::TaskOptimizerVariables.__init__"
        ctx.floor("C14.R5", f"np.interp in {rel}", len(interps), 1)
        c = interps[0]
        rng = c.args[2] if len(c.args) > 2 else None
        ok = isinstance(rng, ast.Tuple) and all(isinstance(e, ast.Constant) and isinstance(e.value, (int, float)) and e.value > 0 for e in rng.elts)
        dec = ok and rng.elts[0].value >= rng.elts[1].value
        ctx.check(ok and dec, "C14.R5", key + "|placement rewards interpolated onto a positive, non-increasing interval", loc(c), norm(rng) if rng is not None else "?",
                  f"rewards are interpolated onto `{norm(rng) if rng is not None else '?'}`: a placement can have zero/negative reward and be left out")
        ok2 = norm(c.args[0]) == "time_range" and "min(time_range)" in norm(c.args[1]) and "max(time_range)" in norm(c.args[1])
        ctx.check(ok2, "C14.R5", key + "|rewards defined for every slot of the time range", loc(c), "ok", "reward table does not cover the time range")
    # Gurobi objective
    ob = method(ctx.repo.mod(GUR).cls("TetriSchedGurobiScheduler"), "_add_objective")
    ext = [c for c in calls_in(ob, "extend")]
    ok = False
    if ext and isinstance(ext[0].args[0], ast.ListComp):
        lc = ext[0].args[0]
        ok = "_placement_rewards[t] * value" in norm(lc.elt) and "space_time_matrix.items()" in norm(lc.generators[0].iter) and not lc.generators[0].ifs
    so = [c for c in calls_in(ob, "setObjective")]
    ok = ok and bool(so) and any(k.arg == "sense" and norm(k.value).endswith("MAXIMIZE") for k in so[0].keywords)
    ctx.check(ok, "C14.R5", f"{GUR}::TetriSchedGurobiScheduler._add_objective|maximise sum(reward[t] * cell) over every cell", loc(ob), "ok",
              "some cells are not rewarded or the objective is not maximised")
    # the only tasks excluded from the reward are non-sink tasks under release_taskgraphs
    conts = [i for i in ast.walk(ob) if isinstance(i, ast.If) and any(isinstance(x, ast.Continue) for x in i.body)]
    ok = all("self.release_taskgraphs" in norm(i.test) and "is_sink_task" in norm(i.test) for i in conts)
    ctx.check(ok, "C14.R5", f"{GUR}::TetriSchedGurobiScheduler._add_objective|only non-sink tasks of released task graphs are unrewarded", loc(ob), "ok",
              "tasks are excluded from the reward under another condition")
    # CPLEX: reward variable tied to every cell, maximised
    init = method(ctx.repo.mod(CPX).cls("TaskOptimizerVariables"), "__init__")
    apps = [c for c in calls_in(init, "append") if norm(c.func.value) == "reward"]
    ok = False
    if apps:
        t = norm(apps[0].args[0])
        lp = parent(apps[0])
        while lp is not None and not isinstance(lp, ast.For):
            lp = parent(lp)
        ok = all(s in t for s in ("task_reward", "placement_rewards[start_time]", "variable")) and lp is not None \
            and norm(lp.iter) == "self._space_time_strategy_matrix.items()" and not any(isinstance(x, (ast.If, ast.Continue)) for x in ast.walk(lp))
    cons = [c for c in calls_in(init, "add_constraint") if "reward" in norm(c)]
    ok = ok and any("self._reward_variable == optimizer.sum(reward)" in norm(c) for c in cons)
    ctx.check(ok, "C14.R5", f"{CPX}::TaskOptimizerVariables.__init__|reward = sum(task_reward * reward[t] * cell) over every cell", loc(init), "ok",
              "the CPLEX reward does not cover every cell")
    rv = [c for c in calls_in(init, "continuous_var") if "reward" in norm(c)]
    okb = False
    if rv:
        kw = {k.arg: k.value for k in rv[0].keywords}
        ub = lin.lin_of(kw["ub"]) if "ub" in kw else None
        # the largest coefficient is 2 * task_reward: the bound must not be below it
        okb = ub is not None and ub.terms.get("task_reward", 0) >= 2 and lin.lin_of(kw.get("lb", ast.Constant(value=0))).const <= 0
    ctx.check(okb, "C14.R5", f"{CPX}::TaskOptimizerVariables.__init__|reward variable bound admits the largest reward", loc(rv[0]) if rv else loc(init), "ub >= 2 * task_reward",
              "the reward variable's upper bound is below the reward of the earliest slot: that slot becomes infeasible")
    ob = method(ctx.repo.mod(CPX).cls("TetriSchedCPLEXScheduler"), "_add_objective")
    ok = any(call_name(c) == "maximize" and "task_variable.reward" in norm(c) and "tasks_to_variables.values()" in norm(c) for c in calls_in(ob))
    ctx.check(ok, "C14.R5", f"{CPX}::TetriSchedCPLEXScheduler._add_objective|maximise the sum of every task's reward", loc(ob), "ok", "objective changed")
    # ILP goodput objective
    ob = method(ctx.repo.mod(ILP).cls("ILPScheduler"), "_add_objective")
    so = [c for c in calls_in(ob, "setObjective")]
    ok = any(any(k.arg == "sense" and norm(k.value).endswith("MAXIMIZE") for k in c.keywords) and "task_graph_reward_variables.values()" in norm(c) for c in so)
    ands = [c for c in calls_in(ob, "addGenConstrAnd")]
    ok = ok and bool(ands) and norm(ands[0].args[0]) == "task_graph_reward_variable" and norm(ands[0].args[1]) == "task_reward_variables"
    tie = [c for c in calls_in(ob, "addConstr") if "task_reward_variable == gp.quicksum(variables_for_reward_task)" in norm(c)]
    ctx.check(ok and bool(tie), "C14.R5", f"{ILP}::ILPScheduler._add_objective|graph reward = AND(reward tasks placed); maximise the number of rewarded graphs", loc(ob), "ok",
              "the goodput objective is not the number of task graphs whose reward tasks are all placed")


def r6_running_occupancy(ctx: Context) -> None:
    ctx.rule("C14.R6", "already running tasks occupy their worker only for their remaining time (not for the full runtime of their strategy again)")
    for rel in (GUR, CPX):
        pv, app, inc = _window_formula(ctx, rel, "placed")
        need = lin.formula(ast.parse("start_time <= time and start_time + self._task.remaining_time > time", mode="eval").body)
        ok = lin.entails(inc, need)
        ctx.check(ok, "C14.R6", f"{rel}::TaskOptimizerVariables.get_partition_variable|running task window uses the remaining time", loc(pv),
                  "start <= t < start + remaining time for previously placed tasks",
                  "the cell of a RUNNING task (placed at `now`) is counted for start + strategy.runtime, i.e. the full runtime again from now: the worker is modelled "
                  "busy after the task has really finished and offered tasks that fit in that gap are left unplaced")
    tov = ctx.repo.mod(ILP).cls("TaskOptimizerVariables")
    ov = method(ctx.repo.mod(ILP).cls("ILPScheduler"), "_overlaps")
    durations = [c for c in calls_in(ov, "add") if "placed_on_worker_with_strategy" in norm(c)]
    ctx.floor("C14.R6", "duration terms in ILPScheduler._overlaps", len(durations), 2)
    for c in durations:
        t = c.args[0]
        other = [x for x in (t.left, t.right) if not (isinstance(x, ast.Call) and call_name(x) == "placed_on_worker_with_strategy")] if isinstance(t, ast.BinOp) else []
        ok = len(other) == 1 and isinstance(other[0], ast.Call) and call_name(other[0]) == "occupancy_time"
        if ok:
            ok = _occupancy_method_ok(tov)
        ctx.check(ok, "C14.R6", f"{ILP}::ILPScheduler._overlaps|duration term `{norm(t)[:60]}` is the remaining time for running tasks", loc(c),
                  "occupancy_time(): remaining time if previously placed else the strategy's runtime",
                  "the duration of a RUNNING task in the overlap indicators is its strategy's full runtime counted from now, not its remaining time: tasks that fit after "
                  "it really finishes are treated as overlapping")


def _occupancy_method_ok(tov: ast.ClassDef) -> bool:
    m = methods(tov).get("occupancy_time")
    if m is None:
        return False
    g = cfgmod.build(m)
    rets = [r for r in ast.walk(m) if isinstance(r, ast.Return)]
    tests = [t for t in g.nodes if t.kind == "test" and "previously_placed" in norm(t.ast)]
    if len(rets) != 2 or not tests:
        return False
    p = m.args.args[1].arg
    ok_placed = ok_new = False
    for r in rets:
        l = lin.lin_of(r.value)
        rn = g.node_of(r)
        pos = not (isinstance(tests[0].ast, ast.UnaryOp))
        if g.edge_dominates(tests[0], "T" if pos else "F", rn):
            ok_placed = l == lin.lin_of(ast.parse("self._task.remaining_time", mode="eval").body)
        else:
            ok_new = l == lin.lin_of(ast.parse(f"{p}.runtime", mode="eval").body)
    return ok_placed and ok_new


SOLVE_CALLS = {"schedulers/ilp_scheduler.py": ("ILPScheduler", "optimize"), "schedulers/tetrisched_gurobi_scheduler.py": ("TetriSchedGurobiScheduler", "optimize"),
               "schedulers/tetrisched_cplex_scheduler.py": ("TetriSchedCPLEXScheduler", "solve")}


def r9_model_built_when_work_is_offered(ctx: Context) -> None:
    from .c06 import _canon_quantifiers
    ctx.rule("C14.R9", "schedule() builds and solves the model whenever the offer is non-empty and holds a task that is not already "
                       "SCHEDULED: every test controlling the solve call is implied by that condition (no offered task is silently "
                       "left out of the optimisation)")
    n = 0
    for rel, (cname, solve) in SOLVE_CALLS.items():
        fn = method(ctx.repo.mod(rel).cls(cname), "schedule")
        g = cfgmod.build(fn)
        calls = [c for c in calls_in(fn, solve) if isinstance(c.func, ast.Attribute)]
        if not calls:
            raise AnalysisError(f"{rel}: solve call `{solve}` not found in schedule()")
        sn = g.node_of(calls[0])
        for t in g.nodes:
            if t.kind != "test":
                continue
            pol = "T" if g.edge_dominates(t, "T", sn) else ("F" if g.edge_dominates(t, "F", sn) else None)
            if pol is None:
                continue
            # the offered list tested here
            lists = {norm(x.args[0]) for x in ast.walk(t.ast) if isinstance(x, ast.Call) and call_name(x) == "len" and x.args}
            lists |= {norm(gq.iter) for x in ast.walk(t.ast) if isinstance(x, (ast.GeneratorExp, ast.ListComp)) for gq in x.generators}
            if not lists or not any("task" in l for l in lists):
                continue
            n += 1
            lst = sorted(lists)[0]
            f = lin.formula(_canon_quantifiers(t.ast))
            f = f if pol == "T" else lin.f_not(f)
            want_ast = ast.parse(f"len({lst}) >= 1 and not __Q__", mode="eval").body
            from .c06 import _Rename
            want_ast = _Rename("__Q__", f"ALL(_p.state == TaskState.SCHEDULED | {lst})").visit(want_ast)
            want = lin.formula(want_ast)
            try:
                ok = lin.entails(want, f)
            except ValueError:
                ok = False
            ctx.check(ok, "C14.R9", f"{rel}::{cname}.schedule|model solved whenever an unscheduled task is offered", loc(t.ast),
                      f"guard `{norm(t.ast)[:70]}` is implied",
                      f"the model is only built under `{norm(t.ast)[:120]}` ({'true' if pol == 'T' else 'false'} branch): an invocation that is "
                      "offered a new task together with other tasks can skip the optimisation, so the returned plan leaves out a task that "
                      "could be added")
    ctx.floor("C14.R9", "offer-dependent guards of the solve call", n, 1)


def r10_capacity_by_type(ctx: Context) -> None:
    ctx.rule("C14.R10", "Resources.get_unique_resource_types (the per-type capacity every planner bounds its constraints with) stores "
                        "under each `any` key the total of that same key: value = get_total_quantity(<the key>)")
    from ..anchors import RESOURCES
    fn = method(ctx.repo.mod(RESOURCES).cls("Resources"), "get_unique_resource_types")
    stores = [a for a in ast.walk(fn) if isinstance(a, ast.Assign) and isinstance(a.targets[0], ast.Subscript)]
    ctx.floor("C14.R10", "stores in get_unique_resource_types", len(stores), 1)
    for a in stores:
        k = norm(a.targets[0].slice)
        v = a.value
        if isinstance(v, ast.Name):  # hoisted into a local
            vd = [d for d in ast.walk(fn) if isinstance(d, ast.Assign) and isinstance(d.targets[0], ast.Name) and d.targets[0].id == v.id]
            if len(vd) == 1:
                v = vd[0].value
        ok = isinstance(v, ast.Call) and call_name(v) in ("get_total_quantity",) and v.args and norm(v.args[0]) == k
        kd = [d for d in ast.walk(fn) if isinstance(d, ast.Assign) and isinstance(d.targets[0], ast.Name) and d.targets[0].id == k]
        okk = bool(kd) and isinstance(kd[0].value, ast.Call) and call_name(kd[0].value) == "Resource" and any(
            kw.arg == "_id" and isinstance(kw.value, ast.Constant) and kw.value.value == "any" for kw in kd[0].value.keywords)
        ctx.check(ok and okk, "C14.R10", "Resources.get_unique_resource_types|capacity of a type = total over all its instances", loc(a),
                  f"[{k}] = get_total_quantity({k})", f"`{norm(a)[:90]}`: the capacity recorded for the type is not the total of the wildcard key "
                  "(one instance's quantity instead of the sum): planners under-fill workers that list a type as several instances")


def r11_overlap_terms_same_task(ctx: Context) -> None:
    ctx.rule("C14.R11", "ILP overlap indicators: every term accumulated in a loop over `task_k`'s strategies refers to `task_k` only "
                        "(placement variable and occupancy time of the same task)")
    fn = method(ctx.repo.mod("schedulers/ilp_scheduler.py").cls("ILPScheduler"), "_overlaps")
    import re
    n = 0
    for lp in [x for x in ast.walk(fn) if isinstance(x, ast.For)]:
        m = re.match(r"(task_\d)\.task\.available_execution_strategies", norm(lp.iter))
        if not m:
            continue
        owner = m.group(1)
        for c in calls_in(lp, "add"):
            n += 1
            others = sorted({x.id for x in ast.walk(c) if isinstance(x, ast.Name) and re.fullmatch(r"task_\d", x.id) and x.id != owner})
            ctx.check(not others, "C14.R11", f"ILPScheduler._overlaps|term of {owner} `{norm(c.args[0])[:50] if c.args else ''}`", loc(c), "same task",
                      f"a term summed over the strategies of `{owner}` reads {others}: the end time of `{owner}` is built from another task's "
                      "occupancy time (a RUNNING task then blocks its worker for its full runtime again, or too briefly)")
    ctx.floor("C14.R11", "per-strategy terms in _overlaps", n, 2)


def run(ctx: Context) -> None:
    ctx.isolate(r1_gating_exact)
    ctx.isolate(r2_occupancy_not_wider)
    ctx.isolate(r3_capacity_bound)
    ctx.isolate(r4_no_gap)
    ctx.isolate(r5_rewards)
    ctx.isolate(r6_running_occupancy)
    ctx.isolate(c10.r5c_compat_on_cleared_worker, rule="C14.R7")
    ctx.isolate(c12.r1_admission, _alias={"C12.R1": "C14.R8"})
    ctx.isolate(r9_model_built_when_work_is_offered)
    ctx.isolate(r10_capacity_by_type)
    ctx.isolate(r11_overlap_terms_same_task)
    ctx.isolate(c10.r7_config_not_rewritten, rule="C14.R12")
