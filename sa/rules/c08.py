"""C08 — The CSV trace and end-of-run counters tell the truth about the run."""
from __future__ import annotations

import ast
import re
from typing import Dict, List, Optional, Set, Tuple

from .. import cfg as cfgmod
from .. import lin
from ..anchors import SIM, TASKS, WORKLOAD, Sim, csv_calls
from ..core import (
    AnalysisError,
    call_name,
    calls_in,
    dotted,
    enclosing_class,
    enclosing_function,
    is_self_attr,
    loc,
    mangle,
    method,
    methods,
    norm,
    parent,
    qualname,
    resolve_local,
    src,
)
from ..csvschema import Row, Use, reader_cases, row_of, triple_elements
from ..report import Context

READER = "data/csv_reader.py"
TYPES = "data/csv_types.py"

EXPLANATION = (
    "Static writer/reader agreement for the CSV trace: the column list of every row the simulator can emit "
    "during a run (sites reachable from Simulator.__init__/simulate, f-string and %-style alike) is extracted "
    "and compared with every column index the project's CSVReader uses for that tag (followed into the "
    "update_* helpers of data/csv_types.py): the index exists, and the field the reader binds has the same "
    "role as the writer's expression (frozen role table); resource-triple tails start where the reader's "
    "range starts; unknown tags reach the reader's tolerant branch; constructor keywords and self-attribute "
    "reads on the reader's parse path exist; every run counter has exactly one `+= 1` site, in the handler "
    "that writes the matching row and under the matching guard; the scheduler row's placed/unplaced counts "
    "are computed with the placed / not-placed predicates; deadline-miss guards are strict comparisons of "
    "completion time against the deadline; the cancelled-graph census appends exactly the cancelled graphs. "
    "NOT decided: that the rows of a whole run match ground truth numerically, nor the reader's end-of-parse "
    "assertions on arbitrary runs."
)
ASSUMPTIONS = [
    "the role tables (writer expression -> role, reader binding -> role) are frozen from reading the code; an "
    "expression or binding outside the tables stops the check with ANALYSIS-ERROR rather than guessing",
    "rows are comma-joined without quoting; task/graph names contain no commas",
]

# ---------------------------------------------------------------------------
# role tables
# ---------------------------------------------------------------------------

def canon_writer(text: str) -> str:
    t = text.replace(".to(EventTime.Unit.US)", "")
    if t.endswith(".time") and re.search(r"(time|deadline|runtime|tardiness)$", t[:-5]):
        t = t[:-5]
    return t


WRITER_ROLES: List[Tuple[str, str]] = [
    (r"^(event\.time|sim_time|time|self\._simulator_time)$", "time"),
    (r"(^|\.)task\.name$", "task.name"),
    (r"(^|\.)task\.task_graph$", "graph.name"),
    (r"^task_graph\.name$", "graph.name"),
    (r"(^|\.)task\.timestamp$", "task.timestamp"),
    (r"(^|\.)task\.id$", "task.id"),
    (r"^worker_pool\.id$|(^|\.)placement\.worker_pool_id$", "pool.id"),
    (r"old_worker_pool$", "pool.id(previous)"),
    (r"^worker_pool\.name$", "pool.name"),
    (r"(^|\.)task\.intended_release_time$", "task.intended_release"),
    (r"(^|\.)task\.release_time$", "task.release"),
    (r"^task_graph\.release_time$", "graph.release"),
    (r"(^|\.)task\.deadline$", "task.deadline"),
    (r"^task_graph\.deadline$", "graph.deadline"),
    (r"(^|\.)task\.completion_time$", "task.completion"),
    (r"slowest_execution_strategy\.runtime$", "slowest_runtime"),
    (r"(^|\.)placement\.execution_strategy\.runtime$", "strategy_runtime"),
    (r"(^|\.)placement\.placement_time$", "placement_time"),
    (r"^len\(schedulable_tasks\)$", "n_schedulable"),
    (r"^len\(currently_placed_tasks\)$", "n_placed_now"),
    (r"^scheduler_runtime$", "sched_runtime"),
    (r"^num_placed$", "num_placed"),
    (r"^num_unplaced$", "num_unplaced"),
    (r"true_runtime$", "sched_true_runtime"),
    (r"^self\._finished_tasks$", "finished_tasks"),
    (r"^self\._cancelled_tasks$", "cancelled_tasks"),
    (r"^self\._missed_task_deadlines$", "missed_task_deadlines"),
    (r"^self\._finished_task_graphs$", "finished_graphs"),
    (r"^len\(self\._workload\.get_cancelled_task_graphs\(\)\)$", "cancelled_graphs"),
    (r"^self\._missed_task_graph_deadlines$", "missed_graph_deadlines"),
    (r"^len\(task_graph\.get_nodes\(\)\)$", "num_tasks"),
    (r"critical_path_runtime$", "critical_path"),
    (r"^tardiness$", "tardiness"),
    (r"^resource_name$", "resource.name"),
    (r"get_allocated_quantity\(resource\)$", "allocated"),
    (r"get_available_quantity\(resource\)$", "available"),
    (r"^len\(self\._workload\.task_graphs\)$", "n_graphs"),
    (r"^len\(releasable_tasks\)$", "n_releasable"),
]

READER_ROLES: Dict[str, str] = {
    "key:tasks": "task.id", "key:task_graphs": "graph.name", "key:worker_pools": "pool.id",
    "kw:Task.name": "task.name", "kw:Task.task_graph": "graph.name", "kw:Task.task_id": "task.id",
    "kw:Task.timestamp": "task.timestamp", "kw:Task.intended_release_time": "task.intended_release",
    "kw:Task.release_time": "task.release", "kw:Task.deadline": "task.deadline",
    "kw:Task.slowest_execution_time": "slowest_runtime",
    "kw:TaskGraph.name": "graph.name", "kw:TaskGraph.release_time": "graph.release",
    "kw:TaskGraph.deadline": "graph.deadline", "kw:TaskGraph.num_tasks": "num_tasks",
    "kw:TaskGraph.critical_path_time": "critical_path",
    "kw:Simulator.start_time": "time", "kw:Scheduler.start_time": "time",
    "kw:Scheduler.released_tasks": "n_schedulable", "kw:Scheduler.previously_placed_tasks": "n_placed_now",
    "assign:self.end_time": "time", "assign:self.finished_tasks": "finished_tasks",
    "assign:self.dropped_tasks": "cancelled_tasks", "assign:self.missed_deadlines": "missed_task_deadlines",
    "assign:self.finished_task_graphs": "finished_graphs", "assign:self.dropped_taskgraphs": "cancelled_graphs",
    "assign:self.missed_taskgraphs": "missed_graph_deadlines",
    "assign:self.num_placed_tasks": "num_placed", "assign:self.num_unplaced_tasks": "num_unplaced",
    "assign:self.true_runtime": "sched_true_runtime",
    "assign:self.completion_time": "task.completion",
    "assign:self.deadline_miss_detected_at": "time", "assign:placement_time": "time",
    "kw:WorkerPoolUtilization.resource_name": "resource.name", "kw:WorkerPoolUtilization.simulator_time": "time",
    "kw:WorkerPoolUtilization.allocated_quantity": "allocated", "kw:WorkerPoolUtilization.available_quantity": "available",
    "kw:WorkerPool.name": "pool.name", "kw:WorkerPool.id": "pool.id",
    "kw:Placement.task_name": "task.name", "kw:Placement.task_id": "task.id", "kw:Placement.task_graph": "graph.name",
    "kw:Placement.deadline": "task.deadline", "kw:Placement.worker_pool": "pool.id", "kw:Placement.timestamp": "task.timestamp",
}
# per-tag overrides: the same binding text means different things for different rows
READER_ROLES_BY_TAG: Dict[Tuple[str, str], object] = {
    ("SCHEDULER_FINISHED", "assign:self.runtime"): "sched_runtime",
    ("TASK_PLACEMENT", "assign:self.runtime"): "strategy_runtime",
    ("TASK_FINISHED", "assign:self.placements[-1].completion_time"): "task.completion",
    ("TASK_FINISHED", "assignexpr:self.slack"): "task.completion",  # slack = deadline - <completion column> read directly
    ("TASK_PREEMPT", "assign:self.placements[-1].completion_time"): "time",
    ("TASK_SKIP", "arg:append"): "time",
    ("TASK_SCHEDULED", "kw:Placement.placement_time"): "placement_time",
    ("TASK_MIGRATED", "kw:Placement.placement_time"): "time",
    ("TASK_SCHEDULED", "kwexpr:Placement.completion_time"): {"placement_time", "strategy_runtime"},
    ("TASK_RELEASE", "kwexpr:Task.window_to_execute"): {"task.deadline", "task.release"},
    ("TASK_CANCEL", "assign:tasks[reading[4]].cancelled_at"): "time",
    ("TASK_CANCEL", "assign:task_graphs[reading[5]].cancelled_at"): "time",
    ("TASK_GRAPH_FINISHED", "assign:task_graphs[reading[2]].completion_at"): "time",
    ("MISSED_TASK_GRAPH_DEADLINE", "assign:task_graphs[reading[2]].deadline_miss_detected_at"): "time",
}
IGNORED_BINDINGS = {"compare", "other:AugAssign"}


def writer_role(text: str) -> Optional[str]:
    c = canon_writer(text)
    for pat, role in WRITER_ROLES:
        if re.search(pat, c):
            return role
    return None


def _resolve_local(row: Row, col_expr: ast.AST) -> ast.AST:
    """A plain local name defined once in the function by a simple expression -> that expression."""
    if isinstance(col_expr, ast.Name) and row.func is not None:
        defs = [n for n in ast.walk(row.func) if isinstance(n, ast.Assign) and len(n.targets) == 1
                and isinstance(n.targets[0], ast.Name) and n.targets[0].id == col_expr.id]
        if len(defs) == 1 and isinstance(defs[0].value, (ast.Attribute, ast.Name)):
            return defs[0].value
    return col_expr


def reachable_sim_methods(sim: Sim) -> Set[str]:
    """Methods of Simulator reachable from __init__ / simulate through self.<m>() calls."""
    seen: Set[str] = set()
    work = ["__init__", "simulate"]
    names = set(sim.methods)
    while work:
        m = work.pop()
        if m in seen or m not in sim.methods:
            continue
        seen.add(m)
        for n in ast.walk(sim.methods[m]):
            if isinstance(n, ast.Attribute) and is_self_attr(n) and n.attr in names:
                work.append(n.attr)
    return seen


def run_rows(ctx: Context) -> Tuple[List[Row], Sim]:
    sim = Sim(ctx.repo)
    reach = reachable_sim_methods(sim)
    rows: List[Row] = []
    skipped = []
    for c in csv_calls(sim.cls):
        fn = enclosing_function(c)
        top = fn
        while top is not None and enclosing_function(top) is not None:
            top = enclosing_function(top)
        if top is not None and top.name in reach:
            rows.append(row_of(c))
        else:
            skipped.append(f"{loc(c)} in {top.name if top else '?'} (not reachable from a run)")
    ctx.extra["writer_sites_skipped"] = skipped
    return rows, sim


def r1_r2_schema(ctx: Context) -> None:
    ctx.rule("C08.R1", "every column index the reader uses for a tag exists in every row written with that tag "
                       "and carries the quantity the reader binds it to")
    ctx.rule("C08.R2", "every written tag is handled or reaches the reader's tolerant branch; input_flag rows pass")
    rows, sim = run_rows(ctx)
    ctx.floor("C08.R1", "run-reachable CSV emission sites", len(rows), 22)
    uses, extra, parse_fn = reader_cases(ctx.repo.mod(READER), ctx.repo.mod(TYPES))
    by_tag: Dict[str, List[Row]] = {}
    for r in rows:
        if r.tag == "?":
            raise AnalysisError(f"csv row without a literal tag in column 1 at {loc(r.call)}")
        by_tag.setdefault(r.tag, []).append(r)
    ctx.floor("C08.R1", "distinct written tags", len(by_tag), 21)
    ctx.extra["rows"] = [r.describe() for r in rows]
    n_uses = 0
    for tag, ulist in uses.items():
        if tag.startswith("@0:"):
            continue
        wrows = by_tag.get(tag, [])
        if not wrows:
            ctx.note(f"reader handles tag {tag} that no run-reachable site writes")
            continue
        for u in ulist:
            if u.binding in IGNORED_BINDINGS:
                # still must exist
                for r in wrows:
                    fixed = [c for c in r.cols if c.kind != "tail"]
                    ctx.check(u.index < len(fixed) or any(c.kind == "tail" for c in r.cols), "C08.R1",
                              f"{tag}[{u.index}] exists ({loc(r.call)})", loc(u.node), "column exists",
                              f"reader uses column {u.index} of {tag} but the row written at {loc(r.call)} has {len(fixed)} columns")
                if u.binding == "compare":
                    # a membership/equality test on an id column: same role as the key use of the same index
                    pass
                else:
                    continue
            n_uses += 1
            want = None
            for alt in u.binding.split("||"):
                want = READER_ROLES_BY_TAG.get((tag, alt), READER_ROLES.get(alt))
                if want is not None:
                    break
            if u.binding == "compare":
                # `reading[i] in tasks` / `not in tasks`
                cmpn = parent(u.node)
                tgt = norm(cmpn.comparators[0]) if isinstance(cmpn, ast.Compare) else ""
                want = {"tasks": "task.id", "task_graphs": "graph.name", "worker_pools": "pool.id"}.get(tgt)
                if want is None:
                    continue
            if want is None:
                raise AnalysisError(f"reader binding `{u.binding}` for {tag}[{u.index}] at {loc(u.node)} is not in the role table")
            for r in wrows:
                fixed_n = next((i for i, c in enumerate(r.cols) if c.kind == "tail"), len(r.cols))
                key = f"{tag}[{u.index}] -> {u.binding} ({qualname(r.call)})"
                if u.index >= fixed_n:
                    ctx.violation("C08.R1", key, loc(u.node),
                                  f"reader reads column {u.index} of {tag}, but the row written at {loc(r.call)} has only "
                                  f"{fixed_n} fixed columns")
                    continue
                col = r.cols[u.index]
                if col.kind == "lit":
                    have = "time" if u.index == 0 else f"literal:{col.text}"
                    if u.index == 0 and col.text.lstrip("-").isdigit():
                        have = "time"
                elif col.kind == "expr":
                    e = _resolve_local(r, col.expr)
                    have = writer_role(norm(e))
                    if have is None:
                        raise AnalysisError(f"writer expression `{col.text}` of {tag}[{u.index}] at {loc(r.call)} is not in the role table")
                else:
                    have = f"{col.kind}:{col.text}"
                ok = have in want if isinstance(want, set) else have == want
                ctx.check(ok, "C08.R1", key, loc(u.node), f"column {u.index} is {have}",
                          f"reader binds column {u.index} of {tag} as {want} ({u.binding}) but the simulator writes "
                          f"`{col.text}` ({have}) there (row at {loc(r.call)})")
                if u.conv == "int":
                    int_ok = have not in ("task.name", "graph.name", "task.id", "pool.id", "pool.name", "resource.name")
                    ctx.check(int_ok, "C08.R1", key + " int()", loc(u.node), "numeric column",
                              f"reader applies int() to column {u.index} of {tag} which holds {have}")
        # tails
        ex = extra.get(tag, {})
        if "tail_start" in ex:
            for r in wrows:
                ti = next((i for i, c in enumerate(r.cols) if c.kind == "tail"), None)
                key = f"{tag} resource tail ({qualname(r.call)})"
                if ti is None:
                    ctx.violation("C08.R1", key, loc(r.call), f"reader parses resource triples from column {ex['tail_start']} "
                                  f"of {tag} but the row has no triple tail")
                    continue
                elems = triple_elements(r.func, r.cols[ti].text) or []
                ok = ti == ex["tail_start"] and ex.get("tail_step") == 3 and ti == len(r.cols) - 1
                ctx.check(ok, "C08.R1", key, loc(r.call), f"triples start at column {ti}",
                          f"{tag}: triples are written from column {ti} but the reader reads from column {ex['tail_start']}")
                good_elems = len(elems) == 3 and elems[0].endswith(".name") and elems[1].endswith(".id") and "quantity" in elems[2]
                ctx.check(good_elems, "C08.R1", key + " element order", loc(r.call), "(name, id, quantity)",
                          f"{tag}: triples are written as {elems}; the reader's Resource(name, id, quantity) expects name,id,quantity")
    ctx.count("reader_column_uses", n_uses)
    ctx.floor("C08.R1", "reader column uses compared", n_uses, 80)
    ctx.sample({"rows": [r.describe() for r in rows[:3]]})
    # R2
    handled = {t for t in uses if not t.startswith("@0:")}
    chain_else_ok = _tolerant_else(parse_fn)
    for tag, wrows in by_tag.items():
        if tag in handled:
            ctx.ok("C08.R2", f"tag {tag} handled", loc(wrows[0].call), "reader case exists")
        else:
            ctx.check(chain_else_ok, "C08.R2", f"tag {tag} tolerated", loc(wrows[0].call), "falls to the non-raising else",
                      f"rows tagged {tag} are not handled and the reader's fallback raises")
    # every written row has at least 2 columns (reading[1] is evaluated for every row)
    for r in rows:
        ctx.check(len(r.cols) >= 2, "C08.R2", f"row at {qualname(r.call)}|{r.tag} has a tag column", loc(r.call), "ok",
                  "row with fewer than two columns makes the reader raise")
    # input_flag rows from main.py
    main = ctx.repo.mod("main.py")
    flag_rows = [row_of(c) for c in csv_calls(main.tree)]
    for fr in flag_rows:
        ok = len(fr.cols) >= 2 and fr.cols[0].kind == "lit" and "@0:" + fr.cols[0].text in uses
        ctx.check(ok, "C08.R2", f"main.py row `{fr.cols[0].text}` accepted", loc(fr.call), "reader skips it",
                  f"main.py writes a `{fr.cols[0].text}` row the reader does not accept")


def _tolerant_else(parse_fn: ast.FunctionDef) -> bool:
    """The final else of the tag chain does not raise."""
    chain = [n for n in ast.walk(parse_fn) if isinstance(n, ast.If) and isinstance(n.test, ast.Compare)
             and isinstance(n.test.left, ast.Subscript) and not (isinstance(parent(n), ast.If) and n in parent(n).orelse)]
    if not chain:
        return False
    node = chain[0]
    while len(node.orelse) == 1 and isinstance(node.orelse[0], ast.If):
        node = node.orelse[0]
    return not any(isinstance(x, ast.Raise) for s in node.orelse for x in ast.walk(s))


# ---------------------------------------------------------------------------
# R3 keyword / attribute agreement on the reader's parse path
# ---------------------------------------------------------------------------

def _dataclass_fields(cls: ast.ClassDef) -> Tuple[List[str], List[str], Set[str]]:
    """(init field names in order, required ones, all attribute names incl. properties/methods)."""
    init_fields, required, names = [], [], set()
    is_dc = any((isinstance(d, ast.Name) and d.id == "dataclass") or (isinstance(d, ast.Call) and call_name(d) == "dataclass")
                for d in cls.decorator_list)
    for s in cls.body:
        if isinstance(s, ast.AnnAssign) and isinstance(s.target, ast.Name):
            names.add(s.target.id)
            init = True
            has_default = s.value is not None
            if isinstance(s.value, ast.Call) and call_name(s.value) == "field":
                for kw in s.value.keywords:
                    if kw.arg == "init" and isinstance(kw.value, ast.Constant) and kw.value.value is False:
                        init = False
                has_default = any(kw.arg in ("default", "default_factory") for kw in s.value.keywords)
            if init and is_dc:
                init_fields.append(s.target.id)
                if not has_default:
                    required.append(s.target.id)
        elif isinstance(s, (ast.FunctionDef, ast.AsyncFunctionDef)):
            names.add(s.name)
            if s.name == "__init__":
                init_fields = [a.arg for a in s.args.args[1:]]
                nd = len(s.args.defaults)
                required = init_fields[: len(init_fields) - nd] if nd else list(init_fields)
            for n in ast.walk(s):
                if isinstance(n, (ast.Assign, ast.AugAssign, ast.AnnAssign)):
                    ts = n.targets if isinstance(n, ast.Assign) else [n.target]
                    for t in ts:
                        if is_self_attr(t):
                            names.add(t.attr)
    return init_fields, required, names


def r3_keywords(ctx: Context) -> None:
    ctx.rule("C08.R3", "on the reader's parse path every constructor keyword exists (and required fields are "
                       "supplied) and every self.<attr> read exists on the csv_types class")
    types = ctx.repo.mod(TYPES)
    reader = ctx.repo.mod(READER)
    classes = {c.name: c for c in types.tree.body if isinstance(c, ast.ClassDef)}
    info = {n: _dataclass_fields(c) for n, c in classes.items()}
    uses, extra, parse_fn = reader_cases(reader, types)
    helpers: Set[str] = set()
    for ex in extra.values():
        helpers |= set(ex.get("helpers", []))
    scopes: List[Tuple[str, ast.AST, Optional[str]]] = [("CSVReader.parse_events", parse_fn, None)]
    for h in sorted(helpers):
        cn, mn = h.split(".")
        scopes.append((h, method(classes[cn], mn), cn))
    for cn, c in classes.items():
        pi = methods(c).get("__post_init__")
        if pi is not None:
            scopes.append((f"{cn}.__post_init__", pi, cn))
    n_calls = 0
    for name, fn, owner in scopes:
        ctx.analysed_function(f"{TYPES if owner else READER}::{name}")
        for c in calls_in(fn):
            cn = call_name(c)
            if cn in info and isinstance(c.func, ast.Name):
                n_calls += 1
                fields, required, _names = info[cn]
                kws = [k.arg for k in c.keywords if k.arg]
                has_star = any(isinstance(a, ast.Starred) for a in c.args) or any(k.arg is None for k in c.keywords)
                key = f"{name}|{cn}({', '.join(sorted(kws))})"
                badkw = [k for k in kws if k not in fields]
                if badkw:
                    ctx.violation("C08.R3", key, loc(c), f"`{cn}(...)` is called with keyword(s) {badkw} that {cn} does not have "
                                  f"(fields: {fields}): the reader raises on this row")
                    continue
                supplied = set(kws) | set(fields[: len([a for a in c.args if not isinstance(a, ast.Starred)])])
                missing = [r for r in required if r not in supplied]
                if missing and not has_star:
                    ctx.violation("C08.R3", key, loc(c), f"`{cn}(...)` does not supply required field(s) {missing}")
                else:
                    ctx.ok("C08.R3", key, loc(c), "keywords exist, required fields supplied")
        if owner:
            _f, _r, names = info[owner]
            for n in ast.walk(fn):
                if is_self_attr(n) and isinstance(n.ctx, ast.Load):
                    ctx.check(n.attr in names, "C08.R3", f"{name}|self.{n.attr}", loc(n), "attribute exists",
                              f"`self.{n.attr}` does not exist on csv_types.{owner} (has {sorted(x for x in names if not x.startswith('_'))[:12]}...)")
    ctx.floor("C08.R3", "constructor calls on the parse path", n_calls, 8)


# ---------------------------------------------------------------------------
# R4 counters, R5 scheduler row, R6 miss iff late, R7 census
# ---------------------------------------------------------------------------

COUNTERS = {
    "_finished_tasks": ("TASK_FINISHED", "TASK_FINISHED", None),
    "_cancelled_tasks": ("TASK_CANCEL", "TASK_CANCEL", None),
    "_missed_task_deadlines": ("TASK_FINISHED", "MISSED_DEADLINE", "event.time > event.task.deadline"),
    "_finished_task_graphs": ("TASK_FINISHED", "TASK_GRAPH_FINISHED", None),
    "_missed_task_graph_deadlines": ("TASK_FINISHED", None, "event.time > task_graph.deadline"),
}


# counters that are a per-graph (not per-task) tally: counted only inside the block that reports the graph's completion
COUNTER_WITHIN = {"_missed_task_graph_deadlines": "TASK_GRAPH_FINISHED"}


def r4_counters(ctx: Context) -> None:
    ctx.rule("C08.R4", "each run counter has exactly one `+= 1` site, in the handler that writes the matching row "
                       "and under the same guard; counters start at 0")
    sim = Sim(ctx.repo)
    rows, _ = run_rows(ctx)
    for counter, (handler_et, row_tag, guard_src) in COUNTERS.items():
        sites = [n for n in ast.walk(sim.cls) if isinstance(n, (ast.AugAssign, ast.Assign))
                 and any(is_self_attr(t, counter) for t in (n.targets if isinstance(n, ast.Assign) else [n.target]))]
        incs = [s for s in sites if isinstance(s, ast.AugAssign)]
        inits = [s for s in sites if isinstance(s, ast.Assign)]
        key = f"Simulator.{counter}"
        ctx.check(len(inits) == 1 and enclosing_function(inits[0]).name == "__init__" and isinstance(inits[0].value, ast.Constant)
                  and inits[0].value.value == 0, "C08.R4", key + "|initialised to 0 once", loc(inits[0]) if inits else loc(sim.cls),
                  "= 0 in __init__", f"{counter} is assigned at {[loc(i) for i in inits]}")
        if len(incs) != 1:
            ctx.violation("C08.R4", key + "|exactly one increment site", loc(incs[0]) if incs else loc(sim.cls),
                          f"{counter} is incremented at {len(incs)} sites: {[loc(i) for i in incs]}")
            continue
        inc = incs[0]
        ok_shape = isinstance(inc.op, ast.Add) and isinstance(inc.value, ast.Constant) and inc.value.value == 1
        ctx.check(ok_shape, "C08.R4", key + "|increments by one", loc(inc), "+= 1", f"`{norm(inc)}`")
        h = sim.handler(handler_et)
        inside = enclosing_function(inc) is h
        ctx.check(inside, "C08.R4", key + f"|incremented in the {handler_et} handler", loc(inc), "right handler",
                  f"{counter} is incremented in {qualname(inc)}, not in the {handler_et} handler")
        if not inside:
            continue
        g = cfgmod.build(h)
        incn = g.node_of(inc)
        if row_tag:
            rws = [r for r in rows if r.tag == row_tag and r.func is h]
            if not rws:
                ctx.violation("C08.R4", key + f"|{row_tag} row in the same handler", loc(inc), f"no {row_tag} row in the handler")
            else:
                rn = g.node_of(rws[0].call)
                # same guard: identical dominating branch decisions
                same = _controlling(g, incn) == _controlling(g, rn)
                ctx.check(same, "C08.R4", key + f"|counted exactly when the {row_tag} row is written", loc(inc),
                          "same controlling branches", f"{counter} and the {row_tag} row are controlled by different conditions: "
                          f"{_controlling(g, incn)} vs {_controlling(g, rn)}")
        if counter in COUNTER_WITHIN:
            tag = COUNTER_WITHIN[counter]
            rws = [r for r in rows if r.tag == tag and r.func is h]
            if not rws:
                ctx.violation("C08.R4", key + f"|{tag} row in the same handler", loc(inc), f"no {tag} row in the handler")
            else:
                need = set(_controlling(g, g.node_of(rws[0].call)))
                have = set(_controlling(g, incn))
                ctx.check(need <= have, "C08.R4", key + f"|counted once per graph, where the {tag} row is written", loc(inc),
                          "controlled by the graph-completion branch",
                          f"{counter} is a per-graph tally but is incremented outside the branch that reports the graph's "
                          f"completion (missing controlling decisions: {sorted(need - have)}): it is counted once per late task, "
                          "so SIMULATOR_END reports more late graphs than there are (the CSV reader's own assertion fails)")
        if guard_src:
            want = lin.formula(ast.parse(guard_src, mode="eval").body)
            ctl = _controlling_tests(g, incn)
            ok = any(lin.entails(f, want) for f in ctl)
            ctx.check(ok, "C08.R4", key + f"|guarded by `{guard_src}`", loc(inc), "guard present",
                      f"{counter} is not guarded by `{guard_src}` (controlling: {[lin.show(f) for f in ctl]})")
        elif handler_et in ("TASK_FINISHED", "TASK_CANCEL") and counter in ("_finished_tasks", "_cancelled_tasks"):
            uncond = not g.reachable_from_entry(g.ret, {incn.id})
            ctx.check(uncond, "C08.R4", key + "|counted on every handled event", loc(inc), "unconditional",
                      f"some path through the {handler_et} handler does not count the event")


def _controlling(g: cfgmod.CFG, n: cfgmod.Node) -> List[str]:
    out = []
    for t in g.nodes:
        if t.kind == "test":
            if g.edge_dominates(t, "T", n):
                out.append("T:" + norm(t.ast))
            elif g.edge_dominates(t, "F", n):
                out.append("F:" + norm(t.ast))
    return sorted(out)


def _controlling_tests(g: cfgmod.CFG, n: cfgmod.Node):
    out = []
    for t in g.nodes:
        if t.kind == "test":
            if g.edge_dominates(t, "T", n):
                out.append(lin.formula(t.ast))
            elif g.edge_dominates(t, "F", n):
                out.append(lin.f_not(lin.formula(t.ast)))
    return out


def _count_predicates(fn: ast.FunctionDef, expr: ast.AST, depth: int = 0) -> List[ast.AST]:
    """Predicates of the filter/comprehension that `expr` counts (following one local helper)."""
    preds: List[ast.AST] = []
    for n in ast.walk(expr):
        if isinstance(n, ast.Lambda):
            preds.append(n.body)
        elif isinstance(n, (ast.ListComp, ast.GeneratorExp, ast.SetComp)):
            for gen in n.generators:
                preds += gen.ifs
        elif isinstance(n, ast.Call) and isinstance(n.func, ast.Name) and depth < 2:
            local = [d for d in ast.walk(fn) if isinstance(d, ast.FunctionDef) and d.name == n.func.id and d is not fn]
            for d in local:
                for r in [x for x in ast.walk(d) if isinstance(x, ast.Return) and x.value is not None]:
                    preds += _count_predicates(d, r.value, depth + 1)
    return preds


def r5_scheduler_row(ctx: Context) -> None:
    ctx.rule("C08.R5", "SCHEDULER_FINISHED: num_placed counts PLACE_TASK decisions that are placed, num_unplaced those "
                       "that are not; no `E - E` with identical operands")
    sim = Sim(ctx.repo)
    h = sim.handler("SCHEDULER_FINISHED")
    ctx.analysed_function(qualname(h))
    rows = [row_of(c) for c in csv_calls(h) if "SCHEDULER_FINISHED" in src(c)]
    ctx.floor("C08.R5", "SCHEDULER_FINISHED row", len(rows), 1)
    row = rows[0]
    for idx, name, want_placed in ((3, "num_placed", True), (4, "num_unplaced", False)):
        col = row.cols[idx]
        if col.kind != "expr":
            raise AnalysisError("SCHEDULER_FINISHED count column is not an expression")
        e = col.expr
        key = f"{qualname(h)}|{name}"
        tally = _tally_formula(h, e.id) if isinstance(e, ast.Name) else None
        if tally is not None:
            _check_count(ctx, key, name, want_placed, tally, col)
            continue
        if isinstance(e, ast.Name):
            defs = [n for n in ast.walk(h) if isinstance(n, ast.Assign) and any(isinstance(t, ast.Name) and t.id == e.id for t in n.targets)]
            if len(defs) != 1:
                raise AnalysisError(f"{e.id} defined {len(defs)} times")
            e = defs[0].value
        # constant-zero difference
        for b in [x for x in ast.walk(e) if isinstance(x, ast.BinOp) and isinstance(x.op, ast.Sub)]:
            l, r = b.left, b.right
            l_src = norm(_inline_names(h, l))
            r_src = norm(_inline_names(h, r))
            if l_src == r_src:
                ctx.violation("C08.R5", key + "|identical operands subtracted", loc(b),
                              f"`{norm(b)}` subtracts `{r_src}` from itself: {name} is always 0")
                e = None
                break
        if e is None:
            continue
        f = None
        if isinstance(e, ast.BinOp) and isinstance(e.op, ast.Sub) and isinstance(e.left, ast.Call) and call_name(e.left) == "len":
            # len(all decisions) - (count with predicate Q)  ==  count with predicate not Q
            sub_preds = _count_predicates(h, _inline_names(h, e.right))
            if sub_preds:
                f = lin.f_not(("and", [_placed_formula(p) for p in sub_preds]))
        if f is None:
            if any(isinstance(x, ast.BinOp) for x in ast.walk(e)):
                raise AnalysisError(f"{name} is computed arithmetically (`{norm(e)[:60]}`); the predicate rule cannot decide it")
            preds = _count_predicates(h, e)
            if not preds:
                raise AnalysisError(f"no counting predicate found for {name}: `{norm(e)[:60]}`")
            f = ("and", [_placed_formula(p) for p in preds])
        _check_count(ctx, key, name, want_placed, f, col)
    # offered count in SCHEDULER_START comes from get_schedulable_tasks with the scheduler's own settings
    hs = sim.handler("SCHEDULER_START")
    gs = [c for c in calls_in(hs, "get_schedulable_tasks")]
    ctx.floor("C08.R5", "get_schedulable_tasks in SCHEDULER_START handler", len(gs), 1)
    args = " ".join(norm(a) for a in gs[0].args) + " " + " ".join(norm(k.value) for k in gs[0].keywords)
    need = ["event.time", "self._scheduler.lookahead", "self._scheduler.preemptive", "self._scheduler.retract_schedules",
            "self._scheduler.release_taskgraphs"]
    ctx.check(all(n in args for n in need), "C08.R5", f"{qualname(hs)}|offered count uses the scheduler's settings", loc(gs[0]),
              "same arguments as the policy's frontier", f"offered-task count is computed with `{args[:100]}`")


def _check_count(ctx: Context, key: str, name: str, want_placed: bool, f, col) -> None:
    placed_atom = ("atom", ("bool", "P.is_placed()"), True)
    type_atom = ("atom", ("bool", "P.placement_type == PLACE_TASK"), True)
    want = placed_atom if want_placed else lin.f_not(placed_atom)
    ctx.check(lin.entails(f, want) and lin.satisfiable(f), "C08.R5", key + ("|counts placed" if want_placed else "|counts not placed"), loc(col.expr),
              lin.show(f), f"{name} counts decisions satisfying `{lin.show(f)}`, which does not imply "
              f"{'placed' if want_placed else 'not placed'}")
    ctx.check(lin.entails(f, type_atom), "C08.R5", key + "|only task placements", loc(col.expr), "PLACE_TASK only",
              f"{name} also counts non-PLACE_TASK placements (profile loads / cancellations)")


def _tally_formula(h: ast.FunctionDef, name: str):
    """`name = 0` then `name += 1` inside a loop over the decisions: the formula under which one decision is counted (the disjunction, over
    the increments, of the decisions that control each), or None when `name` is not such a tally."""
    inits, incs, other = [], [], 0
    for n in ast.walk(h):
        if isinstance(n, ast.Assign):
            for t in n.targets:
                if isinstance(t, ast.Name) and t.id == name:
                    if isinstance(n.value, ast.Constant) and n.value.value == 0 and not isinstance(n.value.value, bool):
                        inits.append(n)
                    else:
                        other += 1
                elif isinstance(t, ast.Tuple) and isinstance(n.value, ast.Tuple) and len(t.elts) == len(n.value.elts):
                    for te, ve in zip(t.elts, n.value.elts):
                        if isinstance(te, ast.Name) and te.id == name:
                            if isinstance(ve, ast.Constant) and ve.value == 0:
                                inits.append(n)
                            else:
                                other += 1
                elif any(isinstance(x, ast.Name) and x.id == name for x in ast.walk(t)):
                    other += 1
        elif isinstance(n, ast.AugAssign) and isinstance(n.target, ast.Name) and n.target.id == name:
            if isinstance(n.op, ast.Add) and isinstance(n.value, ast.Constant) and n.value.value == 1:
                incs.append(n)
            else:
                other += 1
        elif isinstance(n, (ast.For, ast.comprehension)) and any(isinstance(x, ast.Name) and x.id == name for x in ast.walk(n.target)):
            other += 1
    if len(inits) != 1 or not incs or other:
        return None
    g = cfgmod.build(h)
    arms = []
    for inc in incs:
        loop = parent(inc)
        while loop is not None and not isinstance(loop, ast.For):
            loop = parent(loop)
        if loop is None or not isinstance(loop.target, ast.Name):
            return None
        var = loop.target.id
        node = g.node_of(inc)
        conj = []
        for t in g.nodes:
            if t.kind != "test" or not any(isinstance(x, ast.Name) and x.id == var for x in ast.walk(t.ast)):
                continue
            if g.edge_dominates(t, "T", node):
                conj.append(_placed_formula(t.ast))
            elif g.edge_dominates(t, "F", node):
                conj.append(lin.f_not(_placed_formula(t.ast)))
        arms.append(("and", conj) if conj else ("const", True))
    return arms[0] if len(arms) == 1 else ("or", arms)


def _inline_names(fn: ast.FunctionDef, e: ast.AST) -> ast.AST:
    if isinstance(e, ast.Name):
        defs = [n for n in ast.walk(fn) if isinstance(n, ast.Assign) and len(n.targets) == 1 and isinstance(n.targets[0], ast.Name)
                and n.targets[0].id == e.id]
        if len(defs) == 1:
            return defs[0].value
    return e


def _placed_formula(pred: ast.AST):
    """Formula of a counting predicate with the lambda/comprehension variable abstracted to P."""
    def conv(n: ast.AST):
        if isinstance(n, ast.BoolOp):
            return ("and" if isinstance(n.op, ast.And) else "or", [conv(v) for v in n.values])
        if isinstance(n, ast.UnaryOp) and isinstance(n.op, ast.Not):
            return lin.f_not(conv(n.operand))
        if isinstance(n, ast.Call) and call_name(n) == "is_placed":
            return ("atom", ("bool", "P.is_placed()"), True)
        if isinstance(n, ast.Compare) and len(n.ops) == 1:
            l, r = norm(n.left), norm(n.comparators[0])
            if l.endswith(".placement_type") and r.endswith("PlacementType.PLACE_TASK"):
                pos = isinstance(n.ops[0], (ast.Eq, ast.Is))
                return ("atom", ("bool", "P.placement_type == PLACE_TASK"), pos)
            if isinstance(n.left, ast.Call) and call_name(n.left) == "is_placed" and isinstance(n.comparators[0], ast.Constant):
                v = bool(n.comparators[0].value)
                pos = v if isinstance(n.ops[0], (ast.Eq, ast.Is)) else not v
                return ("atom", ("bool", "P.is_placed()"), pos)
        return ("atom", ("bool", norm(n)), True)
    return conv(pred)


def r6_miss_iff_late(ctx: Context) -> None:
    ctx.rule("C08.R6", "MISSED_DEADLINE / MISSED_TASK_GRAPH_DEADLINE rows are written exactly under a strict "
                       "completion-after-deadline comparison")
    sim = Sim(ctx.repo)
    h = sim.handler("TASK_FINISHED")
    g = cfgmod.build(h)
    for tag, guard_src in (("MISSED_DEADLINE", "event.time > event.task.deadline"),
                           ("MISSED_TASK_GRAPH_DEADLINE", "event.time > task_graph.deadline")):
        rws = [c for c in csv_calls(h) if f",{tag}," in src(c)]
        ctx.floor("C08.R6", f"{tag} row", len(rws), 1)
        rn = g.node_of(rws[0])
        want = lin.formula(ast.parse(guard_src, mode="eval").body)
        ctl = _controlling_tests(g, rn)
        conj = ("and", ctl) if ctl else ("const", True)
        # iff: the controlling condition is exactly the strict lateness (modulo `task_graph is not None`)
        late_implied = lin.entails(conj, want)
        extra_ok = all(lin.entails(want, f) or "task_graph Is None" in lin.show(f) for f in ctl)
        ctx.check(late_implied, "C08.R6", f"{qualname(h)}|{tag} only when late", loc(rws[0]), f"guard entails `{guard_src}`",
                  f"the {tag} row can be written when the completion is not after the deadline (guards: {[lin.show(f) for f in ctl]})")
        ctx.check(extra_ok, "C08.R6", f"{qualname(h)}|{tag} whenever late", loc(rws[0]), "no further condition",
                  f"the {tag} row is additionally conditioned: {[lin.show(f) for f in ctl]}")
    # event.time of TASK_FINISHED is the completion time: covered by C03.R2; completion_time column is the task's own
    # tardiness
    tard = [a for a in ast.walk(h) if isinstance(a, ast.Assign) and any(isinstance(t, ast.Name) and t.id == "tardiness" for t in a.targets)]
    if tard and isinstance(tard[0].value, ast.IfExp):
        ie = tard[0].value
        cond = lin.formula(ie.test)
        late = lin.formula(ast.parse("event.time > task_graph.deadline", mode="eval").body)
        zero_l = lin.lin_of(ie.body)
        diff_l = lin.lin_of(ie.orelse)
        want_diff = lin.lin_of(ast.parse("event.time - task_graph.deadline", mode="eval").body)
        ok = False
        if zero_l.is_const() and zero_l.const == 0 and diff_l == want_diff:
            # zero when not late (deadline >= time), difference otherwise
            ok = lin.entails(lin.f_not(cond), ("or", [late, lin.formula(ast.parse("event.time == task_graph.deadline", mode="eval").body)]))
        elif diff_l.is_const() and diff_l.const == 0 and zero_l == want_diff:
            ok = lin.entails(cond, ("or", [late, lin.formula(ast.parse("event.time == task_graph.deadline", mode="eval").body)]))
        ctx.check(ok, "C08.R6", f"{qualname(h)}|tardiness = max(0, completion - deadline)", loc(tard[0]), norm(ie)[:80],
                  f"tardiness is `{norm(ie)[:100]}`")


def r9_reader_keeps_everything(ctx: Context) -> None:
    ctx.rule("C08.R9", "the CSV reader hands over every task / task graph / scheduler invocation it reconstructed: the collections "
                       "stored on the reconstructed Simulator are built from the full tables, with no filter")
    mod = ctx.repo.mod("data/csv_reader.py")
    n = 0
    for a in ast.walk(mod.tree):
        if isinstance(a, ast.Assign) and isinstance(a.targets[0], ast.Attribute) and isinstance(a.targets[0].value, ast.Name) \
                and a.targets[0].value.id == "simulator" and a.targets[0].attr in ("tasks", "task_graphs", "scheduler_invocations", "worker_pools"):
            n += 1
            filt = [norm(x)[:60] for x in ast.walk(a.value)
                    if (isinstance(x, ast.comprehension) and x.ifs) or (isinstance(x, ast.Call) and call_name(x) == "filter")]
            srcs = [norm(x) for x in ast.walk(a.value) if isinstance(x, ast.Name)]
            ctx.check(not filt, "C08.R9", f"{qualname(a)}|simulator.{a.targets[0].attr} holds every reconstructed entry", loc(a), f"from {sorted(set(srcs))[:3]}",
                      f"`{norm(a)[:100]}` filters the reconstructed entries ({filt}): tasks that e.g. were cancelled before their release "
                      "have a TASK_CANCEL row but disappear from the reader's view, which then disagrees with the SIMULATOR_END counts")
    ctx.floor("C08.R9", "collections handed over by the reader", n, 3)


def r13_reader_updates_unconditional(ctx: Context) -> None:
    ctx.rule("C08.R13", "in the reader, the state a row kind establishes on an already reconstructed task / task graph "
                        "(`tasks[k].cancelled = True`, completion and slack of a finished graph, ...) is stored for every row of that "
                        "kind: such stores sit at the top level of the row's case, not inside the create-if-missing guard")
    mod = ctx.repo.mod("data/csv_reader.py")
    n = 0
    for case in ast.walk(mod.tree):
        if not (isinstance(case, ast.If) and isinstance(case.test, ast.Compare) and norm(case.test.left) == "reading[1]"):
            continue
        tag = norm(case.test.comparators[0]).strip("'\"")
        for a in ast.walk(ast.Module(body=case.body, type_ignores=[])):
            if isinstance(a, ast.Assign) and isinstance(a.targets[0], ast.Attribute) and isinstance(a.targets[0].value, ast.Subscript) \
                    and isinstance(a.targets[0].value.value, ast.Name):
                n += 1
                p = parent(a)
                top = any(a is x for x in case.body)
                ctx.check(top, "C08.R13", f"{qualname(case)}|{tag}: `{norm(a.targets[0])[:50]}` stored for every row", loc(a), "top level of the case",
                          f"`{norm(a)[:70]}` is only executed under `{norm(p.test)[:60] if isinstance(p, ast.If) else '?'}`: a {tag} row for an entry that "
                          "already exists (e.g. a task that was released before it was cancelled) leaves the reconstructed state unchanged, so the "
                          "reader's view disagrees with the run while the trace is still accepted")
    ctx.floor("C08.R13", "per-row state stores in the reader", n, 6)


def r14_rows_read_the_handled_event(ctx: Context) -> None:
    ctx.rule("C08.R14", "every CSV row and counter update of a handler reads the event the handler was called with: no "
                        "re-binding of the handler's event parameter can reach a row emission or a counter increment")
    sim = Sim(ctx.repo)
    rows, _ = run_rows(ctx)
    n = 0
    for name, h in sim.methods.items():
        params = [a.arg for a in h.args.args[1:]]
        if not params:
            continue
        ev = params[0]
        rebinds = [a for a in ast.walk(h) if isinstance(a, (ast.Assign, ast.AugAssign, ast.For))
                   and any(isinstance(t, ast.Name) and t.id == ev for t in ast.walk(a.targets[0] if isinstance(a, ast.Assign) else a.target))]
        if not rebinds:
            continue
        g = cfgmod.build(h)
        uses = [r.call for r in rows if r.func is h] + [x for x in ast.walk(h) if isinstance(x, ast.AugAssign) and is_self_attr(x.target)]
        for u in uses:
            if not any(isinstance(x, ast.Name) and x.id == ev for x in ast.walk(u if not isinstance(u, ast.AugAssign) else parent(u))):
                # a counter increment reads the event through its guarding test
                pass
            n += 1
            un = g.node_of(u)
            reach = [rb for rb in rebinds if g.reachable(g.node_of(rb), un)]
            ctx.check(not reach, "C08.R14", f"{qualname(h)}|`{norm(u)[:46]}` reads the handled event", loc(u), f"`{ev}` still is the parameter here",
                      f"`{ev}` is re-bound at line {reach[0].lineno if reach else '?'} (`{norm(reach[0])[:50] if reach else ''}`) on a path that reaches "
                      f"`{norm(u)[:60]}`: the row / counter then describes another event (e.g. the last released child instead of the task that finished)")
    ctx.floor("C08.R14", "row emissions / counter updates in handlers that re-bind their event parameter", n, 3)


def r7_census(ctx: Context) -> None:
    ctx.rule("C08.R7", "Workload.get_cancelled_task_graphs returns exactly the graphs for which is_cancelled() holds; "
                       "TaskGraph.is_cancelled = any sink CANCELLED")
    wl = ctx.repo.mod(WORKLOAD).cls("Workload")
    from .c02 import _selection_as_loop
    fn = _selection_as_loop(method(wl, "get_cancelled_task_graphs"))
    g = cfgmod.build(fn)
    rets = [r for r in ast.walk(fn) if isinstance(r, ast.Return)]
    lst = rets[0].value.id if len(rets) == 1 and isinstance(rets[0].value, ast.Name) else None
    if lst is None:
        raise AnalysisError("get_cancelled_task_graphs return shape not recognised")
    apps = [c for c in calls_in(fn, "append") if isinstance(c.func.value, ast.Name) and c.func.value.id == lst]
    ctx.floor("C08.R7", "append to the census list", len(apps), 1)
    tests = [t for t in g.nodes if t.kind == "test" and isinstance(t.ast, ast.Call) and call_name(t.ast) == "is_cancelled"]
    for a in apps:
        an = g.node_of(a)
        ok = any(g.edge_dominates(t, "T", an) and norm(t.ast.func.value) == norm(a.args[0]) for t in tests)
        ctx.check(ok, "C08.R7", f"Workload.get_cancelled_task_graphs|`{norm(a)}` only if cancelled", loc(a), "guarded by is_cancelled()",
                  f"`{norm(a)}` adds a graph that is not tested with is_cancelled()")
    loops = [n for n in ast.walk(fn) if isinstance(n, ast.For)]
    ok = len(loops) >= 1 and "self._task_graphs.values()" in norm(loops[0].iter)
    ctx.check(ok, "C08.R7", "Workload.get_cancelled_task_graphs|iterates every graph", loc(fn), "all graphs", "census does not visit every task graph")
    if tests:
        # every iteration reaches the test first (it is the first test of the loop body)
        first = loops[0].body[0] if loops else None
        ok = isinstance(first, ast.If) and first.test is tests[0].ast
        ctx.check(ok, "C08.R7", "Workload.get_cancelled_task_graphs|is_cancelled tested first", loc(tests[0].ast), "first test",
                  "another condition precedes the is_cancelled() test, so some cancelled graphs may be skipped")
    tg = ctx.repo.mod(TASKS).cls("TaskGraph")
    ic = method(tg, "is_cancelled")
    rets = [r for r in ast.walk(ic) if isinstance(r, ast.Return)]
    ok = False
    if len(rets) == 1 and isinstance(rets[0].value, ast.Call) and call_name(rets[0].value) == "any":
        a = rets[0].value.args[0]
        if isinstance(a, (ast.GeneratorExp, ast.ListComp)) and "get_sink_tasks()" in norm(a.generators[0].iter) and not a.generators[0].ifs:
            e = a.elt
            ok = isinstance(e, ast.Compare) and len(e.ops) == 1 and isinstance(e.ops[0], (ast.Eq, ast.Is)) and \
                {norm(e.left).split(".")[-1], norm(e.comparators[0]).split(".")[-1]} == {"state", "CANCELLED"}
    ctx.check(ok, "C08.R7", "TaskGraph.is_cancelled|any sink CANCELLED", loc(ic), "any(t.state == CANCELLED for sinks)",
              f"is_cancelled is `{norm(rets[0].value)[:80] if rets else '?'}`")


def r15_resource_columns_of_a_batched_task(ctx: Context) -> None:
    ctx.rule("C08.R15", "Worker.get_allocated_resources (the resource columns of TASK_PLACEMENT / TASK_MIGRATED rows): for a task placed as part of a "
                        "batch the ledger is asked about the batch's placeholder task - the only one that holds the allocation -, otherwise about the task")
    cls = ctx.repo.mod("workers/workers.py").cls("Worker")
    fn = method(cls, "get_allocated_resources")
    ctx.analysed_function("workers/workers.py::Worker.get_allocated_resources")
    task = fn.args.args[1].arg
    g = cfgmod.build(fn)
    batch_tests = [t for t in g.nodes if t.kind == "test" and isinstance(t.ast, ast.Call) and call_name(t.ast) == "isinstance" and "BatchStrategy" in norm(t.ast)]
    ctx.floor("C08.R15", "batch-strategy test in Worker.get_allocated_resources", len(batch_tests), 1)
    asks = [c for c in calls_in(fn, "get_allocated_resources") if is_self_attr(c.func.value, "_resources") and c.args]
    ctx.floor("C08.R15", "ledger look-ups in Worker.get_allocated_resources", len(asks), 2)
    for c in asks:
        arg = resolve_local(fn, c.args[0])
        batched = g.edge_dominates(batch_tests[0], "T", g.node_of(c))
        if batched:
            ok = isinstance(arg, ast.Subscript) and is_self_attr(arg.value, "_batch_tasks_for_strategy")
            ctx.check(ok, "C08.R15", "Worker.get_allocated_resources|batched task: allocation of the placeholder", loc(c), norm(c.args[0]),
                      f"`{norm(c)}` asks the ledger about `{norm(c.args[0])}` in the batch branch: members of a batch hold no allocation of their own (Worker.place_task "
                      "allocates once for the placeholder), so the resource columns of the row are empty or the look-up fails")
        else:
            ctx.check(norm(arg) == task, "C08.R15", "Worker.get_allocated_resources|single task: its own allocation", loc(c), norm(c.args[0]),
                      f"`{norm(c)}` does not ask about the task itself")


def run(ctx: Context) -> None:
    ctx.isolate(r1_r2_schema)
    ctx.isolate(r3_keywords)
    ctx.isolate(r4_counters)
    ctx.isolate(r5_scheduler_row)
    ctx.isolate(r6_miss_iff_late)
    ctx.isolate(r7_census)
    ctx.isolate(r9_reader_keeps_everything)
    ctx.isolate(r13_reader_updates_unconditional)
    ctx.isolate(r14_rows_read_the_handled_event)
    ctx.isolate(r15_resource_columns_of_a_batched_task)
    from . import c06
    ctx.isolate(c06.r5_cancellation_reported, _alias={"C06.R5": "C08.R8"})
    from . import c07, c18
    ctx.isolate(c07.r1_one_of_n, _alias={"C07.R1": "C08.R10"})
    ctx.isolate(c18.r2b_parameter_agreement, _alias={"C18.R2b": "C08.R11"})
    from . import c17
    ctx.isolate(c17.cache_coherence, "C08.R12", ("TaskGraph", "Task"), "deadlines and completion written to the trace are read from the graph at that moment", 2)
