"""C09 — Runs are reproducible from the random seed."""
from __future__ import annotations

import ast
from typing import Dict, List, Optional, Set, Tuple

from .. import cfg as cfgmod
from ..anchors import JOBS, SIM, TASKS, UTILS
from ..core import (
    AnalysisError,
    Module,
    UNCONFIRMABLE_FILES,
    call_name,
    calls_in,
    dotted,
    enclosing_class,
    enclosing_function,
    is_self_attr,
    loc,
    method,
    methods,
    norm,
    parent,
    qualname,
    src,
)
from ..report import Context

EXPLANATION = (
    "Static determinism lints over every module reachable from main (quick) or every analysed module (thorough): "
    "every random-number generator is constructed with a seed on every path (an unseeded constructor is tolerated "
    "only on the no-flags branch), the seed of the release-policy generator is followed through the factory "
    "parameters to every call site of a factory whose policy actually draws from the generator; no uuid1/uuid4/"
    "urandom/secrets/SystemRandom; every uuid.UUID is built from random.getrandbits of the seeded module generator "
    "or copies an existing id; random.seed(FLAGS.random_seed) dominates the construction of loaders, scheduler and "
    "simulator in main and no id-drawing constructor runs at import time; every iteration over a set whose element "
    "hash is process dependent (str, Job, Resource, unknown) must have an order-insensitive consumer (frozen table) "
    "or be triaged in the allowlist; id()/hash() never feed a sort key or comparison; wall-clock time flows only "
    "into scheduler runtimes / logging / solver termination. NOT decided: solver-internal nondeterminism, "
    "floating-point reproducibility across machines."
)
ASSUMPTIONS = [
    "dict iteration is insertion ordered (language guarantee); only sets are hash ordered",
    "int, UUID and classes hashing a UUID (Task, WorkProfile, ExecutionStrategy, BatchStrategy) have process-independent hashes",
    "the insertion order of constraints/terms into a solver model is not an observable of the property (solver nondeterminism is excluded)",
]

QUICK_MODULES = [
    "main.py", "simulator.py", "utils.py", "workload/__init__.py", "workload/graph.py", "workload/jobs.py", "workload/placement.py",
    "workload/profile.py", "workload/resource.py", "workload/resources.py", "workload/strategy.py", "workload/tasks.py",
    "workload/workload.py", "workers/workers.py", "workers/__init__.py", "data/__init__.py", "data/workload_loader.py",
    "data/worker_loader.py", "data/base_workload_loader.py", "data/alibaba_loader.py", "schedulers/__init__.py",
    "schedulers/base_scheduler.py", "schedulers/edf_scheduler.py", "schedulers/fifo_scheduler.py", "schedulers/lsf_scheduler.py",
    "schedulers/ilp_scheduler.py", "schedulers/tetrisched_gurobi_scheduler.py", "schedulers/tetrisched_cplex_scheduler.py",
    "schedulers/z3_scheduler.py", "schedulers/clockwork_scheduler.py", "schedulers/branch_prediction_scheduler.py",
]


def _imported_somewhere(ctx: Context, m: Module) -> bool:
    """Is the module imported by any other module of the program (else it is dead code)?"""
    stem = m.rel[:-3].replace("/", ".")
    leaf = stem.split(".")[-1]
    if m.rel == "main.py" or leaf == "__init__":
        return True
    for o in ctx.repo.modules.values():
        if o is m:
            continue
        for n in ast.walk(o.tree):
            if isinstance(n, ast.ImportFrom):
                mod = n.module or ""
                if mod == stem or mod.endswith("." + leaf) or mod == leaf or (n.level > 0 and mod == leaf):
                    return True
                if any(a.name == leaf for a in n.names) and (mod == stem.rsplit(".", 1)[0] or n.level > 0):
                    return True
            elif isinstance(n, ast.Import):
                if any(a.name == stem or a.name.endswith("." + leaf) or a.name == leaf for a in n.names):
                    return True
    return False


def modules(ctx: Context) -> List[Module]:
    cached = getattr(ctx, "_c09_modules", None)
    if cached is not None:
        return cached
    out = _modules(ctx)
    ctx._c09_modules = out
    return out


def _modules(ctx: Context) -> List[Module]:
    if ctx.tier == "thorough":
        out = []
        for m in ctx.repo.program_modules():
            if _imported_somewhere(ctx, m):
                out.append(m)
            else:
                ctx.note(f"DEAD-MODULE {m.rel}: imported by no module of the program; not analysed")
        return out
    return [ctx.repo.mod(r) for r in QUICK_MODULES if r in ctx.repo.modules]


RNG_CTORS = {"default_rng", "Random", "RandomState", "Generator", "SeedSequence"}
FORBIDDEN = {"uuid1", "uuid4", "urandom", "SystemRandom", "token_bytes", "token_hex", "randbytes"}


def _no_flags_branch(node: ast.AST) -> bool:
    """The node sits on the branch where `_flags` / `flags` is falsy (no seed exists to use)."""
    n = node
    p = parent(n)
    while p is not None and not isinstance(p, (ast.FunctionDef, ast.AsyncFunctionDef, ast.Module)):
        if isinstance(p, ast.If):
            t = norm(p.test)
            positive = t in ("_flags", "flags", "_flags is not None", "flags is not None", "self._flags")
            negative = t in ("not _flags", "_flags is None", "flags is None", "not flags")
            if positive and any(n is s or _contains(s, n) for s in p.orelse):
                return True
            if negative and any(n is s or _contains(s, n) for s in p.body):
                return True
        if isinstance(p, ast.IfExp):
            t = norm(p.test)
            if t in ("_flags", "flags") and (n is p.orelse or _contains(p.orelse, n)):
                return True
        n = p
        p = parent(p)
    return False


def _contains(root: ast.AST, n: ast.AST) -> bool:
    return any(x is n for x in ast.walk(root))


def _seed_arg(call: ast.Call) -> Optional[ast.AST]:
    if call.args:
        return call.args[0]
    for k in call.keywords:
        if k.arg in ("seed", "x", "a"):
            return k.value
    return None


_MODS_CACHE: Dict[int, List[Module]] = {}


def r1_random_sources(ctx: Context) -> None:
    ctx.rule("C09.R1", "every RNG constructor is seeded on every path (followed through factory parameters to the call "
                       "sites of factories whose policy draws random numbers); no uuid1/uuid4/urandom/secrets")
    n_sites = 0
    for m in modules(ctx):
        unconf = m.rel in UNCONFIRMABLE_FILES
        for c in [x for x in ast.walk(m.tree) if isinstance(x, ast.Call)]:
            nm = call_name(c)
            d = dotted(c.func) or ""
            if nm in FORBIDDEN or d.startswith("secrets."):
                if unconf:
                    ctx.note(f"UNCONFIRMABLE {loc(c)}: `{norm(c)[:50]}`")
                else:
                    ctx.violation("C09.R1", f"{qualname(c)}|`{norm(c)[:50]}`", loc(c), f"`{norm(c)[:60]}` is a source of randomness that no seed controls")
                continue
            if d.startswith("np.random.") and nm not in RNG_CTORS and nm != "seed":
                # module-level numpy generator: never seeded by main
                if unconf:
                    ctx.note(f"UNCONFIRMABLE {loc(c)}: `{norm(c)[:60]}` draws from the unseeded numpy module generator")
                else:
                    ctx.violation("C09.R1", f"{qualname(c)}|`{norm(c)[:50]}`", loc(c),
                                  f"`{norm(c)[:60]}` draws from numpy's module-level generator, which main never seeds")
                continue
            if nm in RNG_CTORS and (d.startswith(("np.random.", "random.", "numpy.random.")) or d in ("default_rng", "Random")):
                n_sites += 1
                sa = _seed_arg(c)
                key = f"{qualname(c)}|`{norm(c)[:50]}`"
                if sa is not None and isinstance(sa, ast.Call) and call_name(sa) == "getattr" and len(sa.args) == 3 \
                        and isinstance(sa.args[2], ast.Constant) and sa.args[2].value is None:
                    ctx.violation("C09.R1", key, loc(c), f"`{norm(c)[:70]}` seeds the generator with `{norm(sa)[:50]}`, which is None (OS entropy) "
                                  "whenever the attribute does not exist yet, e.g. when the first instance is created at import time "
                                  "before the flag is defined")
                    continue
                if sa is not None and not (isinstance(sa, ast.Constant) and sa.value is None):
                    ctx.ok("C09.R1", key, loc(c), f"seeded with `{norm(sa)[:40]}`")
                    continue
                if _no_flags_branch(c):
                    ctx.ok("C09.R1", key, loc(c), "unseeded only when no flags (hence no seed) exist")
                    continue
                # unseeded under `param is None`: obligation moves to the callers
                guard = _none_guard_param(c)
                if guard is not None:
                    _follow_seed_param(ctx, c, guard)
                    continue
                if unconf:
                    ctx.note(f"UNCONFIRMABLE {loc(c)}: unseeded `{norm(c)[:50]}`")
                else:
                    ctx.violation("C09.R1", key, loc(c), f"`{norm(c)[:60]}` creates an unseeded generator: two runs with the same --random_seed differ")
    ctx.floor("C09.R1", "RNG constructor sites", n_sites, 4)


def _none_guard_param(c: ast.Call) -> Optional[str]:
    """`default_rng() if p is None else default_rng(seed=p)` -> 'p' when p is a parameter."""
    p = parent(c)
    fn = enclosing_function(c)
    if fn is None:
        return None
    params = {a.arg for a in fn.args.args + fn.args.kwonlyargs}
    while p is not None and p is not fn:
        if isinstance(p, ast.IfExp) and isinstance(p.test, ast.Compare) and len(p.test.ops) == 1 \
                and isinstance(p.test.ops[0], ast.Is) and isinstance(p.test.comparators[0], ast.Constant) \
                and p.test.comparators[0].value is None and isinstance(p.test.left, ast.Name) and p.test.left.id in params:
            if _contains(p.body, c) or p.body is c:
                return p.test.left.id
        if isinstance(p, ast.If) and isinstance(p.test, ast.Compare) and len(p.test.ops) == 1 and isinstance(p.test.ops[0], ast.Is) \
                and isinstance(p.test.comparators[0], ast.Constant) and p.test.comparators[0].value is None \
                and isinstance(p.test.left, ast.Name) and p.test.left.id in params and any(_contains(s, c) for s in p.body):
            return p.test.left.id
        p = parent(p)
    return None


def _random_policy_types(ctx: Context) -> Tuple[Set[str], str]:
    """Release policy types whose branch of get_release_times uses the generator field."""
    jm = ctx.repo.mod(JOBS)
    rp = [c for c in jm.classes() if c.name == "ReleasePolicy"]
    if not rp:
        raise AnalysisError("JobGraph.ReleasePolicy not found")
    rp = rp[0]
    init = method(rp, "__init__")
    fld = None
    for n in ast.walk(init):
        if isinstance(n, ast.Assign) and is_self_attr(n.targets[0]) and any(call_name(c) in RNG_CTORS for c in calls_in(n.value)):
            fld = n.targets[0].attr
    if fld is None:
        raise AnalysisError("generator field of ReleasePolicy not found")
    grt = method(rp, "get_release_times")
    out: Set[str] = set()
    for node in ast.walk(grt):
        if isinstance(node, ast.If) and isinstance(node.test, ast.Compare) and "ReleasePolicyType." in norm(node.test):
            t = norm(node.test.comparators[0]).split(".")[-1]
            body = ast.Module(body=node.body, type_ignores=[])
            if any(is_self_attr(x, fld) for x in ast.walk(body)):
                out.add(t)
    return out, fld


def _follow_seed_param(ctx: Context, ctor: ast.Call, param: str, depth: int = 0) -> None:
    fn = enclosing_function(ctor)
    cls = enclosing_class(ctor)
    random_types, _fld = _random_policy_types(ctx)
    ctx.extra["random_release_policy_types"] = sorted(random_types)
    # callers of the constructor's class: the factories
    factories = []
    owner = cls.name if cls is not None else "?"
    for c in ctx.repo.calls_named(owner):
        f = enclosing_function(c)
        if f is None or f is fn:
            continue
        pt = next((k.value for k in c.keywords if k.arg == "policy_type"), None)
        ptn = norm(pt).split(".")[-1] if pt is not None else None
        sv = next((k.value for k in c.keywords if k.arg == param), None)
        factories.append((f, c, ptn, sv))
    if not factories:
        raise AnalysisError(f"no call sites of {owner}(...) found to follow `{param}`")
    for (f, c, ptn, sv) in factories:
        key = f"{qualname(c)}|{owner}({param}=...) policy {ptn}"
        draws = ptn in random_types
        if not draws:
            ctx.ok("C09.R1", key, loc(c), f"policy {ptn} never draws from the generator")
            continue
        if sv is None or (isinstance(sv, ast.Constant) and sv.value is None):
            ctx.violation("C09.R1", key, loc(c), f"the {ptn} release policy draws random numbers but is built without `{param}`")
            continue
        _check_seed_value(ctx, c, sv, key, ptn, 0)


def _check_seed_value(ctx: Context, site: ast.Call, sv: ast.AST, key: str, ptn: str, depth: int) -> None:
    """`sv` is passed as the seed at `site`. Follow parameters up to the place where the value originates."""
    f = enclosing_function(site)
    fparams = {a.arg for a in f.args.args + f.args.kwonlyargs} if f is not None else set()
    if isinstance(sv, ast.Name) and sv.id in fparams and depth < 4:
        owner = enclosing_class(f)
        callers = []
        for x in ctx.repo.calls_named(f.name):
            if enclosing_function(x) is f:
                continue
            if owner is not None:
                if not isinstance(x.func, ast.Attribute):
                    continue
                recv = norm(x.func.value)
                if not (recv in ("self", "cls") or recv.split(".")[-1] == owner.name):
                    continue
            callers.append(x)
        if not callers:
            ctx.ok("C09.R1", key, loc(site), f"forwards its parameter `{sv.id}`; no call site in the program")
            return
        pos = [a.arg for a in f.args.args]
        is_method = bool(pos) and pos[0] in ("self", "cls")
        for s in callers:
            pv = next((k.value for k in s.keywords if k.arg == sv.id), None)
            if pv is None and sv.id in pos:
                i = pos.index(sv.id) - (1 if is_method else 0)
                if 0 <= i < len(s.args):
                    pv = s.args[i]
            skey = f"{qualname(s)}|{f.name}({sv.id}=...) for a {ptn} policy"
            if pv is None or (isinstance(pv, ast.Constant) and pv.value is None):
                ctx.violation("C09.R1", skey, loc(s),
                              f"`{norm(s.func)}(...)` builds a release policy that draws random numbers ({ptn}) without passing "
                              f"`{sv.id}`: its generator is np.random.default_rng() with OS entropy, so two runs with the same "
                              "--random_seed release at different times")
            else:
                _check_seed_value(ctx, s, pv, skey, ptn, depth + 1)
        return
    ctx.check(_seed_expr_ok(site, sv), "C09.R1", key, loc(site), f"seeded with `{norm(sv)[:60]}`",
              f"the seed `{norm(sv)[:60]}` of a {ptn} release policy is not derived from the run's seed")


def _seed_expr_ok(site: ast.AST, e: ast.AST, depth: int = 0) -> bool:
    """The expression is a deterministic function of the run's seed (and not None when a seed exists)."""
    t = norm(e)
    if isinstance(e, ast.Constant):
        return isinstance(e.value, int) and not isinstance(e.value, bool)
    if isinstance(e, ast.IfExp):
        # `None if <no seed> else <expr>`: the branch taken when a seed exists must be fine, and "no seed" must be a test
        # for None: a truthiness test also sends the legal seed 0 to the unseeded branch
        branches = [b for b in (e.body, e.orelse) if not (isinstance(b, ast.Constant) and b.value is None)]
        has_none = len(branches) < 2
        t_ok = isinstance(e.test, ast.Compare) and len(e.test.ops) == 1 and isinstance(e.test.ops[0], (ast.Is, ast.IsNot)) \
            and isinstance(e.test.comparators[0], ast.Constant) and e.test.comparators[0].value is None
        if has_none and not t_ok:
            return False
        return bool(branches) and all(_seed_expr_ok(site, b, depth + 1) for b in branches)
    if isinstance(e, ast.BinOp) and isinstance(e.op, (ast.Add, ast.Sub, ast.Mult, ast.BitXor, ast.Mod)):
        return _seed_expr_ok(site, e.left, depth + 1) or _seed_expr_ok(site, e.right, depth + 1)
    if isinstance(e, ast.Attribute) and e.attr == "random_seed":
        return True
    if isinstance(e, ast.Call) and (dotted(e.func) or "") in ("random.getrandbits", "random.randint", "random.randrange"):
        return True
    if isinstance(e, ast.Name) and depth < 3:
        fn = enclosing_function(site)
        if fn is not None:
            defs = [n for n in ast.walk(fn) if isinstance(n, ast.Assign) and any(isinstance(x, ast.Name) and x.id == e.id for x in n.targets)]
            if defs:
                return all(_seed_expr_ok(site, d.value, depth + 1) for d in defs)
    if is_self_attr(e) and depth < 3:
        cls = enclosing_class(site)
        if cls is not None:
            defs = [n for n in ast.walk(cls) if isinstance(n, ast.Assign) and any(is_self_attr(x, e.attr) for x in n.targets)]
            real = [d for d in defs if not (isinstance(d.value, ast.Constant) and d.value.value is None and _no_flags_branch(d))]
            return bool(real) and all(_seed_expr_ok(d, d.value, depth + 1) for d in real)
    return False


def r2_ids(ctx: Context) -> None:
    ctx.rule("C09.R2", "every uuid.UUID(...) is built from random.getrandbits (seeded module generator) or copies an existing id")
    n = 0
    for m in modules(ctx):
        for c in [x for x in ast.walk(m.tree) if isinstance(x, ast.Call)]:
            d = dotted(c.func) or ""
            if d in ("uuid.UUID", "UUID"):
                n += 1
                key = f"{qualname(c)}|`{norm(c)[:60]}`"
                iv = next((k.value for k in c.keywords if k.arg == "int"), None)
                ok = False
                why = ""
                if iv is not None:
                    ok = isinstance(iv, ast.Call) and (dotted(iv.func) or "") == "random.getrandbits"
                    why = f"int=`{norm(iv)[:40]}`"
                elif c.args:
                    a = norm(c.args[0])
                    ok = a.endswith(".id") or a.endswith("._id") or a in ("self.id", "other.id")
                    why = f"copied from `{a}`"
                if m.rel in UNCONFIRMABLE_FILES and not ok:
                    ctx.note(f"UNCONFIRMABLE {loc(c)}: {norm(c)[:60]}")
                    continue
                ctx.check(ok, "C09.R2", key, loc(c), why, f"`{norm(c)[:70]}` is not drawn from the seeded generator ({why})")
    ctx.floor("C09.R2", "uuid.UUID constructions", n, 12)


ID_DRAWING_CLASSES = {"Task", "Worker", "WorkerPool", "Resource", "ExecutionStrategy", "BatchStrategy", "Placement", "WorkProfile", "Job"}


def r3_seeding_order(ctx: Context) -> None:
    ctx.rule("C09.R3", "random.seed(FLAGS.random_seed) dominates the construction of loaders, scheduler and simulator in "
                       "main; no id-drawing constructor runs at import time (module level, class level, default arguments)")
    mm = ctx.repo.mod("main.py")
    fn = mm.func("main")
    g = cfgmod.build(fn)
    seeds = [c for c in calls_in(fn) if (dotted(c.func) or "") == "random.seed"]
    if not seeds:
        ctx.violation("C09.R3", "main.py::main|random.seed", loc(fn), "main never seeds the module generator with the --random_seed flag")
        return
    s0 = seeds[0]
    ctx.check(s0.args and "FLAGS.random_seed" in norm(s0.args[0]), "C09.R3", "main.py::main|seed is the flag", loc(s0), norm(s0),
              f"`{norm(s0)}` does not use FLAGS.random_seed")
    sn = g.node_of(s0)
    n = 0
    for c in calls_in(fn):
        nm = call_name(c) or ""
        if nm.endswith(("Loader", "Scheduler", "Simulator")) or nm in ("WorkerLoader",) or nm in ID_DRAWING_CLASSES:
            n += 1
            cn = g.node_of(c)
            ctx.check(g.dominates(sn, cn) and cn.id != sn.id, "C09.R3", f"main.py::main|seed before `{nm}(...)` at line {c.lineno}", loc(c),
                      "dominated by random.seed", f"`{nm}(...)` can be constructed before the generator is seeded: its ids/draws are not reproducible")
    ctx.floor("C09.R3", "constructions in main", n, 8)
    # import-time draws
    n_imp = 0
    for m in modules(ctx):
        for node in ast.walk(m.tree):
            if isinstance(node, ast.Call) and (call_name(node) in ID_DRAWING_CLASSES or (dotted(node.func) or "").startswith("random.get")):
                if _import_time(node):
                    if (dotted(node.func) or "") in ("random.randint",):
                        continue
                    n_imp += 1
                    ctx.violation("C09.R3", f"{qualname(node)}|import-time `{norm(node)[:40]}`", loc(node),
                                  f"`{norm(node)[:60]}` runs at import time, before main seeds the generator: the ids it draws differ between runs")
    ctx.count("import_time_id_draws", n_imp)


def _import_time(node: ast.AST) -> bool:
    p = parent(node)
    child = node
    while p is not None:
        if isinstance(p, (ast.FunctionDef, ast.AsyncFunctionDef, ast.Lambda)):
            # default arguments / decorators are evaluated at definition time
            in_defaults = any(_contains(d, node) or d is node for d in (p.args.defaults + [d for d in p.args.kw_defaults if d is not None]))
            if isinstance(p, ast.Lambda):
                in_decos = False
            else:
                in_decos = any(_contains(d, node) or d is node for d in p.decorator_list)
            if not (in_defaults or in_decos):
                return False
        if isinstance(p, ast.If) and norm(p.test).startswith("__name__"):
            return False
        child = p
        p = parent(p)
    return True


# ---------------------------------------------------------------------------
# R4 hash-ordered iteration
# ---------------------------------------------------------------------------

STABLE = {"int", "Task", "WorkProfile", "ExecutionStrategy", "BatchStrategy", "UUID", "float", "EventTime", "TaskOptimizerVariables",
          "Tuple[int]"}
INSENSITIVE_CONSUMERS = {"sorted", "sum", "any", "all", "len", "min", "max", "set", "frozenset", "quicksum", "Sum", "And", "Or"}
SOLVER_INSERTS = {"addConstr", "addConstrs", "add", "addGenConstrIndicator", "add_constraint", "add_indicator", "addLConstr", "append_constraint"}

# Triaged iteration sites (rule key -> reason). Frozen after reading each site.
ALLOWLIST: Dict[str, str] = {
    "schedulers/z3_scheduler.py::TaskOptimizerVariables.__init__|iterates `resource_types` (str)":
        "builds the dict of z3 bit-vector variables keyed by resource type; that dict is only consumed by key lookups and by "
        "loops that add constraints to the z3 optimizer (a constraint set is unordered); no placement/trace order derives from it",
}


def _elem_type_of_expr(e: ast.AST) -> str:
    t = norm(e)
    if isinstance(e, ast.Constant):
        return type(e.value).__name__
    if isinstance(e, ast.Call) and call_name(e) == "int":
        return "int"
    if isinstance(e, ast.Attribute) and e.attr in ("name", "id", "unique_name", "task_graph"):
        return "str"
    if isinstance(e, ast.Call) and call_name(e) in ("split", "str", "format", "join"):
        return "str"
    if isinstance(e, ast.JoinedStr):
        return "str"
    low = t.lower()
    for k, v in (("task_variable", "TaskOptimizerVariables"), ("task", "Task"), ("profile", "WorkProfile"), ("strategy", "ExecutionStrategy"),
                 ("job", "Job"), ("resource", "Resource"), ("time", "int"), ("stage", "int")):
        if k in low:
            return v
    return "unknown"


def _annotation_elem(ann: Optional[ast.AST]) -> Optional[str]:
    if ann is None:
        return None
    t = norm(ann)
    for pre in ("Set[", "set[", "FrozenSet[", "frozenset["):
        i = t.find(pre)
        if i >= 0:
            inner = t[i + len(pre):]
            depth = 0
            out = ""
            for ch in inner:
                if ch == "[":
                    depth += 1
                if ch == "]":
                    if depth == 0:
                        break
                    depth -= 1
                out += ch
            return out.strip("'\" ")
    return None


class SetFacts:
    """Which expressions are set-valued in a function, and their element types."""

    def __init__(self, fn: ast.AST, cls_fields: Dict[str, str]):
        self.fn = fn
        self.names: Dict[str, str] = {}
        self.dict_of_sets: Dict[str, str] = {}
        self.fields = cls_fields
        for n in ast.walk(fn):
            if isinstance(n, (ast.Assign, ast.AnnAssign)):
                targets = n.targets if isinstance(n, ast.Assign) else [n.target]
                val = n.value
                ann = n.annotation if isinstance(n, ast.AnnAssign) else None
                for t in targets:
                    if isinstance(t, ast.Name):
                        et = self._set_elem(val, ann)
                        if et is not None:
                            self.names[t.id] = self._merge(self.names.get(t.id), et)
                        a = norm(ann) if ann is not None else ""
                        if isinstance(val, ast.Call) and call_name(val) == "defaultdict" and val.args and norm(val.args[0]) == "set":
                            inner = None
                            if "Set[" in a:
                                inner = a[a.rfind("Set[") + 4:].split("]")[0]
                            self.dict_of_sets[t.id] = inner or "unknown"
        if isinstance(fn, (ast.FunctionDef, ast.AsyncFunctionDef)):
            for a in fn.args.args + fn.args.kwonlyargs:
                et = _annotation_elem(a.annotation)
                if et is not None:
                    self.names[a.arg] = et
        # refine unknown element types from .add(x)
        for c in [x for x in ast.walk(fn) if isinstance(x, ast.Call) and isinstance(x.func, ast.Attribute) and x.func.attr == "add" and x.args]:
            b = x_base = c.func.value
            if isinstance(b, ast.Name) and b.id in self.names and self.names[b.id] in ("unknown", "empty"):
                self.names[b.id] = _elem_type_of_expr(c.args[0])
            if isinstance(b, ast.Subscript) and isinstance(b.value, ast.Name) and b.value.id in self.dict_of_sets \
                    and self.dict_of_sets[b.value.id] == "unknown":
                self.dict_of_sets[b.value.id] = _elem_type_of_expr(c.args[0])

    @staticmethod
    def _merge(a: Optional[str], b: str) -> str:
        if a is None or a in ("empty", "unknown"):
            return b
        if b in ("empty",):
            return a
        return a if a == b else "unknown"

    def _set_elem(self, val: Optional[ast.AST], ann: Optional[ast.AST]) -> Optional[str]:
        et = _annotation_elem(ann)
        if val is None:
            return et
        if isinstance(val, ast.Set):
            return et or (_elem_type_of_expr(val.elts[0]) if val.elts else "empty")
        if isinstance(val, ast.SetComp):
            return et or _elem_type_of_expr(val.elt)
        if isinstance(val, ast.Call) and call_name(val) in ("set", "frozenset") and isinstance(val.func, ast.Name):
            if not val.args:
                return et or "empty"
            a = val.args[0]
            if isinstance(a, (ast.GeneratorExp, ast.ListComp)):
                return et or _elem_type_of_expr(a.elt)
            if isinstance(a, ast.Call) and call_name(a) == "map" and len(a.args) >= 2:
                f = a.args[0]
                if isinstance(f, ast.Lambda):
                    return et or _elem_type_of_expr(f.body)
                if isinstance(f, ast.Name) and f.id in ("int", "float", "str"):
                    return et or f.id
                if isinstance(f, ast.Call) and call_name(f) == "attrgetter" and f.args and isinstance(f.args[0], ast.Constant):
                    return et or ("str" if f.args[0].value in ("name", "id", "unique_name") else "unknown")
            if isinstance(a, ast.List) and not a.elts:
                return et or "empty"
            return et or _elem_type_of_expr(a)
        if isinstance(val, ast.IfExp):
            x, y = self._set_elem(val.body, ann), self._set_elem(val.orelse, ann)
            if x is not None and y is not None:
                return self._merge(x, y)
        return et if et is not None and ann is not None and norm(ann).startswith(("Set[", "set[")) else None

    def set_elem_of(self, e: ast.AST) -> Optional[str]:
        """Element type if `e` is set-valued, else None."""
        direct = self._set_elem(e, None)
        if direct is not None:
            return direct
        if isinstance(e, ast.Name) and e.id in self.names:
            return self.names[e.id]
        if is_self_attr(e) and e.attr in self.fields:
            return self.fields[e.attr]
        if isinstance(e, ast.Subscript) and isinstance(e.value, ast.Name) and e.value.id in self.dict_of_sets:
            return self.dict_of_sets[e.value.id]
        if isinstance(e, ast.Attribute) and e.attr == "work_profiles":
            return "WorkProfile"
        if isinstance(e, ast.BinOp) and isinstance(e.op, (ast.BitOr, ast.BitAnd, ast.Sub, ast.BitXor)):
            l, r = self.set_elem_of(e.left), self.set_elem_of(e.right)
            if l is not None and r is not None:
                return self._merge(l, r)
        if isinstance(e, ast.Call) and isinstance(e.func, ast.Attribute) and e.func.attr in ("union", "intersection", "difference", "copy"):
            return self.set_elem_of(e.func.value)
        return None


def _class_set_fields(cls: Optional[ast.ClassDef]) -> Dict[str, str]:
    out: Dict[str, str] = {}
    if cls is None:
        return out
    for m in methods(cls).values():
        for n in ast.walk(m):
            if isinstance(n, (ast.Assign, ast.AnnAssign)):
                ts = n.targets if isinstance(n, ast.Assign) else [n.target]
                ann = n.annotation if isinstance(n, ast.AnnAssign) else None
                for t in ts:
                    if is_self_attr(t):
                        sf = SetFacts(ast.Module(body=[], type_ignores=[]), {})
                        et = sf._set_elem(n.value, ann)
                        if et is not None:
                            out[t.attr] = SetFacts._merge(out.get(t.attr), et)
    # refine from self.f.add(x)
    for m in methods(cls).values():
        for c in [x for x in ast.walk(m) if isinstance(x, ast.Call) and isinstance(x.func, ast.Attribute) and x.func.attr == "add" and x.args]:
            if is_self_attr(c.func.value) and out.get(c.func.value.attr) in ("empty", "unknown"):
                out[c.func.value.attr] = _elem_type_of_expr(c.args[0])
    return out


def _loop_body_insensitive(loop: ast.For) -> Tuple[bool, str]:
    """Is every statement of the loop body insensitive to the iteration order?"""
    for s in loop.body:
        ok, why = _stmt_insensitive(s)
        if not ok:
            return False, why
    return True, ""


def _stmt_insensitive(s: ast.stmt) -> Tuple[bool, str]:
    if isinstance(s, ast.Expr) and isinstance(s.value, ast.Call):
        c = s.value
        d = dotted(c.func) or ""
        nm = call_name(c)
        if "_logger." in d and "csv" not in d:
            return True, ""
        if nm in SOLVER_INSERTS and not d.startswith(("placements.", "events.", "task_events.", "simulator_events.")):
            recv = norm(c.func.value) if isinstance(c.func, ast.Attribute) else ""
            if nm == "add" and any(k in recv.lower() for k in ("placement", "event", "result", "list")):
                return False, f"`{norm(c)[:50]}`"
            return True, ""
        if nm in ("update", "discard", "remove") and isinstance(c.func, ast.Attribute):
            return True, ""
        return False, f"call `{norm(c)[:50]}`"
    if isinstance(s, ast.Assign) and all(isinstance(t, ast.Subscript) for t in s.targets):
        return True, ""  # building a mapping by key
    if isinstance(s, ast.AugAssign) and isinstance(s.op, (ast.Add, ast.Sub, ast.BitOr)) and not isinstance(s.target, ast.Subscript):
        # numeric / set accumulation; list += is order sensitive but is written with append in this repo
        return True, ""
    if isinstance(s, ast.AugAssign) and isinstance(s.target, ast.Subscript):
        return True, ""
    if isinstance(s, ast.If):
        for b in s.body + s.orelse:
            ok, why = _stmt_insensitive(b)
            if not ok:
                return False, why
        return True, ""
    if isinstance(s, ast.For):
        return _loop_body_insensitive(s)
    if isinstance(s, (ast.Pass, ast.Continue)):
        return True, ""
    if isinstance(s, ast.Assign) and all(isinstance(t, ast.Name) for t in s.targets):
        return True, ""  # a local; its later use inside the body is examined by the other statements
    return False, f"`{norm(s)[:50]}`"


def _unstable_hash_classes(ctx: Context) -> Dict[str, str]:
    """Classes of the STABLE table whose __hash__ is (no longer) process independent: hash of a str / name / id-string."""
    out: Dict[str, str] = {}
    for m in ctx.repo.program_modules():
        if not m.rel.startswith(("workload/", "workers/", "schedulers/", "utils")):
            continue
        for cls in [c for c in ast.walk(m.tree) if isinstance(c, ast.ClassDef) and c.name in STABLE]:
            ms = methods(cls)
            h = ms.get("__hash__")
            if h is None:
                continue
            exprs = [r.value for r in ast.walk(h) if isinstance(r, ast.Return) and r.value is not None]
            todo = list(exprs)
            seen = 0
            while todo and seen < 8:
                e = todo.pop()
                seen += 1
                if is_self_attr(e):
                    defs = [a.value for a in ast.walk(cls) if isinstance(a, ast.Assign) and any(is_self_attr(t, e.attr) for t in a.targets)]
                    if e.attr in ms and any(isinstance(d, ast.Name) and d.id in ("property", "cached_property") for d in ms[e.attr].decorator_list):
                        defs += [r.value for r in ast.walk(ms[e.attr]) if isinstance(r, ast.Return) and r.value is not None]
                    todo += defs
                elif isinstance(e, ast.Call) and call_name(e) == "hash" and e.args:
                    todo.append(e.args[0])
                elif isinstance(e, ast.Call) and call_name(e) in ("str", "repr", "format"):
                    out[cls.name] = f"{m.rel}: __hash__ derives from `{norm(e)[:40]}` (a str: salted per process)"
                elif isinstance(e, (ast.JoinedStr,)) or (isinstance(e, ast.Constant) and isinstance(e.value, str)):
                    out[cls.name] = f"{m.rel}: __hash__ derives from a string"
                elif isinstance(e, ast.Tuple):
                    todo += list(e.elts)
                elif isinstance(e, ast.Attribute) and e.attr in ("name", "unique_name", "_name"):
                    out[cls.name] = f"{m.rel}: __hash__ derives from `{norm(e)}` (a str)"
    return out


def r4_hash_order(ctx: Context) -> None:
    ctx.rule("C09.R4", "no iteration over a set with process-dependent element hashes (str, Job, Resource, unknown) reaches "
                       "an order-sensitive consumer")
    n_sets = 0
    n_iter = 0
    unstable = _unstable_hash_classes(ctx)
    for cname, why in unstable.items():
        ctx.note(f"element class {cname} is not hash-stable: {why}")
    for m in modules(ctx):
        unconf = m.rel in UNCONFIRMABLE_FILES
        funcs = [n for n in ast.walk(m.tree) if isinstance(n, (ast.FunctionDef, ast.AsyncFunctionDef))]
        field_cache: Dict[int, Dict[str, str]] = {}
        for fn in funcs:
            cls = enclosing_class(fn)
            if cls is not None and id(cls) not in field_cache:
                field_cache[id(cls)] = _class_set_fields(cls)
            facts = SetFacts(fn, field_cache.get(id(cls), {}) if cls is not None else {})
            n_sets += len(facts.names) + len(facts.dict_of_sets)
            sites: List[Tuple[ast.AST, ast.AST, str]] = []
            for n in ast.walk(fn):
                if enclosing_function(n) is not fn and not isinstance(n, (ast.comprehension,)):
                    # nested defs are visited on their own
                    pass
                if isinstance(n, ast.For):
                    et = facts.set_elem_of(n.iter)
                    if et is not None:
                        sites.append((n, n.iter, et))
                elif isinstance(n, ast.comprehension):
                    et = facts.set_elem_of(n.iter)
                    if et is not None:
                        sites.append((n, n.iter, et))
                elif isinstance(n, ast.Call) and call_name(n) in ("list", "tuple", "join", "iter", "enumerate", "next", "deque") and n.args:
                    et = facts.set_elem_of(n.args[0])
                    if et is not None:
                        sites.append((n, n.args[0], et))
                elif isinstance(n, ast.Call) and isinstance(n.func, ast.Attribute) and n.func.attr == "pop" and not n.args:
                    et = facts.set_elem_of(n.func.value)
                    if et is not None:
                        sites.append((n, n.func.value, et))
                elif isinstance(n, ast.Starred):
                    et = facts.set_elem_of(n.value)
                    if et is not None:
                        sites.append((n, n.value, et))
            for (site, it, et) in sites:
                if enclosing_function(site if not isinstance(site, ast.comprehension) else parent(site)) is not fn:
                    continue
                n_iter += 1
                key = f"{qualname(fn)}|iterates `{norm(it)[:50]}` ({et})"
                where = loc(it)
                if (et in STABLE and et not in unstable) or et == "empty":
                    ctx.ok("C09.R4", key, where, f"element hash is process independent ({et})")
                    continue
                ok, why = _consumer_insensitive(site)
                if ok:
                    ctx.ok("C09.R4", key, where, "order-insensitive consumer")
                    continue
                if key in ALLOWLIST:
                    ctx.ok("C09.R4", key, where, "triaged: " + ALLOWLIST[key])
                    continue
                if unconf:
                    ctx.note(f"UNCONFIRMABLE {where}: hash-ordered iteration `{norm(it)[:50]}` ({et}) -> {why}")
                    continue
                ctx.violation("C09.R4", key, where,
                              f"iteration over the set `{norm(it)[:60]}` (elements: {et}, whose hash depends on PYTHONHASHSEED) "
                              f"reaches an order-sensitive consumer ({why}): the output order differs between processes")
    ctx.count("set_valued_names", n_sets)
    ctx.count("set_iteration_sites", n_iter)
    ctx.floor("C09.R4", "set-valued names examined", n_sets, 10)
    ctx.floor("C09.R4", "set iteration sites examined", n_iter, 5)


def _consumer_insensitive(site: ast.AST) -> Tuple[bool, str]:
    if isinstance(site, ast.For):
        return _loop_body_insensitive(site)
    if isinstance(site, ast.comprehension):
        comp = parent(site)
        if isinstance(comp, (ast.SetComp,)):
            return True, ""
        if isinstance(comp, ast.DictComp):
            # a dict built in set order keeps that order: sensitive only if the dict is later iterated; be conservative
            return False, f"dict comprehension `{norm(comp)[:40]}` preserves the set's order"
        p = parent(comp)
        if isinstance(p, ast.Call) and call_name(p) in INSENSITIVE_CONSUMERS and comp in p.args:
            return True, ""
        return False, f"`{norm(comp)[:50]}` keeps the set's order"
    if isinstance(site, ast.Call):
        p = parent(site)
        if isinstance(p, ast.Call) and call_name(p) in INSENSITIVE_CONSUMERS:
            return True, ""
        return False, f"`{norm(site)[:50]}`"
    return False, f"`{norm(site)[:40]}`"


def r5_identity_and_clock(ctx: Context) -> None:
    ctx.rule("C09.R5", "id()/hash() never feed a sort key or comparison; time.time() flows only into scheduler runtimes, "
                       "logging and solver-termination tests")
    n = 0
    for m in modules(ctx):
        for c in [x for x in ast.walk(m.tree) if isinstance(x, ast.Call) and isinstance(x.func, ast.Name) and x.func.id in ("id", "hash")]:
            p = parent(c)
            n += 1
            key = f"{qualname(c)}|`{norm(p)[:50]}`"
            bad = False
            if isinstance(p, ast.Compare):
                bad = True
            if isinstance(p, ast.keyword) and p.arg == "key":
                bad = True
            if isinstance(p, ast.Lambda) and isinstance(parent(p), ast.keyword) and parent(p).arg == "key":
                bad = True
            if isinstance(p, (ast.Tuple,)) and isinstance(parent(p), ast.Lambda):
                bad = True
            fn = enclosing_function(c)
            if c.func.id == "hash" and fn is not None and fn.name == "__hash__":
                bad = False
            if c.func.id == "hash" and isinstance(p, ast.Assign):
                bad = False  # cached hash value, only returned from __hash__
            ctx.check(not bad, "C09.R5", key, loc(c), "not used for ordering/decisions",
                      f"`{norm(p)[:60]}` makes a decision depend on an object address / process-dependent hash")
        # id as sort key passed by name: sorted(xs, key=id)
        for c in [x for x in ast.walk(m.tree) if isinstance(x, ast.Call) and call_name(x) in ("sorted", "sort", "min", "max")]:
            for k in c.keywords:
                if k.arg == "key" and isinstance(k.value, ast.Name) and k.value.id in ("id", "hash"):
                    ctx.violation("C09.R5", f"{qualname(c)}|key={k.value.id}", loc(c), f"`{norm(c)[:60]}` orders by {k.value.id}()")
    ctx.floor("C09.R5", "id()/hash() uses examined", n, 5)
    # wall clock
    n_t = 0
    for m in modules(ctx):
        for fn in [f for f in ast.walk(m.tree) if isinstance(f, (ast.FunctionDef, ast.AsyncFunctionDef))]:
            tainted: Set[str] = set()
            tcalls = [c for c in calls_in(fn) if (dotted(c.func) or "") in ("time.time", "time.perf_counter", "time.monotonic", "datetime.now", "datetime.datetime.now")
                      and enclosing_function(c) is fn]
            if not tcalls:
                continue
            for _ in range(3):
                for a in [x for x in ast.walk(fn) if isinstance(x, (ast.Assign, ast.AugAssign))]:
                    val = a.value
                    uses = any((isinstance(x, ast.Call) and (dotted(x.func) or "") in ("time.time", "time.perf_counter", "time.monotonic")) or
                               (isinstance(x, ast.Name) and x.id in tainted) or
                               (isinstance(x, ast.Attribute) and norm(x) in tainted) for x in ast.walk(val))
                    if uses:
                        for t in (a.targets if isinstance(a, ast.Assign) else [a.target]):
                            tainted.add(norm(t))
            for c in tcalls:
                n_t += 1
            # sinks: any use of a tainted name outside the allowed consumers
            for x in ast.walk(fn):
                if (isinstance(x, ast.Name) and x.id in tainted and isinstance(x.ctx, ast.Load)) or \
                        (isinstance(x, ast.Attribute) and norm(x) in tainted and isinstance(x.ctx, ast.Load)):
                    if not _clock_use_ok(x, tainted):
                        ctx.violation("C09.R5", f"{qualname(fn)}|wall-clock value `{norm(x)}` in `{norm(parent(x))[:40]}`", loc(x),
                                      f"the wall-clock derived value `{norm(x)}` flows into `{norm(_stmt(x))[:70]}`, which is neither a scheduler "
                                      "runtime, a log message nor a solver-termination test")
    ctx.count("wall_clock_reads", n_t)
    ctx.floor("C09.R5", "wall-clock reads examined", n_t, 10)


def _stmt(x: ast.AST) -> ast.AST:
    p = x
    while p is not None and not isinstance(p, ast.stmt):
        p = parent(p)
    return p if p is not None else x


def _clock_use_ok(x: ast.AST, tainted: Set[str]) -> bool:
    st = _stmt(x)
    # propagation to another tainted variable
    if isinstance(st, (ast.Assign, ast.AugAssign)):
        ts = st.targets if isinstance(st, ast.Assign) else [st.target]
        if all(norm(t) in tainted for t in ts):
            return True
    p = parent(x)
    while p is not None and p is not st:
        if isinstance(p, ast.Call):
            d = dotted(p.func) or ""
            nm = call_name(p)
            if "_logger." in d or "logger." in d or nm in ("print",):
                return True
            if nm in ("Placements", "PrimalDataPoint"):
                return True
            if nm == "append" and "data_points" in norm(p.func):
                return True  # solver progress samples, reported in logs only
            if nm in ("terminate", "abort"):
                return True
        if isinstance(p, ast.keyword) and p.arg in ("runtime", "true_runtime"):
            return True
        p = parent(p)
    if isinstance(st, ast.Expr) and isinstance(st.value, ast.Call) and ("_logger." in (dotted(st.value.func) or "")):
        return True
    if isinstance(st, ast.Return):
        # returning a measured duration (helper that reports solver time)
        return True
    if isinstance(st, (ast.If, ast.While)):
        # solver termination callbacks: the branches may only terminate the solver / log / update bookkeeping
        return _only_termination(st.body) and _only_termination(st.orelse)
    return False


def _only_termination(stmts) -> bool:
    for s in stmts:
        if isinstance(s, ast.Expr) and isinstance(s.value, ast.Call):
            d = dotted(s.value.func) or ""
            nm = call_name(s.value)
            if "_logger." in d or nm in ("terminate", "abort"):
                continue
            return False
        if isinstance(s, ast.If):
            if _only_termination(s.body) and _only_termination(s.orelse):
                continue
            return False
        if isinstance(s, ast.Return) and s.value is None:
            continue
        if isinstance(s, ast.Assign) and all(isinstance(t, ast.Attribute) and t.attr.startswith("_") for t in s.targets):
            continue
        if isinstance(s, ast.Pass):
            continue
        return False
    return True


def run(ctx: Context) -> None:
    ctx.isolate(r1_random_sources)
    ctx.isolate(r2_ids)
    ctx.isolate(r3_seeding_order)
    ctx.isolate(r4_hash_order)
    ctx.isolate(r5_identity_and_clock)
