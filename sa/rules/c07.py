"""C07 — Conditional branches: exactly one branch runs, the others are cancelled."""
from __future__ import annotations

import ast
from typing import Dict, List, Optional, Set, Tuple

from .. import cfg as cfgmod
from .. import lin
from ..anchors import JOBS, TASKS
from ..core import (
    AnalysisError,
    call_name,
    calls_in,
    dotted,
    enclosing_function,
    is_self_attr,
    loc,
    method,
    methods,
    norm,
    parent,
    qualname,
    src,
)
from ..report import Context
from . import c02

EXPLANATION = (
    "Static path analysis of the conditional branch of TaskGraph.notify_task_completion: on every path that does "
    "not return early exactly one child is appended to the released list; the population and the weights of the "
    "draw come from the same get_children(task) list; the all-zero-probability case cancels every child and returns "
    "before the draw; the draw is random.choices(population, weights, k=1)[0] (a zero-weight child is never chosen); "
    "every child other than the chosen one goes through TaskGraph.cancel and the chosen one gets probability 1; the "
    "terminal join is ready/released when any one parent completed (C02.R3/R4); resolution at submission has the same "
    "one-of-N shape and zeroes the probability of every node of an untaken branch up to, excluding, the first "
    "terminal; resolve_conditional on a completed conditional returns the child with the highest probability. NOT "
    "decided: that nothing from an untaken branch executes in a whole run, nested conditionals, the random draws."
)
ASSUMPTIONS = ["random.choices never returns an element whose weight is 0 when some weight is positive (stdlib semantics)"]


def _cond_region(ctx: Context):
    tg = ctx.repo.mod(TASKS).cls("TaskGraph")
    fn = method(tg, "notify_task_completion")
    ifs = [s for s in fn.body if isinstance(s, ast.If) and norm(s.test) in ("task.conditional",)]
    if len(ifs) != 1:
        raise AnalysisError("notify_task_completion: `if task.conditional:` not found")
    return fn, ifs[0]


def r1_one_of_n(ctx: Context) -> None:
    ctx.rule("C07.R1", "conditional completion: exactly one release per non-early-return path; all-zero case cancels all "
                       "and returns before the draw; non-chosen children are cancelled, the chosen one gets probability 1")
    fn, cond = _cond_region(ctx)
    ctx.analysed_function(f"{TASKS}::TaskGraph.notify_task_completion")
    rets = [r for r in ast.walk(fn) if isinstance(r, ast.Return) and isinstance(r.value, ast.Tuple) and len(r.value.elts) == 2]
    names = {(norm(r.value.elts[0]), norm(r.value.elts[1])) for r in rets}
    if len(names) != 1:
        raise AnalysisError("notify_task_completion returns differently shaped tuples")
    released, cancelled = names.pop()
    body = ast.FunctionDef(name="__conditional__", args=ast.arguments(posonlyargs=[], args=[], kwonlyargs=[], kw_defaults=[], defaults=[]),
                           body=cond.body, decorator_list=[], lineno=cond.lineno, col_offset=0)
    g = cfgmod.build(body)
    draws = [c for c in calls_in(ast.Module(body=cond.body, type_ignores=[]), "choices")]
    ctx.floor("C07.R1", "random.choices draw", len(draws), 1)
    draw_node = g.node_of(draws[0])
    n_paths = 0
    for path in g.paths(loop_bound=2):
        if path[-1][0].kind != "ret":
            continue
        n_paths += 1
        last = path[-2][0].ast
        early = isinstance(last, ast.Return)
        appends = 0
        drew = False
        cancels = 0
        seen_ids = set()
        for (n, _l) in path:
            if n.id == draw_node.id:
                drew = True
            if n.ast is None or n.kind == "for":
                continue
            for c in ast.walk(n.ast):
                if isinstance(c, ast.Call) and call_name(c) == "append" and norm(c.func.value) == released:
                    appends += 1
                if isinstance(c, ast.Call) and call_name(c) == "cancel" and is_self_attr(c.func) and len(c.args) == 2:
                    cancels += 1
        conds = cfgmod.path_conditions(path)
        desc = " & ".join(f"{p}:{norm(t)[:35]}" for p, t in conds)
        key = f"TaskGraph.notify_task_completion|conditional path[{desc}]"
        if early:
            ctx.check(appends == 0 and not drew, "C07.R1", key, loc(last), "early return: nothing released, no draw",
                      f"an early-return path released {appends} children / drew={drew}")
        else:
            ctx.check(appends == 1 and drew, "C07.R1", key, loc(cond), "one child released after one draw",
                      f"a completing path through the conditional branch releases {appends} children (draw made: {drew}): "
                      "exactly one branch must be taken")
    ctx.count("conditional_paths", n_paths)
    ctx.floor("C07.R1", "paths through the conditional branch", n_paths, 4)
    # all-zero case
    zero_tests = [t for t in g.nodes if t.kind == "test" and isinstance(t.ast, ast.Call) and call_name(t.ast) == "all" and "epsilon" in norm(t.ast)]
    ok = False
    if zero_tests:
        t = zero_tests[0]
        ifn = parent(t.ast)
        ok = isinstance(ifn, ast.If) and isinstance(ifn.body[-1], ast.Return) and g.edge_dominates(t, "F", draw_node)
        loops = [s for s in ifn.body if isinstance(s, ast.For)]
        ok = ok and len(loops) == 1 and any(call_name(c) == "cancel" for c in calls_in(loops[0])) and "get_children(task)" in _resolve_name(fn, loops[0].iter)
        a = t.ast.args[0]
        elt = a.elt if isinstance(a, (ast.ListComp, ast.GeneratorExp)) else None
        ok = ok and elt is not None and isinstance(elt, ast.Compare) and isinstance(elt.ops[0], (ast.LtE, ast.Lt))
    ctx.check(ok, "C07.R1", "TaskGraph.notify_task_completion|all-zero probabilities: cancel every child, return before the draw", loc(cond),
              "guarded", "when every child has zero probability the draw is still made (random.choices raises / picks a cancelled child)")
    # after the draw: chosen gets 1.0, others cancelled
    loops = [s for s in cond.body if isinstance(s, ast.For)]
    post = [l for l in loops if any(isinstance(x, ast.Compare) and "child_to_release" in norm(x) for x in ast.walk(l))]
    chosen_var = None
    for a in ast.walk(cond):
        if isinstance(a, ast.Assign) and any(c is draws[0] for c in ast.walk(a.value)):
            chosen_var = norm(a.targets[0])
    ok = False
    if post and chosen_var:
        lp = post[0]
        ifs = [s for s in lp.body if isinstance(s, ast.If)]
        if len(ifs) == 1 and isinstance(ifs[0].test, ast.Compare) and {norm(ifs[0].test.left), norm(ifs[0].test.comparators[0])} == {norm(lp.target), chosen_var}:
            eq = isinstance(ifs[0].test.ops[0], ast.Eq)
            same, other = (ifs[0].body, ifs[0].orelse) if eq else (ifs[0].orelse, ifs[0].body)
            up = any(isinstance(c, ast.Call) and call_name(c) == "update_probability" and lin.lin_of(c.args[0]).const == 1 for s in same for c in ast.walk(s))
            ca = any(isinstance(c, ast.Call) and call_name(c) == "cancel" and is_self_attr(c.func) and norm(c.args[0]) == norm(lp.target)
                     and isinstance(parent(c), ast.Call) and call_name(parent(c)) == "extend" and norm(parent(c).func.value) == cancelled
                     for s in other if not isinstance(s, (ast.If, ast.For, ast.While, ast.Try, ast.With, ast.Match)) for c in ast.walk(s)
                     if not any(isinstance(q, ast.IfExp) and c is not q.test and any(c is z for z in ast.walk(q)) for q in ast.walk(s)))
            no_cancel_same = not any(isinstance(c, ast.Call) and call_name(c) == "cancel" for s in same for c in ast.walk(s))
            ok = up and ca and no_cancel_same and "get_children(task)" in _resolve_name(fn, lp.iter)
    ctx.check(ok, "C07.R1", "TaskGraph.notify_task_completion|siblings of the chosen child are cancelled (cascade) and reported", loc(cond),
              "for child: chosen -> p=1.0, else cancelled.extend(self.cancel(child, t))",
              "not every untaken child goes through TaskGraph.cancel into the returned cancelled list (the cancel must be unconditional in the "
              "arm of the children that were not drawn: a SCHEDULED child left out starts without ever being released)")
    apps = [c for c in calls_in(ast.Module(body=cond.body, type_ignores=[]), "append") if norm(c.func.value) == released]
    ctx.check(len(apps) == 1 and chosen_var is not None and norm(apps[0].args[0]) == chosen_var, "C07.R1",
              "TaskGraph.notify_task_completion|the released child is the drawn one", loc(apps[0]) if apps else loc(cond), "released.append(chosen)",
              f"released `{norm(apps[0].args[0]) if apps else '?'}` but drew `{chosen_var}`")
    # sum-to-one guard before the draw
    sums = [t for t in g.nodes if t.kind == "test" and "sum(" in norm(t.ast) and "1.0" in norm(t.ast)]
    ok = bool(sums) and g.edge_dominates(sums[0], "F", draw_node) and any(isinstance(x, ast.Raise) for x in parent(sums[0].ast).body)
    ctx.check(ok, "C07.R1", "TaskGraph.notify_task_completion|probabilities checked to sum to one before the draw", loc(cond), "guarded",
              "the draw is made without checking the children's probabilities")


def _resolve_name(fn: ast.FunctionDef, e: ast.AST) -> str:
    if isinstance(e, ast.Name):
        defs = [n for n in ast.walk(fn) if isinstance(n, ast.Assign) and len(n.targets) == 1 and isinstance(n.targets[0], ast.Name) and n.targets[0].id == e.id]
        if len(defs) == 1:
            return norm(defs[0].value)
    return norm(e)


def r2_draw_roles(ctx: Context) -> None:
    ctx.rule("C07.R2", "the draw is random.choices(population=children, weights=their probabilities, k=1)[0] over the same children list")
    fn, cond = _cond_region(ctx)
    draws = [c for c in calls_in(cond, "choices")]
    ctx.floor("C07.R2", "draw", len(draws), 1)
    d = draws[0]
    ok_mod = (dotted(d.func) or "") == "random.choices"
    pop = next((k.value for k in d.keywords if k.arg == "population"), d.args[0] if d.args else None)
    wts = next((k.value for k in d.keywords if k.arg == "weights"), d.args[1] if len(d.args) > 1 else None)
    k = next((k.value for k in d.keywords if k.arg == "k"), None)
    ctx.check(ok_mod, "C07.R2", "TaskGraph.notify_task_completion|draw from the seeded module generator", loc(d), "random.choices", f"draw is `{norm(d.func)}`")
    okp = pop is not None and "get_children(task)" in _resolve_name(fn, pop)
    ctx.check(okp, "C07.R2", "TaskGraph.notify_task_completion|population = children of the conditional", loc(d), _resolve_name(fn, pop) if pop is not None else "?",
              f"population is `{_resolve_name(fn, pop) if pop is not None else '?'}`")
    okw = False
    if wts is not None and pop is not None:
        w = _resolve_name(fn, wts)
        # [child.probability for child in <pop>]
        wd = [n for n in ast.walk(fn) if isinstance(n, ast.Assign) and len(n.targets) == 1 and norm(n.targets[0]) == norm(wts)]
        wv = wd[0].value if wd else wts
        okw = isinstance(wv, ast.ListComp) and norm(wv.generators[0].iter) == norm(pop) and not wv.generators[0].ifs \
            and norm(wv.elt) == f"{norm(wv.generators[0].target)}.probability"
    ctx.check(okw, "C07.R2", "TaskGraph.notify_task_completion|weights = probabilities of the same list, same order", loc(d),
              "[c.probability for c in population]", "weights are not the probabilities of the population in the same order")
    okk = k is not None and isinstance(k, ast.Constant) and k.value == 1
    sub = parent(d)
    oki = isinstance(sub, ast.Subscript) and isinstance(sub.slice, ast.Constant) and sub.slice.value == 0
    ctx.check(okk and oki, "C07.R2", "TaskGraph.notify_task_completion|k=1 and the single sample is taken", loc(d), "choices(..., k=1)[0]", f"`{norm(sub)[:80]}`")
    # Task.probability comes from the job unless overridden
    task = ctx.repo.mod(TASKS).cls("Task")
    pm = methods(task).get("probability")
    ok = pm is not None and any(isinstance(r, ast.Return) and is_self_attr(r.value, "_probability") for r in ast.walk(pm))
    ctx.check(ok, "C07.R2", "Task.probability|accessor", loc(pm) if pm else loc(task), "ok", "accessor changed")
    up = method(task, "update_probability")
    ok = any(isinstance(a, ast.Assign) and is_self_attr(a.targets[0], "_probability") and norm(a.value) == up.args.args[1].arg for a in ast.walk(up))
    ctx.check(ok, "C07.R2", "Task.update_probability|stores the given value", loc(up), "ok", "update_probability does not store its argument")
    cn = method(task, "cancel")
    ok = any(call_name(c) == "update_probability" and lin.lin_of(c.args[0]).is_const() and lin.lin_of(c.args[0]).const == 0 for c in calls_in(cn))
    ctx.check(ok, "C07.R2", "Task.cancel|cancelled tasks get probability 0", loc(cn), "ok", "a cancelled task keeps a positive probability and can be drawn/predicted")


def r4_resolution_at_submission(ctx: Context) -> None:
    ctx.rule("C07.R4", "resolution at submission: one child drawn from the conditional's children; chosen -> 1.0, others -> 0.0 "
                       "and 0.0 for every descendant up to, excluding, the first terminal job")
    jg = ctx.repo.mod(JOBS).cls("JobGraph")
    fn = method(jg, "_generate_task_graph")
    ctx.analysed_function(f"{JOBS}::JobGraph._generate_task_graph")
    draws = [c for c in calls_in(fn, "choices")]
    ctx.floor("C07.R4", "draw at submission", len(draws), 1)
    d = draws[0]
    g = cfgmod.build(fn)
    dn = g.node_of(d)
    guards = [t for t in g.nodes if t.kind == "test" and g.edge_dominates(t, "T", dn) and "conditional" in norm(t.ast)]
    ok = bool(guards) and all(s in norm(guards[0].ast) for s in ("resolve_conditionals", ".conditional"))
    ctx.check(ok, "C07.R4", "JobGraph._generate_task_graph|draw only for conditionals when resolution is requested", loc(d),
              norm(guards[0].ast)[:80] if guards else "?", "the submission-time draw is not restricted to conditional tasks with the flag set")
    pop = next((k.value for k in d.keywords if k.arg == "population"), None)
    wts = next((k.value for k in d.keywords if k.arg == "weights"), None)
    ok = pop is not None and wts is not None and isinstance(wts, ast.ListComp) and norm(wts.generators[0].iter) == norm(pop) \
        and norm(wts.elt).endswith(".probability")
    ctx.check(ok, "C07.R4", "JobGraph._generate_task_graph|weights are the probabilities of the population", loc(d), "ok", "population/weights mismatch")
    ifn = parent(guards[0].ast) if guards else None
    loops = [s for s in (ifn.body if isinstance(ifn, ast.If) else []) if isinstance(s, ast.For)]
    ok = False
    why = "update loop not found"
    if loops:
        lp = loops[0]
        ifs = [s for s in lp.body if isinstance(s, ast.If)]
        if ifs and isinstance(ifs[0].test, ast.Compare) and "child_to_release" in norm(ifs[0].test):
            eq = isinstance(ifs[0].test.ops[0], ast.Eq)
            same, other = (ifs[0].body, ifs[0].orelse) if eq else (ifs[0].orelse, ifs[0].body)
            one = any(call_name(c) == "update_probability" and lin.lin_of(c.args[0]).const == 1 for s in same for c in ast.walk(s) if isinstance(c, ast.Call))
            zero = any(call_name(c) == "update_probability" and lin.lin_of(c.args[0]).const == 0 and norm(c.func.value) == norm(lp.target)
                       for s in other for c in ast.walk(s) if isinstance(c, ast.Call))
            inner = [s for s in other if isinstance(s, ast.For)]
            prop = False
            if inner:
                il = inner[0]
                first = il.body[0] if il.body else None
                brk = isinstance(first, ast.If) and norm(first.test) == f"{norm(il.target)}.terminal" and any(isinstance(x, ast.Break) for x in first.body)
                if isinstance(first, ast.If) and norm(first.test).endswith(".terminal") and norm(first.test) != f"{norm(il.target)}.terminal":
                    why = f"the descent stops on `{norm(first.test)}`, not on the visited descendant `{norm(il.target)}`: it never stops at the join and zeroes everything after it"
                # the descendant whose probability is zeroed is the visited one
                zs = [c for c in calls_in(il) if call_name(c) == "update_probability"]
                for zc in zs:
                    base = norm(zc.func.value)
                    defs = [a for a in ast.walk(il) if isinstance(a, ast.Assign) and norm(a.targets[0]) == base]
                    if defs and norm(il.target) not in norm(defs[0].value):
                        brk = False
                        why = f"`{base}` (zeroed) is not derived from the visited descendant `{norm(il.target)}`"
                zero_desc = any(call_name(c) == "update_probability" and lin.lin_of(c.args[0]).const == 0 for c in calls_in(il))
                starts = "breadth_first(" in norm(il.iter) and norm(lp.target) in norm(il.iter)
                # the zeroing happens after the terminal test in the body (terminal itself is excluded)
                prop = brk and zero_desc and starts
                if not brk and why == "update loop not found":
                    why = "the descent does not stop at the first terminal job (the join would be zeroed)"
                elif not zero_desc:
                    why = "descendants of the untaken child keep their probability"
            else:
                why = "descendants of the untaken child are not visited"
            ok = one and zero and prop
            if not one or not zero:
                why = "chosen child is not set to 1.0 / other children not set to 0.0"
    ctx.check(ok, "C07.R4", "JobGraph._generate_task_graph|untaken branches zeroed down to (excluding) the terminal", loc(d),
              "chosen=1.0; others and their descendants before the terminal = 0.0", why)


def r5_resolve_completed(ctx: Context) -> None:
    ctx.rule("C07.R5", "resolve_conditional on a completed conditional returns the single child with the highest probability")
    tg = ctx.repo.mod(TASKS).cls("TaskGraph")
    fn = method(tg, "resolve_conditional")
    ctx.analysed_function(f"{TASKS}::TaskGraph.resolve_conditional")
    ifs = [s for s in fn.body if isinstance(s, ast.If) and norm(s.test) == "task.is_complete()"]
    ok = False
    if ifs:
        b = ifs[0].body
        loops = [s for s in b if isinstance(s, ast.For)]
        if loops:
            cmp_ = [x for x in ast.walk(loops[0]) if isinstance(x, ast.Compare) and "probability" in norm(x)]
            upd = [x for x in ast.walk(loops[0]) if isinstance(x, ast.Assign)]
            if cmp_ and upd and isinstance(cmp_[0].ops[0], (ast.Gt, ast.GtE)) and norm(cmp_[0].left).startswith(norm(loops[0].target)) \
                    and norm(upd[0].value) == norm(loops[0].target):
                best = norm(upd[0].targets[0])
                app = [c for c in calls_in(ast.Module(body=b, type_ignores=[]), "append")]
                ok = len(app) == 1 and norm(app[0].args[0]) == best
                if not ok and not app:
                    # the branch answers directly: `return [best]`
                    rs = [r for s_ in b for r in ast.walk(s_) if isinstance(r, ast.Return)]
                    ok = len(rs) == 1 and isinstance(rs[0].value, ast.List) and len(rs[0].value.elts) == 1 and norm(rs[0].value.elts[0]) == best
    ctx.check(ok, "C07.R5", "TaskGraph.resolve_conditional|completed conditional -> arg-max probability child", loc(fn), "arg-max",
              "a completed conditional is not resolved to the branch that was actually taken (probability 1.0)")
    # first branch tested: completed state takes precedence over the policy
    first_if = [s for s in fn.body if isinstance(s, ast.If) and "policy" in norm(s.test) or (isinstance(s, ast.If) and norm(s.test) == "task.is_complete()")]
    ctx.check(bool(first_if) and norm(first_if[0].test) == "task.is_complete()", "C07.R5", "TaskGraph.resolve_conditional|completion takes precedence over the policy",
              loc(fn), "ok", "the prediction policy is consulted before checking that the branch is already decided")
    rets = [r for r in ast.walk(fn) if isinstance(r, ast.Return)]
    def _is_task_list(v):
        return v is not None and (norm(v) == "resolved_tasks" or (isinstance(v, ast.List) and len(v.elts) >= 1)
                                  or (isinstance(v, ast.Call) and call_name(v) == "list" and len(v.args) == 1))
    ctx.check(bool(rets) and all(_is_task_list(r.value) for r in rets), "C07.R5", "TaskGraph.resolve_conditional|returns the resolved list", loc(fn), "ok", "returns something else")


def run(ctx: Context) -> None:
    ctx.isolate(r1_one_of_n)
    ctx.isolate(r2_draw_roles)
    ctx.isolate(c02.r3_readiness_predicate)
    ctx.isolate(c02.r4_release_discipline)
    ctx.isolate(r4_resolution_at_submission)
    ctx.isolate(r5_resolve_completed)
    from . import c06
    ctx.isolate(c06.r9_cascade_exemptions, _alias={"C06.R9": "C07.R6", "C06.R11": "C07.R6b"})
    from . import c19
    ctx.isolate(c19.r10_flags_threaded, _alias={"C19.R10": "C07.R7"})
