"""C04 — Resource ledger conservation (also provides the shared ledger rules used by C01)."""
from __future__ import annotations

import ast
from typing import Dict, List, Optional, Set, Tuple

from .. import cfg as cfgmod
from ..anchors import RESOURCES, SIM, WORKERS, Sim
from ..core import (
    resolve_local,
    AnalysisError,
    Repo,
    call_name,
    calls_in,
    dotted,
    enclosing_class,
    enclosing_function,
    is_self_attr,
    loc,
    mangle,
    method,
    methods,
    norm,
    parent,
    qualname,
    src,
    stmt_of,
)
from ..report import Context

EXPLANATION = (
    "Static effect analysis of the resource ledger (workload/resources.py::Resources) and of the Worker "
    "occupancy tables: per-path effect summaries of Worker.place_task/remove_task/load_profile/evict_profile "
    "must be one of the bundles that keep the ledger entry and the co-indexed tables in step (a delete "
    "followed by a re-insert of the same key is reported); exception-safety: in the request entry points no "
    "path reaches a refusal (raise, or a callee that may refuse) after a ledger/table mutation unless a "
    "rollback handler protects it; deallocate returns every recorded (resource, quantity) and deletes the "
    "record; every field built in __init__ of Resources/Worker/WorkerPool/WorkerPools is rebuilt in __copy__ "
    "without aliasing mutable state, __deepcopy__ starts from totals and copies no occupancy; the finish and "
    "preempt handlers remove the task from its pool before finish()/preempt(). NOT decided: numeric "
    "conservation (available + allocated == total) over arbitrary operation histories."
)
ASSUMPTIONS = [
    "implicit exceptions (KeyError, TypeError...) are not refusals and are not modelled",
    "receivers are resolved through the frozen table: self._resources -> Resources, self._workers[..] -> Worker",
    "WorkerPool.load_profile/evict_profile broadcast to several workers is a sequence of per-worker requests, "
    "each of which is atomic; atomicity of the broadcast as a whole is not claimed",
]

LEDGER = "LEDGER"
WORKER_TABLES = ["_placed_tasks", "_placed_batches", "_batch_tasks_for_strategy", "_available_profiles", "_pending_profiles"]
LEDGER_FIELDS = ["_resource_vector", "_Resources__total_resources", "_current_allocations"]

# Allowed net effects of one normal-exit path through a Worker mutator.
# (ledger, frozenset(table inserts), frozenset(table deletes), member op)
ALLOWED_BUNDLES = {
    "nothing": (0, frozenset(), frozenset(), 0),
    "place": (+1, frozenset({"_placed_tasks"}), frozenset(), 0),
    "place-new-batch": (+1, frozenset({"_placed_tasks", "_placed_batches", "_batch_tasks_for_strategy"}), frozenset(), +1),
    "join-batch": (0, frozenset({"_placed_tasks"}), frozenset(), +1),
    "remove": (-1, frozenset(), frozenset({"_placed_tasks"}), 0),
    "remove-last-of-batch": (-1, frozenset(), frozenset({"_placed_tasks", "_placed_batches", "_batch_tasks_for_strategy"}), -1),
    "remove-batch-member": (0, frozenset(), frozenset({"_placed_tasks"}), -1),
    "load": (+1, frozenset({"_pending_profiles"}), frozenset(), 0),
    "evict-available": (-1, frozenset(), frozenset({"_available_profiles"}), 0),
    "evict-pending": (-1, frozenset(), frozenset({"_pending_profiles"}), 0),
}


class Effect:
    __slots__ = ("kind", "struct", "key", "node", "value")

    def __init__(self, kind, struct, key, node, value=None):
        self.kind, self.struct, self.key, self.node, self.value = kind, struct, key, node, value

    def __repr__(self):
        return f"{self.kind}({self.struct}[{self.key}])"


def _self_table(node: ast.AST, tables: List[str]) -> Optional[str]:
    if is_self_attr(node) and node.attr in tables:
        return node.attr
    return None


def node_effects(n: cfgmod.Node, tables: List[str], aliases: Dict[str, Tuple[str, str]],
                 resources_field: str = "_resources") -> List[Effect]:
    """Effects of one CFG node, in evaluation order (approximately source order)."""
    out: List[Effect] = []
    a = n.ast
    if a is None:
        return out
    roots: List[ast.AST]

    def _tbl(e: ast.AST) -> Optional[str]:
        """A table of self, named directly or through a local bound to the whole table on this path (`held = self._pending_profiles`)."""
        if isinstance(e, ast.Name) and aliases.get(e.id, ("", ""))[0] == "@table":
            return aliases[e.id][1]
        return _self_table(e, tables)

    if n.kind == "for":
        roots = [a.iter]
    elif n.kind == "with":
        roots = [i.context_expr for i in a.items]
    else:
        roots = [a]
    for root in roots:
        # alias definitions
        if isinstance(root, ast.Assign) and len(root.targets) == 1 and isinstance(root.targets[0], ast.Name):
            v = root.value
            tgt = root.targets[0].id
            if isinstance(v, ast.Subscript) and _tbl(v.value):
                aliases[tgt] = (_tbl(v.value), norm(v.slice))
            elif isinstance(v, ast.Call) and isinstance(v.func, ast.Attribute) and v.func.attr == "get" \
                    and _tbl(v.func.value) and v.args:
                aliases[tgt] = (_tbl(v.func.value), norm(v.args[0]))
            elif _self_table(v, tables):
                aliases[tgt] = ("@table", _self_table(v, tables))
            else:
                aliases.pop(tgt, None)
        calls = [c for c in ast.walk(root) if isinstance(c, ast.Call)]
        calls.sort(key=lambda c: (c.end_lineno or 0, c.end_col_offset or 0))
        for c in calls:
            f = c.func
            if isinstance(f, ast.Attribute):
                if f.attr in ("allocate_multiple", "allocate") and is_self_attr(f.value, resources_field):
                    comp = c.args[1] if len(c.args) > 1 else next((k.value for k in c.keywords if k.arg == "computation"), None)
                    out.append(Effect("alloc", LEDGER, norm(comp) if comp is not None else "?", c))
                elif f.attr == "deallocate" and is_self_attr(f.value, resources_field):
                    comp = c.args[0] if c.args else next((k.value for k in c.keywords if k.arg == "computation"), None)
                    out.append(Effect("dealloc", LEDGER, norm(comp) if comp is not None else "?", c))
                elif f.attr in ("add", "append", "remove", "discard", "pop", "clear", "update"):
                    tgt = f.value
                    struct_key = None
                    if isinstance(tgt, ast.Subscript) and _tbl(tgt.value):
                        struct_key = (_tbl(tgt.value), norm(tgt.slice))
                    elif isinstance(tgt, ast.Name) and tgt.id in aliases and aliases[tgt.id][0] != "@table":
                        struct_key = aliases[tgt.id]
                    elif _tbl(tgt) and f.attr in ("pop", "clear", "update"):
                        k = norm(c.args[0]) if c.args else "*"
                        out.append(Effect("del" if f.attr in ("pop", "clear") else "set", _tbl(tgt), k, c))
                        continue
                    if struct_key:
                        kind = "member+" if f.attr in ("add", "append", "update") else "member-"
                        out.append(Effect(kind, struct_key[0], struct_key[1], c))
        if isinstance(root, (ast.Assign, ast.AugAssign, ast.AnnAssign)):
            targets = root.targets if isinstance(root, ast.Assign) else [root.target]
            for t in targets:
                if isinstance(t, ast.Subscript) and _tbl(t.value):
                    val = root.value
                    kind = "set"
                    if isinstance(val, ast.Name) and aliases.get(val.id) == (_tbl(t.value), norm(t.slice)):
                        kind = "reset"  # re-binds the value that was read from the same slot
                    out.append(Effect(kind, _tbl(t.value), norm(t.slice), root, val))
                elif _self_table(t, tables):
                    out.append(Effect("replace", _self_table(t, tables), "*", root))
        if isinstance(root, ast.Delete):
            for t in root.targets:
                if isinstance(t, ast.Subscript) and _tbl(t.value):
                    out.append(Effect("del", _tbl(t.value), norm(t.slice), root))
    return out


def summarise(effects: List[Effect]):
    """-> (ledger delta, inserts, deletes, member delta, resurrected [(struct,key,node)])"""
    ledger = 0
    member = 0
    per: Dict[Tuple[str, str], List[Effect]] = {}
    for e in effects:
        if e.kind == "alloc":
            ledger += 1
        elif e.kind == "dealloc":
            ledger -= 1
        elif e.kind == "member+":
            member += 1
        elif e.kind == "member-":
            member -= 1
        elif e.kind in ("set", "reset", "del", "replace"):
            per.setdefault((e.struct, e.key), []).append(e)
    ins, dels, res = set(), set(), []
    for (struct, key), ops in per.items():
        kinds = [o.kind for o in ops]
        first = next((k for k in kinds if k != "reset"), None)
        last = kinds[-1]
        if first is None:
            continue  # only re-binds of the same value
        if first == "del" and last in ("set", "reset"):
            res.append((struct, key, ops[-1].node))
        elif first == "del":
            dels.add(struct)
        elif first in ("set", "replace") and last in ("set", "reset", "replace"):
            ins.add(struct)
        # set ... del on one path: transient, no net effect
    return ledger, frozenset(ins), frozenset(dels), member, res


def r1_coindexed(ctx: Context, rule: str = "C04.R1") -> None:
    ctx.rule(rule, "every normal-exit path of Worker.place_task/remove_task/load_profile/evict_profile changes the "
                   "ledger entry and the co-indexed occupancy tables together (allowed bundles); no delete-then-reinsert")
    mod = ctx.repo.mod(WORKERS)
    worker = mod.cls("Worker")
    found = 0
    for name in ("place_task", "remove_task", "load_profile", "evict_profile"):
        fn = method(worker, name)
        ctx.analysed_function(f"{WORKERS}::Worker.{name}")
        g = cfgmod.build(fn)
        npaths = 0
        for path in g.paths(loop_bound=1):
            if path[-1][0].kind != "ret":
                continue
            npaths += 1
            aliases: Dict[str, Tuple[str, str]] = {}
            effects: List[Effect] = []
            for (node, _lab) in path:
                effects += node_effects(node, WORKER_TABLES, aliases)
            ledger, ins, dels, member, res = summarise(effects)
            conds = [f"{pol}:{norm(t)[:60]}" for pol, t in cfgmod.path_conditions(path)]
            desc = f"ledger{ledger:+d} ins={sorted(ins)} del={sorted(dels)} member{member:+d}"
            key = f"Worker.{name}|path[{' & '.join(conds) or 'straight'}]"
            where = f"{WORKERS}:{fn.lineno}"
            for (struct, k, nd) in res:
                ctx.violation(rule, f"Worker.{name}|{struct}[{k}] deleted then re-inserted", loc(nd),
                              f"`{norm(nd)}` re-inserts {struct}[{k}] after it was deleted on the same path: the table "
                              "keeps an entry whose ledger allocation is gone")
            bundle = (ledger, ins, dels, member)
            names = [b for b, v in ALLOWED_BUNDLES.items() if v == bundle]
            if names:
                found += 1
                ctx.ok(rule, key, where, f"{names[0]}: {desc}")
                if names[0] != "nothing":
                    ctx.sample({"function": f"Worker.{name}", "path": conds, "effects": [repr(e) for e in effects], "bundle": names[0]})
                _key_agreement(ctx, rule, name, names[0], effects, key, where)
            elif not res:
                ctx.violation(rule, key, where,
                              f"path changes the structures out of step ({desc}); effects: {[repr(e) for e in effects]}")
            if names and names[0] == "join-batch":
                _join_guards(ctx, name, path, effects, where)
            if names and names[0] in ("remove-last-of-batch", "remove-batch-member"):
                _leave_guards(ctx, rule, name, names[0], path, effects, where)
        ctx.count("worker_mutator_paths", npaths)
    ctx.floor(rule, "bundled paths in Worker mutators", found, 8)
    # who may write the Worker tables
    n = 0
    for m in ctx.repo.program_modules():
        for node in ast.walk(m.tree):
            tgt = None
            if isinstance(node, (ast.Assign, ast.AugAssign, ast.Delete)):
                ts = node.targets if isinstance(node, (ast.Assign, ast.Delete)) else [node.target]
                for t in ts:
                    base = t.value if isinstance(t, ast.Subscript) else t
                    if isinstance(base, ast.Attribute) and base.attr in ("_placed_batches", "_batch_tasks_for_strategy",
                                                                       "_available_profiles", "_pending_profiles"):
                        tgt = base
            if tgt is not None:
                cls = enclosing_class(node)
                n += 1
                ctx.check(m.rel == WORKERS and cls is not None and cls.name == "Worker", rule,
                          f"{qualname(node)}|{norm(node)[:60]} owner", loc(node), "written inside Worker",
                          f"`{norm(node)[:80]}` writes a Worker occupancy table from outside class Worker")
    ctx.floor(rule, "writes of Worker occupancy tables", n, 8)
    # every access of the batch tables uses the strategy object itself as key (never a derived attribute such as `.id`)
    n_keys = 0
    for tbl in ("_placed_batches", "_batch_tasks_for_strategy"):
        for node in ast.walk(worker):
            key = None
            if isinstance(node, ast.Subscript) and is_self_attr(node.value, tbl):
                key = node.slice
            elif isinstance(node, ast.Compare) and len(node.ops) == 1 and isinstance(node.ops[0], (ast.In, ast.NotIn)) and is_self_attr(node.comparators[0], tbl):
                key = node.left
            elif isinstance(node, ast.Call) and isinstance(node.func, ast.Attribute) and node.func.attr in ("get", "pop", "setdefault") \
                    and is_self_attr(node.func.value, tbl) and node.args:
                key = node.args[0]
            if key is None:
                continue
            n_keys += 1
            ctx.check(isinstance(key, ast.Name), rule, f"{qualname(node)}|`{norm(node)[:50]}` keyed by the strategy object", loc(node), f"key `{norm(key)}`",
                      f"`{norm(node)[:70]}` looks `{tbl}` up with `{norm(key)}`, but the table is keyed by the BatchStrategy object: the lookup never "
                      "matches, so members of a placed batch are refused (or a drained batch is never found)")
    ctx.floor(rule, "keyed accesses of the batch tables", n_keys, 8)


def _key_agreement(ctx, rule, fname, bundle, effects, key, where):
    led = [e for e in effects if e.struct == LEDGER]
    tab = {e.struct: e for e in effects if e.kind in ("set", "del") and e.struct != LEDGER}
    ok = True
    why = ""
    if bundle in ("place", "remove"):
        ok = led[0].key == tab["_placed_tasks"].key
        why = f"ledger key `{led[0].key}` vs _placed_tasks key `{tab['_placed_tasks'].key}`"
    elif bundle == "load":
        ok = led[0].key == tab["_pending_profiles"].key
        why = f"ledger key `{led[0].key}` vs _pending_profiles key"
    elif bundle.startswith("evict"):
        t = tab.get("_available_profiles") or tab.get("_pending_profiles")
        ok = led[0].key == t.key
        why = f"ledger key `{led[0].key}` vs table key `{t.key}`"
    elif bundle in ("place-new-batch", "remove-last-of-batch"):
        ok = tab["_placed_batches"].key == tab["_batch_tasks_for_strategy"].key
        why = f"_placed_batches[{tab['_placed_batches'].key}] vs _batch_tasks_for_strategy[{tab['_batch_tasks_for_strategy'].key}]"
        mem = [e for e in effects if e.kind in ("member-", "member+")]
        if ok and bundle == "remove-last-of-batch" and mem:
            ok = mem[0].key == tab["_placed_batches"].key
            why = f"the member left _placed_batches[{mem[0].key}] but the entry removed is _placed_batches[{tab['_placed_batches'].key}]: the drained batch stays registered without an allocation, and a later task joins it without allocating"
        if bundle == "place-new-batch":
            v = tab["_batch_tasks_for_strategy"].value
            ok = ok and v is not None and norm(v) == led[0].key
            why += f"; placeholder stored `{norm(v) if v is not None else '?'}` vs allocated for `{led[0].key}`"
    if not ok:
        ctx.violation(rule, key + "|keys", where, f"Worker.{fname} ({bundle}): keys disagree: {why}")


def _join_guards(ctx, fname, path, effects, where):
    """C01.R3: joining a batch without allocation needs `strategy in _placed_batches` and the size guard."""
    conds = cfgmod.path_conditions(path)
    member_ok = False
    size_ok = False
    for pol, t in conds:
        if isinstance(t, ast.Compare) and len(t.ops) == 1 and "_placed_batches" in src(t.comparators[0]):
            if (isinstance(t.ops[0], ast.NotIn) and pol == "F") or (isinstance(t.ops[0], ast.In) and pol == "T"):
                member_ok = True
        if isinstance(t, ast.Compare) and "batch_size" in src(t) and "len(" in src(t):
            from ..lin import formula, lin_of
            # refusal guard `len(batch)+1 > batch_size` must be false on this path
            l, r = lin_of(t.left), lin_of(t.comparators[0])
            d = l - r
            lenterm = [k for k in d.terms if k.startswith("len(")]
            bs = [k for k in d.terms if "batch_size" in k]
            if lenterm and bs and len(t.ops) == 1:
                # normalise to: len + c  OP  batch_size
                c = d.const / d.terms[lenterm[0]] if d.terms[lenterm[0]] != 0 else 0
                op = type(t.ops[0]).__name__
                sign = d.terms[lenterm[0]]
                # path must imply len + 1 <= batch_size
                implied = False
                if sign > 0:
                    # (len + c - bs) OP 0
                    if pol == "F" and op == "Gt" and c >= 1:
                        implied = True
                    if pol == "F" and op == "GtE" and c >= 0:
                        implied = True
                    if pol == "T" and op == "LtE" and c >= 1:
                        implied = True
                    if pol == "T" and op == "Lt" and c >= 0:
                        implied = True
                else:
                    c = -c
                    if pol == "F" and op == "Lt" and c >= 1:
                        implied = True
                    if pol == "F" and op == "LtE" and c >= 0:
                        implied = True
                    if pol == "T" and op == "GtE" and c >= 1:
                        implied = True
                    if pol == "T" and op == "Gt" and c >= 0:
                        implied = True
                size_ok = size_ok or implied
    ctx.check(member_ok, "C01.R3", f"Worker.{fname}|join-batch guarded by membership", where,
              "batch join only when the batch already holds an allocation",
              "a task can be added to a batch that has no allocation on this worker")
    ctx.check(size_ok, "C01.R3", f"Worker.{fname}|join-batch guarded by batch size", where,
              "len(batch)+1 <= batch_size on the join path",
              "a task can join a batch beyond its batch_size without allocating")


def _truthiness_as_len(test: ast.AST, name: str) -> ast.AST:
    """`not M` / `M` used as a condition on a container -> `len(M) == 0` / `len(M) != 0`."""
    def conv(n, top):
        if isinstance(n, ast.UnaryOp) and isinstance(n.op, ast.Not):
            return ast.UnaryOp(op=ast.Not(), operand=conv(n.operand, True))
        if isinstance(n, ast.BoolOp):
            return ast.BoolOp(op=n.op, values=[conv(v, True) for v in n.values])
        if top and norm(n) == name:
            return ast.parse(f"len({name}) != 0", mode="eval").body
        return n
    return ast.fix_missing_locations(conv(ast.parse(ast.unparse(test), mode="eval").body, True))


def _leave_guards(ctx, rule, fname, bundle, path, effects, where):
    """The batch's allocation is returned exactly when its last member leaves: after the member is removed from the
    batch's member set the path must have established `len(members) == 0` (release) resp. `!= 0` (keep)."""
    from .. import lin
    rm = [e for e in effects if e.kind == "member-"]
    if not rm:
        return
    rm_stmt = rm[0].node
    members = None
    f = rm_stmt.func if isinstance(rm_stmt, ast.Call) else None
    if isinstance(f, ast.Attribute):
        members = norm(f.value)
    idx = None
    for i, (node, _lab) in enumerate(path):
        if node.ast is not None and any(x is rm_stmt for x in ast.walk(node.ast)):
            idx = i
    if idx is None or members is None:
        raise AnalysisError(f"Worker.{fname}: member removal not located on the path")
    want_empty = lin.formula(ast.parse(f"len({members}) == 0", mode="eval").body)
    want = want_empty if bundle == "remove-last-of-batch" else lin.f_not(want_empty)
    ok = False
    for (node, lab) in path[idx + 1:]:
        if lab is not None and lab[0] in ("T", "F") and isinstance(lab[1], ast.AST):
            fm = lin.formula(_truthiness_as_len(lab[1], members))
            fm = fm if lab[0] == "T" else lin.f_not(fm)
            try:
                if lin.entails(fm, want):
                    ok = True
            except ValueError:
                pass
    what = "released only when the batch is empty" if bundle == "remove-last-of-batch" else "kept while members remain"
    ctx.check(ok, rule, f"Worker.{fname}|{bundle}: batch allocation {what}", where,
              f"path establishes `len({members}) {'==' if bundle == 'remove-last-of-batch' else '!='} 0` after the removal",
              f"Worker.{fname} ({bundle}): the batch's allocation is {'returned' if bundle == 'remove-last-of-batch' else 'kept'} "
              f"on a path that has not established that `{members}` is {'empty' if bundle == 'remove-last-of-batch' else 'non-empty'} "
              "after the member left: resources are released while batch members are resident, or held by an empty batch")


# ---------------------------------------------------------------------------
# R2: a refused request changes nothing
# ---------------------------------------------------------------------------

def _resolve_callee(repo: Repo, call: ast.Call, cls_name: str) -> Optional[Tuple[str, str]]:
    f = call.func
    if not isinstance(f, ast.Attribute):
        return None
    name = f.attr
    v = f.value
    if isinstance(v, ast.Name) and v.id == "self":
        return (cls_name, name)
    if is_self_attr(v, "_resources") and cls_name == "Worker":
        return ("Resources", name)
    if isinstance(v, ast.Subscript) and is_self_attr(v.value, "_workers") and cls_name == "WorkerPool":
        return ("Worker", name)
    if isinstance(v, ast.Name) and v.id in ("_worker", "worker") and cls_name == "WorkerPool":
        return ("Worker", name)
    return None


def _cls_node(repo: Repo, cls_name: str) -> ast.ClassDef:
    if cls_name == "Resources":
        return repo.mod(RESOURCES).cls("Resources")
    return repo.mod(WORKERS).cls(cls_name)


def _direct_mutations(fn: ast.FunctionDef, cls_name: str) -> List[ast.AST]:
    fields = {"Resources": ["_resource_vector", "__total_resources", "_current_allocations"],
              "Worker": WORKER_TABLES, "WorkerPool": ["_placed_tasks", "_workers"]}[cls_name]
    out = []
    for n in ast.walk(fn):
        if isinstance(n, (ast.Assign, ast.AugAssign, ast.Delete)):
            ts = n.targets if isinstance(n, (ast.Assign, ast.Delete)) else [n.target]
            for t in ts:
                base = t.value if isinstance(t, ast.Subscript) else t
                if is_self_attr(base) and base.attr in fields:
                    out.append(n)
        elif isinstance(n, ast.Call) and isinstance(n.func, ast.Attribute) and n.func.attr in ("append", "add", "remove", "extend", "pop"):
            b = n.func.value
            base = b.value if isinstance(b, ast.Subscript) else b
            if is_self_attr(base) and base.attr in fields:
                out.append(n)
    return out


class Summaries:
    def __init__(self, repo: Repo):
        self.repo = repo
        self.mut: Dict[Tuple[str, str], bool] = {}
        self.ref: Dict[Tuple[str, str], bool] = {}

    def _fn(self, key) -> Optional[ast.FunctionDef]:
        try:
            return methods(_cls_node(self.repo, key[0])).get(key[1])
        except AnalysisError:
            return None

    def mutates(self, key, stack=()) -> bool:
        if key in self.mut:
            return self.mut[key]
        if key in stack:
            return False
        fn = self._fn(key)
        r = False
        if fn is not None:
            r = bool(_direct_mutations(fn, key[0]))
            if not r:
                for c in calls_in(fn):
                    k = _resolve_callee(self.repo, c, key[0])
                    if k and k[0] in ("Resources", "Worker", "WorkerPool") and self.mutates(k, stack + (key,)):
                        r = True
                        break
        self.mut[key] = r
        return r

    def may_refuse(self, key, stack=()) -> bool:
        """Can the callee leave through an explicit, unprotected raise?"""
        if key in self.ref:
            return self.ref[key]
        if key in stack:
            return False
        fn = self._fn(key)
        r = False
        if fn is not None:
            for n in ast.walk(fn):
                if isinstance(n, ast.Raise) and not _inside_rollback_handler(n):
                    r = True
            if not r:
                for c in calls_in(fn):
                    k = _resolve_callee(self.repo, c, key[0])
                    if k and k[0] in ("Resources", "Worker", "WorkerPool") and self.may_refuse(k, stack + (key,)):
                        r = True
                        break
        self.ref[key] = r
        return r


def _inside_rollback_handler(n: ast.AST) -> bool:
    p = parent(n)
    while p is not None:
        if isinstance(p, ast.ExceptHandler):
            return True
        p = parent(p)
    return False


def _protected_by_rollback(call: ast.AST, cls_name: str) -> bool:
    """The call sits in a `try` whose handler undoes the partial work and re-raises."""
    n = call
    p = parent(n)
    while p is not None and not isinstance(p, (ast.FunctionDef, ast.AsyncFunctionDef)):
        if isinstance(p, ast.Try) and any(n is s or _contains(s, n) for s in p.body):
            for h in p.handlers:
                reraises = any(isinstance(x, ast.Raise) for x in ast.walk(h))
                undo = bool(_direct_mutations(ast.Module(body=h.body, type_ignores=[]), cls_name)) or any(
                    call_name(c) in ("deallocate", "remove_task", "evict_profile") for c in calls_in(h))
                if reraises and undo:
                    return True
        n = p
        p = parent(p)
    return False


def _contains(root: ast.AST, n: ast.AST) -> bool:
    return any(x is n for x in ast.walk(root))


ENTRY_POINTS = [("Resources", "allocate"), ("Resources", "allocate_multiple"), ("Worker", "place_task"),
                ("Worker", "load_profile"), ("WorkerPool", "place_task")]


def r2_refusal_changes_nothing(ctx: Context, rule: str = "C04.R2") -> None:
    ctx.rule(rule, "in the request entry points no refusal (raise / refusing callee) is reachable after a "
                   "ledger or table mutation unless a rollback handler protects it")
    summ = Summaries(ctx.repo)
    n_entries = 0
    for (cls_name, name) in ENTRY_POINTS:
        cls = _cls_node(ctx.repo, cls_name)
        fn = method(cls, name)
        n_entries += 1
        ctx.analysed_function(f"{cls._module.rel}::{cls_name}.{name}")
        g = cfgmod.build(fn)
        mut_nodes: Dict[int, ast.AST] = {}
        ref_nodes: Dict[int, ast.AST] = {}
        for m in _direct_mutations(fn, cls_name):
            mut_nodes[g.node_of(m).id] = m
        for n in ast.walk(fn):
            if isinstance(n, ast.Raise) and not _inside_rollback_handler(n):
                ref_nodes[g.node_of(n).id] = n
            if isinstance(n, ast.Call):
                k = _resolve_callee(ctx.repo, n, cls_name)
                if k and k[0] in ("Resources", "Worker", "WorkerPool") and k != (cls_name, name):
                    if summ.mutates(k):
                        mut_nodes.setdefault(g.node_of(n).id, n)
                    if summ.may_refuse(k) and not _protected_by_rollback(n, cls_name):
                        ref_nodes.setdefault(g.node_of(n).id, n)
        any_bad = False
        for mid, mnode in mut_nodes.items():
            for rid, rnode in ref_nodes.items():
                # a refusal strictly after the mutation (same node only via a loop back-edge)
                if g.reachable(g.nodes[mid], g.nodes[rid]):
                    if _inside_rollback_handler(mnode):
                        continue
                    any_bad = True
                    ctx.violation(rule, f"{cls_name}.{name}|refusal `{norm(rnode)[:50]}` after mutation `{norm(mnode)[:50]}`",
                                  loc(rnode),
                                  f"{cls_name}.{name}: `{norm(rnode)[:70]}` can refuse after `{norm(mnode)[:70]}` already "
                                  "changed the ledger/tables, and nothing rolls the change back")
        if not any_bad:
            ctx.ok(rule, f"{cls_name}.{name}|no refusal after mutation", loc(fn),
                   f"{len(mut_nodes)} mutation node(s), {len(ref_nodes)} refusal node(s), none ordered mutation->refusal")
        ctx.sample({"entry": f"{cls_name}.{name}", "mutations": [norm(x)[:60] for x in mut_nodes.values()],
                    "refusals": [norm(x)[:60] for x in ref_nodes.values()]})
    ctx.floor(rule, "request entry points", n_entries, 5)


# ---------------------------------------------------------------------------
# R3 deallocate
# ---------------------------------------------------------------------------

def r3_deallocate(ctx: Context, rule: str = "C04.R3") -> None:
    ctx.rule(rule, "Resources.deallocate adds every recorded (resource, quantity) back under the same key and "
                   "deletes the record on every normal path")
    cls = ctx.repo.mod(RESOURCES).cls("Resources")
    fn = method(cls, "deallocate")
    ctx.analysed_function(f"{RESOURCES}::Resources.deallocate")
    comp = fn.args.args[1].arg if len(fn.args.args) > 1 else None
    loops = [n for n in ast.walk(fn) if isinstance(n, ast.For) and isinstance(n.iter, ast.Subscript)
             and is_self_attr(n.iter.value, "_current_allocations")]
    via_get = None
    if not loops:
        # the record fetched once: `rec = self._current_allocations.get(computation)` / `for r, q in rec`
        for n in ast.walk(fn):
            if isinstance(n, ast.For) and isinstance(n.iter, ast.Name):
                rv = resolve_local(fn, n.iter)
                if isinstance(rv, ast.Call) and isinstance(rv.func, ast.Attribute) and rv.func.attr == "get" and is_self_attr(rv.func.value, "_current_allocations") \
                        and len(rv.args) == 1:
                    loops.append(n)
                    via_get = rv
    ctx.floor(rule, "loop over the recorded allocations", len(loops), 1)
    lp = loops[0]
    if via_get is not None:
        ok_iter = isinstance(via_get.args[0], ast.Name) and via_get.args[0].id == comp
    else:
        ok_iter = isinstance(lp.iter.slice, ast.Name) and lp.iter.slice.id == comp
    tgt = lp.target
    ok_body = False
    if isinstance(tgt, ast.Tuple) and len(tgt.elts) == 2 and all(isinstance(e, ast.Name) for e in tgt.elts):
        r, q = tgt.elts[0].id, tgt.elts[1].id
        for s in lp.body:
            if isinstance(s, ast.AugAssign) and isinstance(s.op, ast.Add) and isinstance(s.target, ast.Subscript) \
                    and is_self_attr(s.target.value, "_resource_vector") and isinstance(s.target.slice, ast.Name) \
                    and s.target.slice.id == r and isinstance(s.value, ast.Name) and s.value.id == q:
                # must not be conditional inside the loop body (it is a direct child of the loop)
                ok_body = True
    ctx.check(ok_iter and ok_body, rule, "Resources.deallocate|returns each recorded (resource, quantity)", loc(lp),
              "for (r, q) in record: vector[r] += q", f"the give-back loop is `{norm(lp)[:120]}`")
    g = cfgmod.build(fn)
    dels = [d for d in ast.walk(fn) if isinstance(d, ast.Delete) and any(
        isinstance(t, ast.Subscript) and is_self_attr(t.value, "_current_allocations") and isinstance(t.slice, ast.Name)
        and t.slice.id == comp for t in d.targets)]
    ok_del = False
    if dels:
        dn = g.node_of(dels[0])
        ln = g.node_of(lp)
        # every path from the loop head to the normal exit passes the delete
        ok_del = not g.reachable(ln, g.ret, avoid={dn.id}) and g.dominates(ln, dn)
    ctx.check(ok_del, rule, "Resources.deallocate|record deleted after give-back", loc(dels[0]) if dels else loc(fn),
              "del record post-dominates the loop", "the allocation record is not deleted on every path after the give-back")
    # membership guard raises before anything else
    ctx.check(any(isinstance(n, ast.Raise) for n in ast.walk(fn)), rule, "Resources.deallocate|unknown computation refused",
              loc(fn), "raises for unknown computation", "no refusal for a computation that holds nothing")


# ---------------------------------------------------------------------------
# R4 / R5 copies
# ---------------------------------------------------------------------------

def _init_fields(cls: ast.ClassDef) -> Dict[str, ast.AST]:
    init = methods(cls).get("__init__")
    out: Dict[str, ast.AST] = {}
    if init is None:
        return out
    for n in ast.walk(init):
        if isinstance(n, (ast.Assign, ast.AnnAssign)):
            ts = n.targets if isinstance(n, ast.Assign) else [n.target]
            for t in ts:
                if is_self_attr(t) and n.value is not None:
                    out.setdefault(mangle(cls.name, t.attr), n.value)
    return out


def _init_param_feeds(cls: ast.ClassDef) -> Dict[str, Set[str]]:
    """field -> __init__ parameters whose contents are stored into it after its creation
    (`self.F[k] = v` / `self.F.add(v)` inside loops over a parameter)."""
    init = methods(cls).get("__init__")
    out: Dict[str, Set[str]] = {}
    if init is None:
        return out
    params = {a.arg for a in init.args.args[1:]}
    for n in ast.walk(init):
        fld = None
        if isinstance(n, (ast.Assign, ast.AugAssign)):
            ts = n.targets if isinstance(n, ast.Assign) else [n.target]
            for t in ts:
                if isinstance(t, ast.Subscript) and is_self_attr(t.value):
                    fld = mangle(cls.name, t.value.attr)
        elif isinstance(n, ast.Expr) and isinstance(n.value, ast.Call) and isinstance(n.value.func, ast.Attribute) \
                and is_self_attr(n.value.func.value) and n.value.func.attr in ("add", "append", "update", "extend"):
            fld = mangle(cls.name, n.value.func.value.attr)
        if fld is None:
            continue
        used = {x.id for x in ast.walk(n) if isinstance(x, ast.Name) and x.id in params}
        p = parent(n)
        while p is not None and p is not init:
            if isinstance(p, ast.For):
                used |= {x.id for x in ast.walk(p.iter) if isinstance(x, ast.Name) and x.id in params}
            p = parent(p)
        out.setdefault(fld, set()).update(used)
    return out


def _is_empty_container(v: ast.AST) -> bool:
    if isinstance(v, (ast.Dict, ast.List, ast.Set)):
        return not (getattr(v, "keys", None) or getattr(v, "elts", None))
    if isinstance(v, ast.Call) and call_name(v) in ("dict", "set", "list", "defaultdict", "OrderedDict", "deque"):
        return True
    return False


def _params_used(v: ast.AST, params: Set[str]) -> Set[str]:
    return {n.id for n in ast.walk(v) if isinstance(n, ast.Name) and n.id in params}


def _fields_written_by_method(cls: ast.ClassDef, mname: str, depth=0) -> Set[str]:
    m = methods(cls).get(mname)
    out: Set[str] = set()
    if m is None or depth > 2:
        return out
    for n in ast.walk(m):
        if isinstance(n, (ast.Assign, ast.AugAssign, ast.Delete)):
            ts = n.targets if isinstance(n, (ast.Assign, ast.Delete)) else [n.target]
            for t in ts:
                base = t.value if isinstance(t, ast.Subscript) else t
                if is_self_attr(base):
                    out.add(mangle(cls.name, base.attr))
        if isinstance(n, ast.Call) and isinstance(n.func, ast.Attribute):
            b = n.func.value
            base = b.value if isinstance(b, ast.Subscript) else b
            if is_self_attr(base) and n.func.attr in ("append", "add", "extend", "update", "remove", "pop"):
                out.add(mangle(cls.name, base.attr))
            if is_self_attr(n.func) and n.func.attr != mname:
                out |= _fields_written_by_method(cls, n.func.attr, depth + 1)
    return out


COPY_CLASSES = [(RESOURCES, "Resources"), (WORKERS, "Worker"), (WORKERS, "WorkerPool"), (WORKERS, "WorkerPools")]
NESTED_FIELD_OF_PARAM = {"resources": "Resources", "workers": "Worker", "worker_pools": "WorkerPool"}
IGNORED_FIELDS = {"_logger", "_id", "_Resources__virtual", "_scheduler"}


def r4_r5_copies(ctx: Context, rule4: str = "C04.R4", rule5: str = "C04.R5") -> None:
    ctx.rule(rule4, "__copy__ of Resources/Worker/WorkerPool/WorkerPools rebuilds every occupancy field of "
                    "__init__, passes nested cluster objects through copy(), and shares no mutable state")
    ctx.rule(rule5, "__deepcopy__ passes totals/identity only, nested objects through deepcopy(), and copies no occupancy")
    n_cls = 0
    for rel, cname in COPY_CLASSES:
        cls = ctx.repo.mod(rel).cls(cname)
        ms = methods(cls)
        if "__copy__" not in ms or "__deepcopy__" not in ms or "__init__" not in ms:
            raise AnalysisError(f"{cname} lacks __init__/__copy__/__deepcopy__")
        n_cls += 1
        init = ms["__init__"]
        params = {a.arg for a in init.args.args[1:]}
        fields = _init_fields(cls)
        feeds = _init_param_feeds(cls)
        for kind in ("__copy__", "__deepcopy__"):
            fn = ms[kind]
            ctx.analysed_function(f"{rel}::{cname}.{kind}")
            rule = rule4 if kind == "__copy__" else rule5
            init_calls = [c for c in calls_in(fn, "__init__") if dotted(c.func) == "cls.__init__"]
            dict_copies = [c for c in ast.walk(fn) if isinstance(c, ast.Call) and "__dict__" in norm(c) and call_name(c) in ("update", "copy", "dict")]
            if dict_copies and not init_calls:
                # whole-__dict__ copy: every field is shared by reference unless it is re-bound afterwards
                rebound = set()
                for a in ast.walk(fn):
                    if isinstance(a, ast.Assign):
                        for t in a.targets:
                            if isinstance(t, ast.Attribute) and isinstance(t.value, ast.Name) and t.value.id != "self":
                                rebound.add(mangle(cname, t.attr))
                shared = sorted(f for f in fields if f not in IGNORED_FIELDS and f not in rebound)
                ctx.check(not shared, rule, f"{cname}.{kind}|no field shared with the original", loc(dict_copies[0]), "every field re-bound",
                          f"`{norm(dict_copies[0])[:60]}` copies the attribute dictionary: {shared} of the copy are the SAME objects as the original's, "
                          "so an allocation made on a policy's scratch copy is recorded in the live ledger (and returned twice on deallocate)")
                continue
            if len(init_calls) != 1:
                raise AnalysisError(f"{cname}.{kind}: expected one cls.__init__(instance, ...) call")
            ic = init_calls[0]
            # map init params -> argument expressions
            pos_names = [a.arg for a in init.args.args[1:]]
            supplied: Dict[str, ast.AST] = {}
            for i, a in enumerate(ic.args[1:]):
                if i < len(pos_names):
                    supplied[pos_names[i]] = a
            for kw in ic.keywords:
                if kw.arg:
                    supplied[kw.arg] = kw.value
            # instance.<field> stores and instance.<method>() effects in the copy body
            stored: Set[str] = set()
            alias_stores: List[Tuple[str, ast.AST]] = []
            value_shares: List[Tuple[str, ast.AST, ast.AST]] = []
            whole_shares: List[Tuple[str, ast.AST]] = []
            for n in ast.walk(fn):
                if isinstance(n, ast.Assign):
                    for t in n.targets:
                        base = t.value if isinstance(t, ast.Subscript) else t
                        if isinstance(base, ast.Attribute) and isinstance(base.value, ast.Name) and base.value.id == "instance":
                            f = mangle(cname, base.attr)
                            stored.add(f)
                            if not isinstance(t, ast.Subscript) and is_self_attr(n.value):
                                alias_stores.append((f, n))
                            if isinstance(t, ast.Subscript):
                                value_shares.append((f, n.value, n))
                if isinstance(n, ast.Call) and isinstance(n.func, ast.Attribute) and isinstance(n.func.value, ast.Name) \
                        and n.func.value.id == "instance":
                    stored |= _fields_written_by_method(cls, n.func.attr)
                # instance.F.update(...) / .extend(...) / .add(...): the fresh container made by __init__ is filled
                if isinstance(n, ast.Call) and isinstance(n.func, ast.Attribute) and n.func.attr in ("update", "extend", "add", "append") \
                        and isinstance(n.func.value, ast.Attribute) and isinstance(n.func.value.value, ast.Name) and n.func.value.value.id == "instance":
                    f = mangle(cname, n.func.value.attr)
                    stored.add(f)
                    if n.func.attr == "update" and n.args:
                        a0 = n.args[0]
                        shares = is_self_attr(a0) and mangle(cname, a0.attr) == f
                        if isinstance(a0, (ast.GeneratorExp, ast.ListComp, ast.DictComp)) and len(a0.generators) == 1 \
                                and isinstance(a0.generators[0].target, ast.Tuple) and len(a0.generators[0].target.elts) == 2:
                            val = a0.value if isinstance(a0, ast.DictComp) else (a0.elt.elts[1] if isinstance(a0.elt, ast.Tuple) and len(a0.elt.elts) == 2 else None)
                            shares = val is not None and isinstance(val, ast.Name) and norm(val) == norm(a0.generators[0].target.elts[1])
                        if shares:
                            whole_shares.append((f, n))
            for f, v in fields.items():
                if f in IGNORED_FIELDS:
                    continue
                used = _params_used(v, params) | feeds.get(f, set())
                key = f"{cname}.{kind}|field {f}"
                where = loc(fn)
                if kind == "__copy__":
                    if used and all(u in supplied for u in used):
                        ctx.ok(rule, key, where, f"rebuilt by __init__ from {sorted(used)}")
                    elif f in stored:
                        ctx.ok(rule, key, where, "rebuilt explicitly on the instance")
                    elif _is_empty_container(v) or not used:
                        ctx.violation(rule, key, where,
                                      f"{cname}.__copy__ does not rebuild `{f}` (initialised in __init__ as `{norm(v)[:40]}`): "
                                      "the copy loses that part of the occupancy")
                    else:
                        ctx.violation(rule, key, where, f"{cname}.__copy__ does not supply {sorted(used)} for `{f}`")
                else:
                    if _is_empty_container(v) and f in stored:
                        ctx.violation(rule, key, where, f"{cname}.__deepcopy__ copies occupancy field `{f}`; a deep copy must start empty")
                    else:
                        ctx.ok(rule, key, where, "not copied" if _is_empty_container(v) else "identity/totals")
            for f, n in alias_stores:
                if f in IGNORED_FIELDS:
                    continue
                ctx.violation(rule, f"{cname}.{kind}|alias {f}", loc(n),
                              f"`{norm(n)}` makes the copy share the mutable field `{f}` with the original")
            # nested cluster objects must go through copy()/deepcopy()
            want = "copy" if kind == "__copy__" else "deepcopy"
            for pname, arg in supplied.items():
                if pname in NESTED_FIELD_OF_PARAM:
                    where_arg = arg
                    if isinstance(arg, ast.Name):
                        arg = resolve_local(fn, arg)  # `resources = copy(self.resources)` bound once before the constructor call
                    calls = [c for c in ast.walk(arg) if isinstance(c, ast.Call) and call_name(c) in ("copy", "deepcopy")]
                    good = calls and all(call_name(c) == want for c in calls)
                    # every element must be copied: a conditional / filtered element expression passes some originals through
                    for x in ast.walk(arg):
                        if isinstance(x, (ast.ListComp, ast.GeneratorExp, ast.SetComp)):
                            elt = x.elt
                            if not (isinstance(elt, ast.Call) and call_name(elt) == want and elt.args and norm(elt.args[0]) == norm(x.generators[0].target)):
                                good = False
                        if isinstance(x, ast.IfExp):
                            good = False
                    ctx.check(bool(good), rule, f"{cname}.{kind}|nested {pname} via {want}()", loc(where_arg),
                              f"`{norm(arg)[:60]}`",
                              f"{cname}.{kind} passes `{norm(arg)[:60]}` for `{pname}`: nested state must go through {want}()")
            # Resources: totals, not the current vector
            if cname == "Resources":
                a0 = ic.args[1] if len(ic.args) > 1 else supplied.get("resource_vector")
                ctx.check(a0 is not None and is_self_attr(a0) and mangle(cname, a0.attr) == "_Resources__total_resources", rule,
                          f"Resources.{kind}|starts from totals", loc(ic), "cls.__init__(instance, self.__total_resources, ...)",
                          f"`{norm(ic)[:80]}` does not start the copy from the configured totals")
            if kind == "__copy__":
                _shared_mutable_values(ctx, rule, cls, cname, value_shares)
                # instance.F = dict(self.F) / self.F.copy() / {k: v for k, v in self.F.items()}: a new table, the same values
                for n in ast.walk(fn):
                    if not (isinstance(n, ast.Assign) and len(n.targets) == 1 and isinstance(n.targets[0], ast.Attribute)
                            and isinstance(n.targets[0].value, ast.Name) and n.targets[0].value.id == "instance"):
                        continue
                    f = mangle(cname, n.targets[0].attr)
                    v = n.value
                    shallow = None
                    if isinstance(v, ast.Call) and call_name(v) in ("dict", "copy") and v.args and is_self_attr(v.args[0]) and mangle(cname, v.args[0].attr) == f:
                        shallow = norm(v)
                    elif isinstance(v, ast.Call) and isinstance(v.func, ast.Attribute) and v.func.attr == "copy" and is_self_attr(v.func.value) \
                            and mangle(cname, v.func.value.attr) == f:
                        shallow = norm(v)
                    elif isinstance(v, ast.DictComp) and len(v.generators) == 1 and isinstance(v.generators[0].target, ast.Tuple) \
                            and len(v.generators[0].target.elts) == 2 and isinstance(v.value, ast.Name) \
                            and norm(v.value) == norm(v.generators[0].target.elts[1]) and f.lstrip("_") in norm(v.generators[0].iter):
                        shallow = norm(v)
                    if shallow is None:
                        continue
                    whole_shares.append((f, n))
                for f, n in whole_shares:
                    mutated = _values_mutated_in_place(cls, f)
                    key = f"{cname}.__copy__|values of {f} shared"
                    if mutated is not None:
                        ctx.violation(rule, key, loc(n),
                                      f"`{norm(n)[:80]}` gives the copy a new table holding the SAME values as the original's `{f}`, and {cname}.{mutated[0]} "
                                      f"mutates those values in place (`{mutated[1][:60]}`): the copy is not an independent snapshot")
                    else:
                        ctx.ok(rule, key, loc(n), "values shared but never mutated in place by the class")
    ctx.floor(rule4, "classes with __copy__/__deepcopy__", n_cls, 4)
    # Resources.__copy__ re-applies every recorded allocation
    rcls = ctx.repo.mod(RESOURCES).cls("Resources")
    fn = method(rcls, "__copy__")
    loops = [n for n in ast.walk(fn) if isinstance(n, ast.For) and "_current_allocations" in src(n.iter)]
    inner_ok = False
    for lp in loops:
        for c in calls_in(lp, "allocate"):
            if isinstance(c.func.value, ast.Name) and c.func.value.id == "instance":
                inner_ok = True
    ctx.check(inner_ok, rule4, "Resources.__copy__|re-applies recorded allocations", loc(fn),
              "for each recorded allocation: instance.allocate(...)", "recorded allocations are not re-applied on the copy")


def _shared_mutable_values(ctx, rule, cls, cname, value_shares):
    """instance.D[k] = v shares v; a violation when the class mutates the values of D in place."""
    for f, v, n in value_shares:
        if not isinstance(v, ast.Name):
            continue
        # is `v` the value variable of a loop over self.D.items()?
        lp = parent(n)
        while lp is not None and not isinstance(lp, ast.For):
            lp = parent(lp)
        if lp is None or not isinstance(lp.target, ast.Tuple) or len(lp.target.elts) != 2:
            continue
        if not (isinstance(lp.target.elts[1], ast.Name) and lp.target.elts[1].id == v.id):
            continue
        short = f
        mutated = _values_mutated_in_place(cls, short)
        key = f"{cname}.__copy__|values of {f} shared"
        if mutated is not None:
            ctx.violation(rule, key, loc(n),
                          f"`{norm(n)}` shares the values of `{f}` with the original, and {cname}.{mutated[0]} mutates them "
                          f"in place (`{mutated[1]}`): the copy is not an independent snapshot")
        else:
            ctx.ok(rule, key, loc(n), "values shared but never mutated in place by the class")


def _values_mutated_in_place(cls: ast.ClassDef, field: str) -> Optional[Tuple[str, str]]:
    for mname, m in methods(cls).items():
        if mname in ("__copy__", "__deepcopy__", "__init__"):
            continue
        # for k, v in self.F.items(): v.attr = ... / v.add(...)
        for lp in [n for n in ast.walk(m) if isinstance(n, ast.For)]:
            it = lp.iter
            if isinstance(it, ast.Call) and isinstance(it.func, ast.Attribute) and it.func.attr in ("items", "values") \
                    and is_self_attr(it.func.value) and mangle(cls.name, it.func.value.attr) == field:
                tv = lp.target.elts[1] if isinstance(lp.target, ast.Tuple) and len(lp.target.elts) == 2 else lp.target
                if isinstance(tv, ast.Name):
                    for n in ast.walk(lp):
                        if isinstance(n, (ast.Assign, ast.AugAssign)):
                            ts = n.targets if isinstance(n, ast.Assign) else [n.target]
                            for t in ts:
                                if isinstance(t, ast.Attribute) and isinstance(t.value, ast.Name) and t.value.id == tv.id:
                                    return (mname, norm(n))
                        if isinstance(n, ast.Call) and isinstance(n.func, ast.Attribute) and isinstance(n.func.value, ast.Name) \
                                and n.func.value.id == tv.id and n.func.attr in ("add", "remove", "append", "discard", "pop", "update"):
                            return (mname, norm(n))
        # self.F[k].add(...) / alias = self.F.get(k); alias.remove(...)
        aliases = set()
        for n in ast.walk(m):
            if isinstance(n, ast.Assign) and len(n.targets) == 1 and isinstance(n.targets[0], ast.Name):
                v = n.value
                if isinstance(v, ast.Subscript) and is_self_attr(v.value) and mangle(cls.name, v.value.attr) == field:
                    aliases.add(n.targets[0].id)
                if isinstance(v, ast.Call) and isinstance(v.func, ast.Attribute) and v.func.attr == "get" \
                        and is_self_attr(v.func.value) and mangle(cls.name, v.func.value.attr) == field:
                    aliases.add(n.targets[0].id)
        for n in ast.walk(m):
            if isinstance(n, ast.Call) and isinstance(n.func, ast.Attribute) and n.func.attr in ("add", "remove", "append", "discard", "pop", "update"):
                b = n.func.value
                if isinstance(b, ast.Subscript) and is_self_attr(b.value) and mangle(cls.name, b.value.attr) == field:
                    return (mname, norm(n))
                if isinstance(b, ast.Name) and b.id in aliases:
                    return (mname, norm(n))
    return None


# ---------------------------------------------------------------------------
# R6 removal on finish / preempt
# ---------------------------------------------------------------------------

def r6_removal_on_finish(ctx: Context, rule: str = "C04.R6") -> None:
    ctx.rule(rule, "TASK_FINISHED / TASK_PREEMPT handlers remove the task from the pool it was placed on before "
                   "finish()/preempt() clears that pool id")
    sim = Sim(ctx.repo)
    for et, closer in (("TASK_FINISHED", "finish"), ("TASK_PREEMPT", "preempt")):
        h = sim.handler(et)
        ctx.analysed_function(qualname(h))
        g = cfgmod.build(h)
        rem = [c for c in calls_in(h, "remove_task")]
        clo = [c for c in calls_in(h, closer) if isinstance(c.func, ast.Attribute) and "task" in src(c.func.value)]
        ctx.floor(rule, f"{closer}() call in {et} handler", len(clo), 1)
        if not rem:
            ctx.violation(rule, f"{qualname(h)}|remove_task before {closer}", loc(h),
                          f"the {et} handler never removes the task from its worker pool: its resources stay allocated")
            continue
        rn, cn = g.node_of(rem[0]), g.node_of(clo[0])
        ctx.check(g.dominates(rn, cn), rule, f"{qualname(h)}|remove_task before {closer}", loc(rem[0]),
                  f"remove_task dominates {closer}()", f"{closer}() can run without / before remove_task")
        ctx.check(g.dominates(g.entry, rn) and not g.reachable_from_entry(g.ret, {rn.id}), rule,
                  f"{qualname(h)}|remove_task on every path", loc(rem[0]), "unconditional",
                  "some path through the handler skips remove_task")
        # the pool is looked up by the task's own worker_pool_id
        recv = rem[0].func.value
        ok = False
        if isinstance(recv, ast.Name):
            for a in [x for x in ast.walk(h) if isinstance(x, ast.Assign)]:
                if any(isinstance(t, ast.Name) and t.id == recv.id for t in a.targets) and isinstance(a.value, ast.Call) \
                        and call_name(a.value) == "get_worker_pool" and a.value.args \
                        and (dotted(a.value.args[0]) or "").endswith("task.worker_pool_id"):
                    ok = True
        ctx.check(ok, rule, f"{qualname(h)}|pool looked up by task.worker_pool_id", loc(rem[0]),
                  "pool = get_worker_pool(task.worker_pool_id)", "remove_task is not applied to the pool the task runs on")
        # same task passed
        targ = next((k.value for k in rem[0].keywords if k.arg == "task"), rem[0].args[-1] if rem[0].args else None)
        ctx.check(targ is not None and norm(targ) == norm(clo[0].func.value), rule,
                  f"{qualname(h)}|same task removed and {closer}ed", loc(rem[0]), "same task",
                  f"remove_task({norm(targ) if targ is not None else '?'}) but {norm(clo[0].func.value)}.{closer}()")


def r9_addition_is_additive(ctx: Context, rule: str = "C04.R9") -> None:
    ctx.rule(rule, "Resources.__add__ (pool-level view of the workers' ledgers) sums every ledger of both operands key by "
                   "key: available vector, configured totals and recorded allocations are each accumulated with += / extend "
                   "from self and from other into an empty container, nothing is overwritten")
    cls = _cls_node(ctx.repo, "Resources")
    fn = method(cls, "__add__")
    ctx.analysed_function(f"{RESOURCES}::Resources.__add__")
    other = fn.args.args[1].arg
    fields = {"_resource_vector": "+=", mangle("Resources", "__total_resources"): "+=", "_current_allocations": "extend"}
    done = 0
    for field, how in fields.items():
        names = (field, field.replace("_Resources", "")) if field.startswith("_Resources") else (field,)
        tgt = [a for a in ast.walk(fn) if isinstance(a, ast.Assign) and isinstance(a.targets[0], ast.Attribute)
               and a.targets[0].attr in names and isinstance(a.targets[0].value, ast.Name) and a.targets[0].value.id not in ("self", other)]
        key = f"Resources.__add__|{names[-1]}"
        if len(tgt) != 1 or not isinstance(tgt[0].value, ast.Name):
            ctx.violation(rule, key + " of the result is an accumulated local", loc(fn), f"the result's {names[-1]} is not assigned from one accumulated local")
            continue
        acc = tgt[0].value.id
        init = [a for a in ast.walk(fn) if isinstance(a, ast.Assign) and isinstance(a.targets[0], ast.Name) and a.targets[0].id == acc]
        is_counter = len(init) == 1 and isinstance(init[0].value, ast.Call) and call_name(init[0].value) == "Counter"
        ok_init = len(init) == 1 and isinstance(init[0].value, ast.Call) and call_name(init[0].value) == "defaultdict" \
            and len(init[0].value.args) == 1 and not init[0].value.keywords
        ok_init = ok_init or is_counter  # collections.Counter: construction and update() both ADD counts
        ctx.check(ok_init, rule, key + " accumulator starts empty", loc(init[0]) if init else loc(fn), "defaultdict(<type>)",
                  f"`{norm(init[0]) if init else acc}`: the accumulator is seeded from an operand (its entries are then overwritten or "
                  "counted without the other operand's)")
        covered = set()
        stray = []

        def operand_field(e):
            return e.value.id if isinstance(e, ast.Attribute) and e.attr in names and isinstance(e.value, ast.Name) and e.value.id in ("self", other) else None
        if is_counter and init[0].value.args and operand_field(init[0].value.args[0]):
            covered.add(operand_field(init[0].value.args[0]))
        for n in ast.walk(fn):
            uses_acc = None
            if isinstance(n, ast.AugAssign) and isinstance(n.target, ast.Subscript) and isinstance(n.target.value, ast.Name) and n.target.value.id == acc:
                uses_acc = ("+=", n)
            elif isinstance(n, ast.Call) and isinstance(n.func, ast.Attribute):
                base = n.func.value
                if isinstance(base, ast.Subscript) and isinstance(base.value, ast.Name) and base.value.id == acc:
                    uses_acc = (n.func.attr, n)
                elif isinstance(base, ast.Name) and base.id == acc:
                    uses_acc = ("." + n.func.attr, n)
            elif isinstance(n, ast.Assign) and any(isinstance(t, ast.Subscript) and isinstance(t.value, ast.Name) and t.value.id == acc for t in n.targets):
                uses_acc = ("=", n)
            if uses_acc is None:
                continue
            op, node = uses_acc
            lp = parent(node)
            while lp is not None and not isinstance(lp, ast.For):
                lp = parent(lp)
            src_ok = None
            if lp is not None and isinstance(lp.iter, ast.Call) and call_name(lp.iter) == "items" and isinstance(lp.iter.func.value, ast.Attribute) \
                    and lp.iter.func.value.attr in names and isinstance(lp.iter.func.value.value, ast.Name) and lp.iter.func.value.value.id in ("self", other) \
                    and isinstance(lp.target, ast.Tuple) and len(lp.target.elts) == 2:
                k, v = norm(lp.target.elts[0]), norm(lp.target.elts[1])
                sub = node.target if isinstance(node, ast.AugAssign) else (node.func.value if isinstance(node, ast.Call) else None)
                val = node.value if isinstance(node, ast.AugAssign) else (node.args[0] if isinstance(node, ast.Call) and node.args else None)
                if op == how and isinstance(sub, ast.Subscript) and norm(sub.slice) == k and val is not None and norm(val) == v \
                        and (not isinstance(node, ast.AugAssign) or isinstance(node.op, ast.Add)):
                    src_ok = lp.iter.func.value.value.id
            if is_counter and op == ".update" and node.args and operand_field(node.args[0]):
                src_ok = operand_field(node.args[0])
            if src_ok:
                covered.add(src_ok)
            else:
                stray.append(norm(node)[:70])
        ctx.check(not stray, rule, key + " only accumulated", loc(tgt[0]), "no overwrite",
                  f"{names[-1]} of the sum is also changed by {stray}: entries present in both operands are overwritten, not added")
        ctx.check(covered == {"self", other}, rule, key + " accumulated from both operands", loc(tgt[0]), "self and other",
                  f"{names[-1]} of the sum is accumulated from {sorted(covered) or 'neither operand'} only")
        done += 1
    ctx.floor(rule, "ledgers summed in Resources.__add__", done, 3)


def r2b_rollback_is_exact(ctx: Context, rule: str = "C04.R2b") -> None:
    from .. import lin
    ctx.rule(rule, "the rollback of Resources.allocate_multiple gives back exactly what this call took: the ledger length of the "
                   "computation is snapshotted before the loop (0 when it has no entry), the handler returns the entries from the "
                   "snapshot on (`+=` each quantity to its resource), deletes exactly those entries and re-raises")
    cls = _cls_node(ctx.repo, "Resources")
    fn = method(cls, "allocate_multiple")
    tries = [t for t in ast.walk(fn) if isinstance(t, ast.Try) and calls_in(ast.Module(body=t.body, type_ignores=[]), "allocate")]
    ctx.floor(rule, "try around the allocating loop", len(tries), 1)
    tr = tries[0]
    comp = next((norm(k.value) for c in calls_in(ast.Module(body=tr.body, type_ignores=[]), "allocate") for k in c.keywords if k.arg == "computation"), "computation")
    # snapshot
    snaps = [a for a in fn.body if isinstance(a, ast.Assign) and isinstance(a.targets[0], ast.Name) and a.lineno < tr.lineno and "len(" in norm(a.value)]
    ok_s = False
    snap = None
    if snaps:
        snap = snaps[-1].targets[0].id
        v = snaps[-1].value
        if isinstance(v, ast.IfExp):
            t = lin.formula(v.test)
            has = lin.formula(ast.parse(f"{comp} in self._current_allocations", mode="eval").body)
            ln = f"len(self._current_allocations[{comp}])"
            zero = lambda e: isinstance(e, ast.Constant) and e.value == 0  # noqa: E731
            ok_s = (lin.equivalent(t, has) and norm(v.body) == ln and zero(v.orelse)) or (lin.equivalent(t, lin.f_not(has)) and norm(v.orelse) == ln and zero(v.body))
        elif isinstance(v, ast.Call) and call_name(v) == "len" and ".get(" in norm(v):
            ok_s = True
    ctx.check(ok_s, rule, "Resources.allocate_multiple|snapshot = number of entries the computation held before", loc(snaps[-1]) if snaps else loc(fn),
              f"{snap} = len(ledger[comp]) if comp in ledger else 0",
              "the snapshot taken before allocating is not the number of ledger entries the computation already held: a refused request "
              "rolls back entries of an earlier, successful request too (or keeps part of the refused one)")
    for h in tr.handlers:
        hb = ast.Module(body=h.body, type_ignores=[])
        loops = [l for l in ast.walk(hb) if isinstance(l, ast.For)]
        give = [a for l in loops for a in ast.walk(l) if isinstance(a, ast.AugAssign) and isinstance(a.target, ast.Subscript) and is_self_attr(a.target.value, "_resource_vector")]
        ok_l = False
        for l in loops:
            it = l.iter
            if isinstance(it, ast.Subscript) and isinstance(it.slice, ast.Slice) and it.slice.lower is not None and norm(it.slice.lower) == snap and it.slice.upper is None \
                    and isinstance(l.target, ast.Tuple) and len(l.target.elts) == 2:
                r, q = norm(l.target.elts[0]), norm(l.target.elts[1])
                ok_l = any(isinstance(a.op, ast.Add) and norm(a.target.slice) == r and norm(a.value) == q for a in give)
        ctx.check(ok_l, rule, "Resources.allocate_multiple|handler returns the entries added since the snapshot", loc(h), f"for r, q in entries[{snap}:]: vector[r] += q",
                  "the handler does not add back exactly the quantities recorded since the snapshot")
        dels = [d for d in ast.walk(hb) if isinstance(d, ast.Delete) and isinstance(d.targets[0], ast.Subscript) and isinstance(d.targets[0].slice, ast.Slice)]
        ok_d = any(d.targets[0].slice.lower is not None and norm(d.targets[0].slice.lower) == snap and d.targets[0].slice.upper is None for d in dels)
        ctx.check(ok_d, rule, "Resources.allocate_multiple|handler deletes exactly the entries added since the snapshot", loc(h), f"del entries[{snap}:]",
                  "the ledger keeps (or loses) entries after a refused request")
        ok_r = bool(h.body) and isinstance(h.body[-1], ast.Raise) and h.body[-1].exc is None
        ctx.check(ok_r, rule, "Resources.allocate_multiple|handler re-raises", loc(h), "raise", "the refusal is swallowed: callers register a computation that holds nothing")


def run(ctx: Context) -> None:
    ctx.isolate(r1_coindexed)
    ctx.isolate(r2_refusal_changes_nothing)
    ctx.isolate(r2b_rollback_is_exact)
    ctx.isolate(r3_deallocate)
    ctx.isolate(r4_r5_copies)
    ctx.isolate(r6_removal_on_finish)
    ctx.isolate(_r7_allocation_invariant)
    ctx.isolate(_r11_resource_identity)
    ctx.isolate(r9_addition_is_additive)
    from . import c17
    ctx.isolate(c17.cache_coherence, "C04.R10", ("Resources", "Worker", "WorkerPool"), "ledger queries must follow every allocation", 3)


def _r11_resource_identity(ctx: Context) -> None:
    from . import c01
    c01.r11_resource_identity(ctx, rule="C04.R11")


def _r7_allocation_invariant(ctx: Context) -> None:
    from . import c01  # c01 imports this module; resolved at call time
    c01.r1b_allocation_invariant(ctx, rule="C04.R7")
