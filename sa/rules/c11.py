"""C11 — DAG-aware planners order children after parents (structural clauses)."""
from __future__ import annotations

import ast
from typing import Dict, List, Optional, Set, Tuple

from .. import cfg as cfgmod
from .. import lin
from ..core import (
    AnalysisError,
    call_name,
    calls_in,
    dotted,
    enclosing_function,
    is_self_attr,
    loc,
    method,
    methods,
    norm,
    parent,
    qualname,
    src,
)
from ..report import Context
from . import c10

ILP = ("schedulers/ilp_scheduler.py", "ILPScheduler")
GUR = ("schedulers/tetrisched_gurobi_scheduler.py", "TetriSchedGurobiScheduler")
Z3S = ("schedulers/z3_scheduler.py", "Z3Scheduler")

EXPLANATION = (
    "Static shape analysis of the dependency-constraint builders of ILP, TetriSched-Gurobi and Z3: the builder is "
    "called on every path that reaches the solve call; inside it, for every parent variable of the task being "
    "constrained (parents taken from task_graph.get_parents of that task and present in the model) a constraint "
    "child.start >= parent.start + k is added with k = the parent's runtime term plus a non-negative constant (ILP: per "
    "(worker, strategy) placement indicator times (runtime + 1); Gurobi: slowest strategy runtime + 1, or remaining time "
    "+ 1 for an already placed parent; Z3: remaining time, under Implies(is_placed, ...)); the all-parents-placed "
    "indicator pair is complementary over len(parent_tasks) and forces the child's placement sum to 0 when the "
    "indicator is 0 (Z3: Implies(child.is_placed, And(parent.is_placed ...))). NOT decided: that no feasible point of the "
    "assembled model violates precedence (a property of the solver's feasible set)."
)
ASSUMPTIONS = ["Gurobi indicator constraints / z3.Implies have their documented semantics"]


def _builder(ctx: Context, pol) -> ast.FunctionDef:
    return method(ctx.repo.mod(pol[0]).cls(pol[1]), "_add_task_dependency_constraints")


def r1_must_call(ctx: Context) -> None:
    ctx.rule("C11.R1", "the dependency-constraint builder is called on every path that reaches the solve call")
    c10.must_call_before_solve(ctx, "C11.R1", "_add_task_dependency_constraints", [ILP, GUR, Z3S])


def _precedence_constraints(fn: ast.FunctionDef):
    """addConstr(<cmp>) whose comparison relates two start times; returned as (call, larger side, smaller side)."""
    out = []
    for c in calls_in(fn, "addConstr"):
        a = c.args[0] if c.args else None
        if isinstance(a, ast.Compare) and len(a.ops) == 1 and isinstance(a.ops[0], (ast.GtE, ast.LtE, ast.Gt, ast.Lt)):
            if norm(a).count(".start_time") >= 2:
                l, r = (a.left, a.comparators[0]) if isinstance(a.ops[0], (ast.GtE, ast.Gt)) else (a.comparators[0], a.left)
                out.append((c, l, r))
    return out


def r2_precedence_shape(ctx: Context) -> None:
    ctx.rule("C11.R2", "for every parent variable: child.start >= parent.start + (parent runtime term) + c, c >= 0")
    # ---- ILP
    fn = _builder(ctx, ILP)
    ctx.analysed_function(f"{ILP[0]}::{ILP[1]}._add_task_dependency_constraints")
    pcs = _precedence_constraints(fn)
    ctx.floor("C11.R2", "ILP precedence constraints", len(pcs), 1)
    for (c, l, r) in pcs:
        key = f"{ILP[0]}::ILPScheduler._add_task_dependency_constraints|`{norm(l)} >= {norm(r)[:60]}`"
        ok = norm(l) == "task_variable.start_time" and isinstance(r, ast.BinOp) and isinstance(r.op, ast.Add)
        runtime_ok = False
        if ok:
            parts = [r.left, r.right]
            base = [p for p in parts if norm(p) == "parent_variable.start_time"]
            prod = [p for p in parts if isinstance(p, ast.BinOp) and isinstance(p.op, ast.Mult)]
            ok = len(base) == 1 and len(prod) == 1
            if ok:
                pl = [x for x in (prod[0].left, prod[0].right) if isinstance(x, ast.Call) and call_name(x) == "placed_on_worker_with_strategy"]
                rt = [x for x in (prod[0].left, prod[0].right) if x not in pl]
                if len(pl) == 1 and len(rt) == 1 and norm(pl[0].func.value) == "parent_variable":
                    ll = lin.lin_of(rt[0])
                    from .c14 import _occupancy_method_ok
                    tov = ctx.repo.mod(ILP[0]).cls("TaskOptimizerVariables")
                    direct = ll.terms == {"strategy.runtime": 1}
                    via = ll.terms == {"parent_variable.occupancy_time(strategy)": 1} and _occupancy_method_ok(tov)
                    runtime_ok = (direct or via) and ll.const >= 0 and [norm(a) for a in pl[0].args] == ["worker_id", "strategy"]
        ctx.check(ok and runtime_ok, "C11.R2", key, loc(c), "child.start >= parent.start + placed[w, s] * (runtime(s) + c), c >= 0",
                  f"the precedence constraint is `{norm(c.args[0])[:120]}`: the child may start before the parent's chosen strategy finishes")
        # quantified over every (worker, strategy) of the parent and every parent variable
        chain = []
        p = parent(c)
        while p is not None and p is not fn:
            if isinstance(p, ast.For):
                chain.append(norm(p.iter))
            p = parent(p)
        okq = any(x == "parent_variable.task.available_execution_strategies" for x in chain) and any(x == "workers.items()" for x in chain) \
            and any(x == "parent_variables.items()" for x in chain) and any(x == "tasks_to_variables.items()" for x in chain)
        ctx.check(okq, "C11.R2", key + " quantification", loc(c), "for task, for parent variable, for worker, for strategy",
                  f"the constraint is not added for every parent x worker x strategy (loops: {chain})")
        # no guard can skip the constraint for some parents (other than `len(parent_variables) > 0`)
        guards = []
        p = parent(c)
        while p is not None and p is not fn:
            if isinstance(p, ast.If):
                guards.append(norm(p.test))
            p = parent(p)
        ctx.check(all(g in ("len(parent_variables) > 0",) for g in guards), "C11.R2", key + " unconditional", loc(c), f"guards: {guards}",
                  f"the precedence constraint is only added under {guards}")
    # ---- Gurobi
    fn = _builder(ctx, GUR)
    ctx.analysed_function(f"{GUR[0]}::{GUR[1]}._add_task_dependency_constraints")
    pcs = _precedence_constraints(fn)
    ctx.floor("C11.R2", "Gurobi precedence constraints", len(pcs), 1)
    g = cfgmod.build(fn)
    for (c, l, r) in pcs:
        key = f"{GUR[0]}::TetriSchedGurobiScheduler._add_task_dependency_constraints|`{norm(l)} >= {norm(r)[:60]}`"
        env = {}
        for a in ast.walk(fn):
            if isinstance(a, ast.Assign) and len(a.targets) == 1 and isinstance(a.targets[0], ast.Name) and a.targets[0].id in ("parent_remaining_time",):
                env[a.targets[0].id] = lin.lin_of(a.value)
        rr = lin.lin_of(r, env=env)
        cn = g.node_of(c)
        placed = any(t.kind == "test" and norm(t.ast) == "parent_variable.previously_placed" and g.edge_dominates(t, "T", cn) for t in g.nodes)
        if placed:
            want_terms = {"parent_variable.start_time": 1, "parent_variable.task.remaining_time": 1}
            desc = "parent.start + remaining time + c"
        else:
            want_terms = {"parent_variable.start_time": 1, "parent_strategy.runtime": 1}
            desc = "parent.start + slowest runtime + c"
        ok = norm(l) == "task_variable.start_time" and {k: int(v) for k, v in rr.terms.items()} == want_terms and rr.const >= 0
        ctx.check(ok, "C11.R2", key, loc(c), desc + f" (c = {rr.const})",
                  f"the precedence constraint is `{norm(c.args[0])[:120]}` ({rr!r}): child may start before the parent is expected to finish")
    ps = [a for a in ast.walk(fn) if isinstance(a, ast.Assign) and norm(a.targets[0]) == "parent_strategy"]
    ok = bool(ps) and norm(ps[0].value) in ("parent_strategies.get_slowest_strategy()", "parent_variable.task.available_execution_strategies.get_slowest_strategy()")
    ctx.check(ok, "C11.R2", f"{GUR[0]}::TetriSchedGurobiScheduler._add_task_dependency_constraints|worst-case (slowest) parent strategy", loc(ps[0]) if ps else loc(fn),
              "get_slowest_strategy()", "the parent's runtime bound is not its slowest strategy")
    # both branches (placed / not placed) add one constraint: every path through the parent loop adds exactly one
    loops = [l for l in ast.walk(fn) if isinstance(l, ast.For) and norm(l.iter) == "parent_variables.items()"]
    if loops:
        body = ast.FunctionDef(name="__it__", args=ast.arguments(posonlyargs=[], args=[], kwonlyargs=[], kw_defaults=[], defaults=[]),
                               body=loops[0].body, decorator_list=[], lineno=loops[0].lineno, col_offset=0)
        gi = cfgmod.build(body)
        counts = set()
        for path in gi.paths(loop_bound=1):
            if path[-1][0].kind != "ret":
                continue
            counts.add(sum(1 for (n, _l) in path if n.ast is not None and n.kind == "stmt" and any(call_name(x) == "addConstr" for x in ast.walk(n.ast) if isinstance(x, ast.Call))))
        ctx.check(counts == {1}, "C11.R2", f"{GUR[0]}::TetriSchedGurobiScheduler._add_task_dependency_constraints|one precedence constraint per parent variable",
                  loc(loops[0]), "exactly one per parent", f"some parent gets {sorted(counts)} precedence constraints")
    # ---- Z3
    fn = _builder(ctx, Z3S)
    ctx.analysed_function(f"{Z3S[0]}::{Z3S[1]}._add_task_dependency_constraints")
    imps = [c for c in calls_in(fn, "Implies")]
    ok = False
    for c in imps:
        if len(c.args) == 2 and norm(c.args[0]) == "variables.is_placed" and isinstance(c.args[1], ast.Call) and call_name(c.args[1]) == "And":
            inner = c.args[1].args[0]
            if isinstance(inner, ast.ListComp) and isinstance(inner.elt, ast.Compare):
                f = inner.elt
                ll = lin.lin_of(f.left) - lin.lin_of(f.comparators[0])
                terms = {k: int(v) for k, v in ll.terms.items()}
                if isinstance(f.ops[0], ast.GtE) and terms == {"variables.start_time": 1, "parent.start_time": -1, "parent.task.remaining_time": -1} and ll.const <= 0 \
                        and norm(inner.generators[0].iter) == "parent_variables" and not inner.generators[0].ifs:
                    ok = isinstance(parent(c), ast.Call) and call_name(parent(c)) == "add"
    ctx.check(ok, "C11.R2", f"{Z3S[0]}::Z3Scheduler._add_task_dependency_constraints|Implies(placed, And(start >= parent.start + remaining ...))", loc(fn),
              "hard constraint over every parent in the model", "Z3 does not assert start >= parent.start + parent remaining time for every parent")


PLANNER_FILES = ("schedulers/ilp_scheduler.py", "schedulers/tetrisched_gurobi_scheduler.py", "schedulers/tetrisched_cplex_scheduler.py")


def r2c_running_pinned_to_now(ctx: Context, rule: str = "C11.R2c") -> None:
    ctx.rule(rule, "a RUNNING task enters the model with start = the current time (its remaining time is counted from now): the "
                   "precedence bound `parent.start + remaining_time` and the occupied space-time cell are only right for that start")
    n = 0
    for rel in PLANNER_FILES:
        init = method(ctx.repo.mod(rel).cls("TaskOptimizerVariables"), "__init__")
        now = lin.lin_of(ast.parse("current_time", mode="eval").body)
        for br in [x for x in ast.walk(init) if isinstance(x, ast.If) and "TaskState.RUNNING" in norm(x.test) and isinstance(x.test, ast.Compare)
                   and isinstance(x.test.ops[0], ast.Eq)]:
            for a in [y for st in br.body for y in ast.walk(st) if isinstance(y, ast.Assign)]:
                t = a.targets[0]
                if isinstance(t, ast.Attribute) and t.attr == "_start_time":
                    n += 1
                    ctx.check(lin.lin_of(a.value) == now, rule, f"{rel}::TaskOptimizerVariables.__init__|running task starts now", loc(a),
                              "start := current_time", f"a RUNNING task's model start is `{norm(a.value)[:60]}`, not the current time: its expected "
                              "finish `start + remaining_time` is under-estimated by the time it has already run, so a child may be planned "
                              "while it is still running")
                if isinstance(t, ast.Name) and isinstance(a.value, ast.Tuple) and len(a.value.elts) == 3 and "key" in t.id:
                    n += 1
                    ctx.check(lin.lin_of(a.value.elts[1]) == now, rule, f"{rel}::TaskOptimizerVariables.__init__|running task's cell is at the current time", loc(a),
                              "cell time := current_time", f"the occupied cell of a RUNNING task is keyed at `{norm(a.value.elts[1])[:60]}`")
    ctx.floor(rule, "start pins of RUNNING tasks in the planners", n, 4)


def r3_all_parents_placed(ctx: Context) -> None:
    ctx.rule("C11.R3", "placed only if all parents placed: complementary indicator pair over len(parent_tasks); placement sum forced to 0 when the indicator is 0")
    for pol in (ILP, GUR):
        fn = _builder(ctx, pol)
        groups = c10.indicator_pairs(fn)
        pair = [(k, v) for k, v in groups.items() if k.startswith("all_parents_placed ::") and len(v) == 2]
        key = f"{pol[0]}::{pol[1]}._add_task_dependency_constraints"
        if not pair:
            ctx.violation("C11.R3", key + "|all-parents indicator pair", loc(fn), "no complementary indicator pair defines all_parents_placed")
            continue
        k, calls = pair[0]
        info = {}
        for c in calls:
            info[c.args[1].value] = (norm(c.args[3]).split(".")[-1], lin.lin_of(c.args[4]), c)
        ok = set(info) == {0, 1}
        if ok:
            (s0, r0, c0), (s1, r1, c1) = info[0], info[1]
            ok = c10._complementary(s0, r0, s1, r1) == "ok" and s1 == "EQUAL" and r1.terms == {"len(parent_tasks)": 1} and r1.const == 0
        ctx.check(ok, "C11.R3", key + "|indicator = 1 iff every parent of the task is placed", loc(calls[0]), "b=1 => sum == len(parent_tasks); b=0 => sum <= len(parent_tasks) - 1",
                  "the all-parents indicator can be 1 although some parent is not placed")
        # the expression sums the placement of every parent variable
        e = calls[0].args[2]
        if isinstance(e, ast.Name):
            adds = [c for c in calls_in(fn, "add") if norm(c.func.value) == e.id]
            oke = bool(adds) and "parent_variable.placed_on_workers" in norm(adds[0]) and "num_parents_in_variable" in norm(adds[0])
        else:
            oke = "parent_variable.is_placed" in norm(e) and "for parent_variable in parent_variables" in norm(e)
        ctx.check(oke, "C11.R3", key + "|expression counts the placed parents", loc(calls[0]), norm(e)[:60], f"the indicator ranges over `{norm(e)[:80]}`")
        # forced zero
        forced = [c for k2, v in groups.items() for c in v if k2.startswith("all_parents_placed ::") and len(v) == 1]
        okf = False
        for c in forced:
            okf = okf or (isinstance(c.args[1], ast.Constant) and c.args[1].value == 0 and norm(c.args[3]).endswith("EQUAL") and lin.lin_of(c.args[4]).is_const()
                          and lin.lin_of(c.args[4]).const == 0 and ("task_variable.placed_on_workers" in norm(c.args[2]) or norm(c.args[2]) == "task_variable.is_placed"))
        ctx.check(okf, "C11.R3", key + "|child unplaced when not all parents are placed", loc(fn), "b=0 => child's placement == 0",
                  "a child can be placed although the all-parents indicator is 0")
        # parent set from the graph
        ps = [a for a in ast.walk(fn) if isinstance(a, ast.Assign) and norm(a.targets[0]) == "parent_tasks" and "get_parents(" in norm(a.value)]
        okp = bool(ps) and any(norm(a.value) == "set(task_graph.get_parents(task_variable.task))" for a in ps)
        tgd = [a for a in ast.walk(fn) if isinstance(a, ast.Assign) and norm(a.targets[0]) == "task_graph" and "get_task_graph(task_variable.task.task_graph)" in norm(a.value)]
        ctx.check(okp and bool(tgd), "C11.R4", key + "|parents = task_graph.get_parents(task) of the task's own graph", loc(ps[0]) if ps else loc(fn), "ok",
                  "the parent set is not taken from the task's own task graph")
    # Z3
    fn = _builder(ctx, Z3S)
    imps = [c for c in calls_in(fn, "Implies")]
    ok = any(len(c.args) == 2 and norm(c.args[0]) == "variables.is_placed" and norm(c.args[1]) == "z3.And([parent.is_placed for parent in parent_variables])" for c in imps)
    ctx.check(ok, "C11.R3", f"{Z3S[0]}::Z3Scheduler._add_task_dependency_constraints|Implies(placed, And(parents placed))", loc(fn), "ok",
              "Z3 can place a child without all of its modelled parents")
    pv = [a for a in ast.walk(fn) if isinstance(a, ast.Assign) and norm(a.targets[0]) == "parent_variables"]
    ok = bool(pv) and isinstance(pv[0].value, ast.ListComp) and norm(pv[0].value.generators[0].iter) == "task_graph.get_parents(task)"
    ctx.check(ok, "C11.R4", f"{Z3S[0]}::Z3Scheduler._add_task_dependency_constraints|parents = task_graph.get_parents(task)", loc(pv[0]) if pv else loc(fn), "ok",
              "parents not taken from the graph")
    if pv and isinstance(pv[0].value, ast.ListComp):
        gen = pv[0].value.generators[0]
        pvn = norm(gen.target)
        okf = len(gen.ifs) == 1 and norm(gen.ifs[0]) == f"{pvn}.unique_name in tasks_to_variables"
        ctx.check(okf, "C11.R4", f"{Z3S[0]}::Z3Scheduler._add_task_dependency_constraints|every modelled parent is constrained", loc(pv[0]),
                  "only parents outside the model are left out",
                  f"the parent list is filtered by {[norm(i)[:70] for i in gen.ifs]}: a parent that is in the model but excluded here (e.g. one "
                  "that fits on no worker) no longer holds its child back, so the child is placed while that parent is unplaced")
    for pol in (ILP, GUR):
        fnb = _builder(ctx, pol)
        g = cfgmod.build(fnb)
        stores = [a for a in ast.walk(fnb) if isinstance(a, ast.Assign) and isinstance(a.targets[0], ast.Subscript) and norm(a.targets[0].value) == "parent_variables"]
        # the same map written as a comprehension: {variable: n for variable in ... if <filter>}
        comps = [a for a in ast.walk(fnb) if isinstance(a, (ast.Assign, ast.AnnAssign)) and a.value is not None and isinstance(a.value, ast.DictComp)
                 and norm(a.targets[0] if isinstance(a, ast.Assign) else a.target) == "parent_variables"]
        ctx.floor("C11.R4", f"parent_variables stores ({pol[1]})", len(stores) + len(comps), 1)
        for a in comps:
            filt = sorted("T:" + norm(i) for gen in a.value.generators for i in gen.ifs)
            extra = [c for c in filt if c not in ("T:variable.task in parent_tasks",)]
            srcs = [norm(gen.iter) for gen in a.value.generators]
            ctx.check(not extra and srcs == ["tasks_to_variables.values()"], "C11.R4",
                      f"{pol[0]}::{pol[1]}._add_task_dependency_constraints|every modelled parent is constrained", loc(a),
                      "a variable is a parent variable iff its task is a parent",
                      f"the parent map ranges over {srcs} filtered by {extra}: other parents no longer hold the child back")
        allowed = {"T:variable.task in parent_tasks", "T:num_parents_in_variable > 0", "F:task_variable.previously_placed", "T:len(parent_variables) > 0"}
        for st in stores:
            sn = g.node_of(st)
            ctl = set()
            for t in g.nodes:
                if t.kind == "test":
                    if g.edge_dominates(t, "T", sn):
                        ctl.add("T:" + norm(t.ast))
                    elif g.edge_dominates(t, "F", sn):
                        ctl.add("F:" + norm(t.ast))
            # type dispatch (Task vs BatchTask) is not a filter
            extra = sorted(c for c in ctl if c not in allowed and not c.endswith(":True") and not c[2:].startswith("isinstance("))
            ctx.check(not extra, "C11.R4", f"{pol[0]}::{pol[1]}._add_task_dependency_constraints|every modelled parent is constrained", loc(st),
                      "a variable is a parent variable iff its task is a parent",
                      f"a parent in the model is only constrained under {extra}: other parents no longer hold the child back")
    # previously placed tasks are skipped as *children* only
    for pol in (ILP, GUR):
        fn = _builder(ctx, pol)
        top = [s for s in ast.walk(fn) if isinstance(s, ast.If) and norm(s.test) == "task_variable.previously_placed"]
        ok = bool(top) and any(isinstance(x, ast.Continue) for x in top[0].body)
        ctx.check(ok, "C11.R3", f"{pol[0]}::{pol[1]}._add_task_dependency_constraints|only already running tasks are exempt as children", loc(fn), "continue when previously placed",
                  "the exemption of children changed")


def run(ctx: Context) -> None:
    ctx.isolate(r1_must_call)
    ctx.isolate(r2_precedence_shape)
    ctx.isolate(r2c_running_pinned_to_now)
    ctx.isolate(r3_all_parents_placed)
    ctx.isolate(c10.r6_indicator_pairs, rule="C11.R3b")
    from . import c12
    ctx.isolate(c12.strategy_extremes, "C11.R5")
    ctx.isolate(c10.r8_filter_visits_every_graph, rule="C11.R7")
    from . import c16
    ctx.isolate(c16.r6_no_raw_time_numbers, rule="C11.R8", files=("workload/strategy.py", "workload/tasks.py", "workload/profile.py", "schedulers/ilp_scheduler.py", "schedulers/tetrisched_gurobi_scheduler.py", "schedulers/z3_scheduler.py"), floor=30)
    from . import c17
    ctx.isolate(c17.cache_coherence, "C11.R6", ("ExecutionStrategies", "ExecutionStrategy", "Task"), "worst-case runtimes taken from the strategy set", 3)
