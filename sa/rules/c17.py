"""C17 — Graph algorithms agree with their definitions on every DAG (structural clauses)."""
from __future__ import annotations

import ast
from typing import Dict, List, Optional, Set, Tuple

from .. import cfg as cfgmod
from .. import lin
from ..anchors import GRAPH, JOBS, TASKS
from ..core import (
    AnalysisError,
    call_name,
    calls_in,
    dotted,
    closure_functions,
    enclosing_class,
    enclosing_function,
    is_self_attr,
    iteration_around,
    loc,
    method,
    methods,
    norm,
    parent,
    qualname,
    resolve_local,
    src,
)
from ..report import Context

EXPLANATION = (
    "Static structural analysis of workload/graph.py::Graph: worklist discipline of the traversals that keep a "
    "visited set (a node is either marked when pushed, pushed only once all its parents are visited, or re-tested "
    "after the pop and before the yield; 'test at push, mark at pop' yields a node once per parent); "
    "topological_sort raises on a temporary mark, appends a node after visiting its children, visits every "
    "unmarked node and returns the reversed post-order; get_longest_path relaxes in topological order, records the "
    "predecessor in the same branch as the length and reconstructs by walking predecessors; get_node_depth is "
    "func(parent depths)+1 in topological order; are_dependent compares max-depths and searches from the shallower "
    "node; add_child keeps the child and parent maps symmetric; critical-path runtimes sum the attribute their "
    "weight function returns. NOT decided: agreement with the definitions on every DAG (maximality, exact "
    "reachability): algorithmic correctness is not a shape property."
)
ASSUMPTIONS = ["node equality/hash are consistent for graph nodes (Job/Task define both)"]


def _graph_cls(ctx: Context) -> ast.ClassDef:
    return ctx.repo.mod(GRAPH).cls("Graph")


def r1_worklist(ctx: Context) -> None:
    ctx.rule("C17.R1", "traversals with a visited set: mark at push, or push only when all parents are visited, or "
                       "re-test membership after the pop and before the yield")
    g_cls = _graph_cls(ctx)
    n = 0
    for name, fn in methods(g_cls).items():
        yields = [y for y in ast.walk(fn) if isinstance(y, ast.Yield)]
        if not yields:
            continue
        visited = [a.targets[0].id for a in ast.walk(fn) if isinstance(a, ast.Assign) and isinstance(a.targets[0], ast.Name)
                   and isinstance(a.value, ast.Call) and call_name(a.value) == "set" and not a.value.args]
        pops = [a for a in ast.walk(fn) if isinstance(a, ast.Assign) and isinstance(a.value, ast.Call)
                and call_name(a.value) in ("pop", "popleft") and isinstance(a.targets[0], ast.Name)]
        if not visited or not pops:
            continue
        n += 1
        ctx.analysed_function(f"{GRAPH}::Graph.{name}")
        vis = visited[0]
        cur = pops[0].targets[0].id
        frontier = norm(pops[0].value.func.value)
        g = cfgmod.build(fn)
        loops = [w for w in ast.walk(fn) if isinstance(w, ast.While)]
        if not loops:
            raise AnalysisError(f"Graph.{name}: worklist loop not found")
        loop = loops[0]
        pushes = [c for c in calls_in(loop, "append") if norm(c.func.value) == frontier]
        ys = [y for y in yields if isinstance(y.value, ast.Name) and y.value.id == cur]
        if not ys:
            raise AnalysisError(f"Graph.{name}: yield of the popped node not found")
        # discipline B: membership re-test between pop and yield
        yn = g.node_of(ys[0])
        retest = False
        for t in g.nodes:
            if t.kind == "test" and isinstance(t.ast, ast.Compare) and len(t.ast.ops) == 1 and norm(t.ast.left) == cur \
                    and norm(t.ast.comparators[0]) == vis:
                if isinstance(t.ast.ops[0], ast.In) and g.edge_dominates(t, "F", yn) and g.dominates(g.node_of(pops[0]), t):
                    retest = True
                if isinstance(t.ast.ops[0], ast.NotIn) and g.edge_dominates(t, "T", yn) and g.dominates(g.node_of(pops[0]), t):
                    retest = True
        marks_cur = [c for c in calls_in(loop, "add") if norm(c.func.value) == vis and c.args and norm(c.args[0]) == cur]
        if retest:
            ok = bool(marks_cur) and all(g.dominates(g.node_of(pops[0]), g.node_of(m)) for m in marks_cur)
            ctx.check(ok, "C17.R1", f"Graph.{name}|re-test after pop, mark before the next pop", loc(ys[0]), "discipline B",
                      "the popped node is re-tested but never marked visited")
            continue
        all_ok = True
        why = ""
        for p in pushes:
            child = norm(p.args[0]) if p.args else "?"
            pn = g.node_of(p)
            # discipline A: guarded by `child not in visited` and marked in the same block
            guarded_a = any(t.kind == "test" and isinstance(t.ast, ast.Compare) and len(t.ast.ops) == 1 and norm(t.ast.left) == child
                            and norm(t.ast.comparators[0]) == vis and
                            ((isinstance(t.ast.ops[0], ast.NotIn) and g.edge_dominates(t, "T", pn)) or
                             (isinstance(t.ast.ops[0], ast.In) and g.edge_dominates(t, "F", pn))) for t in g.nodes)
            blk = getattr(parent(parent(p)), "body", [])
            marked_a = any(isinstance(s, ast.Expr) and isinstance(s.value, ast.Call) and call_name(s.value) == "add"
                           and norm(s.value.func.value) == vis and s.value.args and norm(s.value.args[0]) == child for s in blk)
            # discipline C: pushed only when all parents are visited
            guarded_c = any(t.kind == "test" and g.edge_dominates(t, "T", pn) and _all_parents_visited(t.ast, child, vis) for t in g.nodes)
            if not ((guarded_a and marked_a) or guarded_c):
                all_ok = False
                why = (f"`{norm(p)}` is guarded by `{child} not in {vis}` but `{child}` is only marked when it is popped: a node with "
                       "several already-queued parents is pushed once per parent and yielded more than once") if guarded_a else \
                    f"`{norm(p)}` pushes a node without any visited discipline"
        ctx.check(all_ok and bool(pushes), "C17.R1", f"Graph.{name}|each node is queued at most once", loc(pushes[0]) if pushes else loc(fn),
                  "mark-at-push or all-parents-visited", why or "no push found")
        # the popped node is marked before its children are examined
        if marks_cur:
            ctx.check(g.dominates(g.node_of(marks_cur[0]), yn) or g.dominates(yn, g.node_of(marks_cur[0])), "C17.R1",
                      f"Graph.{name}|popped node marked visited", loc(marks_cur[0]), "marked", "popped node not marked on every path")
    ctx.floor("C17.R1", "worklist traversals", n, 2)


def _all_parents_visited(test: ast.AST, child: str, vis: str) -> bool:
    for c in ast.walk(test):
        if isinstance(c, ast.Call) and call_name(c) == "all" and c.args and isinstance(c.args[0], (ast.GeneratorExp, ast.ListComp)):
            ge = c.args[0]
            gen = ge.generators[0]
            if isinstance(ge.elt, ast.Compare) and isinstance(ge.elt.ops[0], ast.In) and norm(ge.elt.comparators[0]) == vis \
                    and norm(ge.elt.left) == norm(gen.target) and norm(gen.iter) == f"self.get_parents({child})":
                return True
    return False


def r2_topological_sort(ctx: Context) -> None:
    ctx.rule("C17.R2", "topological_sort: temporary mark raises; node appended after its children; every unmarked node "
                       "visited; result is the reverse of the post-order")
    fn = method(_graph_cls(ctx), "topological_sort")
    ctx.analysed_function(f"{GRAPH}::Graph.topological_sort")
    inner = [n for n in fn.body if isinstance(n, ast.FunctionDef)]
    if len(inner) != 1:
        raise AnalysisError("topological_sort: nested visit() not found")
    visit = inner[0]
    v = visit.args.args[0].arg
    g = cfgmod.build(visit)
    marks_assign = [a for a in ast.walk(fn) if isinstance(a, ast.Assign) and isinstance(a.value, ast.DictComp)]
    from_keys = [a for a in ast.walk(fn) if isinstance(a, ast.Assign) and isinstance(a.value, ast.Call) and norm(a.value.func) == "dict.fromkeys"
                 and len(a.value.args) == 2 and isinstance(a.value.args[1], ast.Constant)]
    if marks_assign:
        marks_iter, init_mark = marks_assign[0].value.generators[0].iter, norm(marks_assign[0].value.value)
    elif from_keys:
        # dict.fromkeys(nodes, 'Unmarked'): the same table (the initial mark is an immutable constant)
        marks_assign = from_keys
        marks_iter, init_mark = from_keys[0].value.args[0], norm(from_keys[0].value.args[1])
    else:
        raise AnalysisError("topological_sort: marks dictionary not found")
    marks = marks_assign[0].targets[0].id
    ctx.check("self.get_nodes()" in norm(marks_iter), "C17.R2", "Graph.topological_sort|marks cover every node",
              loc(marks_assign[0]), "all nodes", "the mark table does not cover all nodes")
    # cycle detection
    temp_tests = [t for t in g.nodes if t.kind == "test" and isinstance(t.ast, ast.Compare) and norm(t.ast.left) == f"{marks}[{v}]"
                  and isinstance(t.ast.ops[0], ast.Eq)]
    raise_on = [t for t in temp_tests if isinstance(parent(t.ast), ast.If) and any(isinstance(x, ast.Raise) for x in parent(t.ast).body)]
    ret_on = [t for t in temp_tests if isinstance(parent(t.ast), ast.If) and any(isinstance(x, ast.Return) for x in parent(t.ast).body)]
    sets = [a for a in ast.walk(visit) if isinstance(a, ast.Assign) and norm(a.targets[0]) == f"{marks}[{v}]"]
    recs = [c for c in calls_in(visit, visit.name)]
    apps = [c for c in calls_in(visit, "append")]
    ok = len(raise_on) == 1 and len(ret_on) == 1 and len(sets) == 2 and len(recs) == 1 and len(apps) == 1
    if not ok:
        ctx.violation("C17.R2", "Graph.topological_sort|visit() shape", loc(visit),
                      f"visit() no longer has the temporary/permanent marking shape (raise tests {len(raise_on)}, return tests {len(ret_on)}, "
                      f"mark writes {len(sets)}, recursive calls {len(recs)}, appends {len(apps)})")
        return
    temp_val = norm(raise_on[0].ast.comparators[0])
    perm_val = norm(ret_on[0].ast.comparators[0])
    sets_sorted = sorted(sets, key=lambda a: a.lineno)
    ctx.check(norm(sets_sorted[0].value) == temp_val and norm(sets_sorted[1].value) == perm_val and temp_val != perm_val and temp_val != init_mark,
              "C17.R2", "Graph.topological_sort|temporary before children, permanent after", loc(sets_sorted[0]), f"{temp_val} -> {perm_val}",
              f"marks are written as {[norm(s.value) for s in sets_sorted]} but tested as raise-on {temp_val} / skip-on {perm_val}")
    rn, an = g.node_of(recs[0]), g.node_of(apps[0])
    t1, t2 = g.node_of(sets_sorted[0]), g.node_of(sets_sorted[1])
    order_ok = g.dominates(t1, rn) and g.dominates(t1, an) and not g.reachable(an, rn) and g.dominates(g.node_of(parent(parent(recs[0]))), an) \
        if isinstance(parent(parent(recs[0])), ast.For) else False
    ctx.check(order_ok, "C17.R2", "Graph.topological_sort|node appended after all its children were visited", loc(apps[0]),
              "post-order", "the node is appended before (or without) visiting its children: the result is not a topological order")
    lp = parent(parent(recs[0]))
    ctx.check(isinstance(lp, ast.For) and norm(lp.iter) == f"self.get_children({v})" and norm(recs[0].args[0]) == norm(lp.target), "C17.R2",
              "Graph.topological_sort|recursion over the node's children", loc(recs[0]), "for child in get_children(node): visit(child)",
              "the recursion does not range over the node's children")
    ctx.check(norm(apps[0].args[0]) == v, "C17.R2", "Graph.topological_sort|appends the visited node", loc(apps[0]), "ok", f"appends `{norm(apps[0].args[0])}`")
    # raise/skip tests dominate the marking
    ctx.check(g.edge_dominates(raise_on[0], "F", t1) and g.edge_dominates(ret_on[0], "F", t1), "C17.R2",
              "Graph.topological_sort|cycle and revisit tests precede the marking", loc(raise_on[0].ast), "ok",
              "a node can be marked temporary without first testing its current mark: cycles go unnoticed")
    # result reversed
    rets = [r for r in ast.walk(fn) if isinstance(r, ast.Return) and enclosing_function(r) is fn]
    lst = norm(apps[0].func.value)
    ok = len(rets) == 1 and (norm(rets[0].value) == f"{lst}[::-1]" or norm(rets[0].value) in (f"list(reversed({lst}))",))
    if len(rets) == 1 and not ok and norm(rets[0].value) == lst and rets[0] in fn.body and fn.body.index(rets[0]) > 0:
        # the function's own list reversed in place right before it is returned
        prev = fn.body[fn.body.index(rets[0]) - 1]
        ok = isinstance(prev, ast.Expr) and norm(prev.value) == f"{lst}.reverse()" and len(calls_in(fn, "reverse")) == 1
    ctx.check(ok, "C17.R2", "Graph.topological_sort|returns the reversed post-order", loc(rets[0]) if rets else loc(fn), "reversed",
              f"returns `{norm(rets[0].value) if rets else '?'}`: parents would come after their children")
    # outer driver visits every unmarked node
    outer = [c for c in calls_in(fn, visit.name) if enclosing_function(c) is fn]
    ok = False
    for c in outer:
        lp = parent(c)
        while lp is not None and not isinstance(lp, ast.For):
            lp = parent(lp)
        if lp is not None and marks in norm(lp.iter):
            ok = True
    ctx.check(ok, "C17.R2", "Graph.topological_sort|every unmarked node is visited", loc(fn), "loop over the mark table",
              "not every node is used as a DFS root: nodes can be missing from the order")


def r3_longest_path(ctx: Context) -> None:
    ctx.rule("C17.R3", "get_longest_path: relaxation in topological order; predecessor recorded with the length; "
                       "reconstruction walks predecessors from the arg-max; result reversed")
    fn = method(_graph_cls(ctx), "get_longest_path")
    ctx.analysed_function(f"{GRAPH}::Graph.get_longest_path")
    loops = [n for n in fn.body if isinstance(n, ast.For)]
    ok = len(loops) == 1 and norm(loops[0].iter) == "self.topological_sort()"
    ctx.check(ok, "C17.R3", "Graph.get_longest_path|relaxes in topological order", loc(loops[0]) if loops else loc(fn), "for node in topological_sort()",
              f"relaxation iterates `{norm(loops[0].iter) if loops else '?'}`: lengths of later nodes may be computed from stale values")
    if not loops:
        return
    node = norm(loops[0].target)
    inner = [n for n in loops[0].body if isinstance(n, ast.For)]
    ok = len(inner) == 1 and norm(inner[0].iter) == f"self.get_children({node})"
    ctx.check(ok, "C17.R3", "Graph.get_longest_path|relaxes every out-edge", loc(loops[0]), "for child in get_children(node)", "inner loop is not over the node's children")
    if not ok:
        return
    child = norm(inner[0].target)
    ifs = [s for s in inner[0].body if isinstance(s, ast.If)]
    if len(ifs) != 1:
        raise AnalysisError("get_longest_path: relaxation test not found")
    t = ifs[0].test
    relax_body = ifs[0].body
    if len(ifs[0].body) == 1 and isinstance(ifs[0].body[0], ast.Continue) and not ifs[0].orelse:
        # guard clause: `if not better: continue` followed by the update
        t = ast.UnaryOp(op=ast.Not(), operand=t)
        relax_body = inner[0].body[inner[0].body.index(ifs[0]) + 1:]
    # a length looked up once per node (`length_to_node = lengths[node]` in front of the loop over the children) stands for that lookup
    hoisted = {a.targets[0].id: a.value for a in loops[0].body[:loops[0].body.index(inner[0])]
               if isinstance(a, ast.Assign) and len(a.targets) == 1 and isinstance(a.targets[0], ast.Name)
               and sum(1 for x in ast.walk(fn) if isinstance(x, ast.Name) and x.id == a.targets[0].id and isinstance(x.ctx, ast.Store)) == 1}

    def unhoist(e: ast.AST) -> ast.AST:
        class _S(ast.NodeTransformer):
            def visit_Name(self, n):
                return ast.parse(ast.unparse(hoisted[n.id]), mode="eval").body if isinstance(n.ctx, ast.Load) and n.id in hoisted else n
        return ast.fix_missing_locations(_S().visit(ast.parse(ast.unparse(e), mode="eval").body))
    t = ast.copy_location(unhoist(t), ifs[0].test)
    L = None
    for a in relax_body:
        if isinstance(a, ast.Assign) and isinstance(a.targets[0], ast.Subscript) and norm(a.targets[0].slice) == child and "predecessor" not in norm(a.targets[0].value):
            L = norm(a.targets[0].value)
            newv = unhoist(a.value)
    if L is None:
        raise AnalysisError("get_longest_path: length update not found")
    cand = lin.lin_of(ast.parse(f"{L}[{node}] + weights({child})", mode="eval").body)
    ctx.check(lin.lin_of(newv) == cand, "C17.R3", "Graph.get_longest_path|new length = length(node) + weight(child)", loc(ifs[0]), norm(newv)[:60],
              f"length is updated to `{norm(newv)[:70]}`")
    f = lin.formula(t, integer=False)
    w_le = lin.formula(ast.parse(f"{L}[{child}] <= {L}[{node}] + weights({child})", mode="eval").body, integer=False)
    w_lt = lin.formula(ast.parse(f"{L}[{child}] < {L}[{node}] + weights({child})", mode="eval").body, integer=False)
    ctx.check(lin.equivalent(f, w_le) or lin.equivalent(f, w_lt), "C17.R3", "Graph.get_longest_path|update when the path through node is longer", loc(t),
              norm(t)[:70], f"relaxation test is `{norm(t)[:80]}`: shorter paths can overwrite longer ones")
    preds = [a for a in relax_body if isinstance(a, ast.Assign) and isinstance(a.targets[0], ast.Subscript) and "predecessor" in norm(a.targets[0].value)]
    ok = len(preds) == 1 and norm(preds[0].targets[0].slice) == child and norm(preds[0].value) == node
    ctx.check(ok, "C17.R3", "Graph.get_longest_path|predecessor recorded in the same branch as the length", loc(ifs[0]), "predecessor[child] = node",
              "the back-pointer is not updated together with the length: the reconstructed path does not match the length")
    # initial lengths are the node weights
    inits = [a for a in fn.body if isinstance(a, ast.Assign) and norm(a.targets[0]) == L]
    ok = bool(inits) and isinstance(inits[0].value, ast.DictComp) and norm(inits[0].value.value) == f"weights({norm(inits[0].value.key)})" \
        and "self.get_nodes()" in norm(inits[0].value.generators[0].iter)
    ctx.check(ok, "C17.R3", "Graph.get_longest_path|initial length = own weight for every node", loc(inits[0]) if inits else loc(fn), "ok", "initial lengths changed")
    # reconstruction
    mx = [a for a in fn.body if isinstance(a, ast.Assign) and isinstance(a.value, ast.Call) and call_name(a.value) == "max"]
    ok = bool(mx) and f"{L}.items()" in norm(mx[0].value) and "val[1]" in norm(mx[0].value)
    ctx.check(ok, "C17.R3", "Graph.get_longest_path|starts from the node with the maximum length", loc(mx[0]) if mx else loc(fn), "argmax", "end node is not the arg-max of the lengths")
    wl = [w for w in fn.body if isinstance(w, ast.While)]
    ok = False
    if wl:
        body = wl[0].body
        walk_pred = any(isinstance(s, ast.Assign) and isinstance(s.value, ast.Subscript) and "predecessor" in norm(s.value.value)
                        and norm(s.value.slice) == norm(s.targets[0]) for s in body)
        app = any(isinstance(s, ast.Expr) and isinstance(s.value, ast.Call) and call_name(s.value) == "append" for s in body)
        dec = any(isinstance(s, ast.AugAssign) and isinstance(s.op, ast.Sub) and "weights(" in norm(s.value) for s in body)
        ok = walk_pred and app and dec
    ctx.check(ok, "C17.R3", "Graph.get_longest_path|reconstruction walks the predecessors", loc(wl[0]) if wl else loc(fn), "ok", "reconstruction changed")
    rets = [r for r in ast.walk(fn) if isinstance(r, ast.Return)]
    ctx.check(len(rets) == 1 and norm(rets[0].value).endswith("[::-1]"), "C17.R3", "Graph.get_longest_path|returned source-to-sink", loc(rets[0]) if rets else loc(fn),
              "reversed", f"returns `{norm(rets[0].value) if rets else '?'}`")


def r4_depth_and_dependency(ctx: Context) -> None:
    ctx.rule("C17.R4", "get_node_depth = func(parent depths)+1 in topological order (max by default); are_dependent "
                       "compares depths and searches from the shallower node; critical-path runtimes sum their weight attribute")
    gcls = _graph_cls(ctx)
    nd = method(gcls, "get_node_depth")
    d = nd.args.defaults
    ctx.check(bool(d) and norm(d[-1]) == "max", "C17.R4", "Graph.get_node_depth|default func=max", loc(nd), "max", f"default is `{norm(d[-1]) if d else '?'}`")
    loops = [n for n in ast.walk(nd) if isinstance(n, ast.For)]
    ok = bool(loops) and norm(loops[0].iter) == "self.topological_sort()"
    ctx.check(ok, "C17.R4", "Graph.get_node_depth|topological order", loc(nd), "ok", "depths are not computed in topological order")
    upd = [a for a in ast.walk(nd) if isinstance(a, ast.Assign) and isinstance(a.targets[0], ast.Subscript) and isinstance(a.value, ast.BinOp)]
    ok = False
    if upd:
        v = upd[0].value
        ok = isinstance(v.op, ast.Add) and lin.lin_of(v.right).is_const() and lin.lin_of(v.right).const == 1 and isinstance(v.left, ast.Call) \
            and norm(v.left.func) == "func" and "self.get_parents(" in norm(v.left)
    ctx.check(ok, "C17.R4", "Graph.get_node_depth|func(parent depths) + 1", loc(upd[0]) if upd else loc(nd), "ok", f"depth update is `{norm(upd[0].value) if upd else '?'}`")
    dd = [a for a in ast.walk(nd) if isinstance(a, ast.Assign) and isinstance(a.value, ast.Call) and call_name(a.value) == "defaultdict"]
    ok = bool(dd) and isinstance(dd[0].value.args[0], ast.Lambda) and norm(dd[0].value.args[0].body) == "1"
    ctx.check(ok, "C17.R4", "Graph.get_node_depth|sources have depth 1", loc(dd[0]) if dd else loc(nd), "ok", "source depth changed")
    ad = method(gcls, "are_dependent")
    ctx.analysed_function(f"{GRAPH}::Graph.are_dependent")
    n1, n2 = ad.args.args[1].arg, ad.args.args[2].arg
    depth_calls = {norm(a.targets[0]): a.value for a in ast.walk(ad) if isinstance(a, ast.Assign) and isinstance(a.value, ast.Call) and call_name(a.value) == "get_node_depth"}
    ok = len(depth_calls) == 2 and all(len(v.args) == 1 and not v.keywords for v in depth_calls.values())
    ctx.check(ok, "C17.R4", "Graph.are_dependent|uses the default (max) depth of both nodes", loc(ad), "ok", "depths are taken with a non-default function")
    dname = {norm(v.args[0]): k for k, v in depth_calls.items()}
    inner = [f for f in ad.body if isinstance(f, ast.FunctionDef)]
    if inner and n1 in dname and n2 in dname:
        chk = inner[0].name
        top, bottom = inner[0].args.args[0].arg, inner[0].args.args[1].arg
        lp = [l for l in ast.walk(inner[0]) if isinstance(l, ast.For)]
        ok = bool(lp) and norm(lp[0].iter) == f"self.depth_first({top})" and any(
            isinstance(c, ast.Compare) and {norm(c.left), norm(c.comparators[0])} == {norm(lp[0].target), bottom} for c in ast.walk(lp[0]))
        ctx.check(ok, "C17.R4", "Graph.are_dependent|reachability search from the top node", loc(inner[0]), "depth_first(top) contains bottom", "search changed")
        g = cfgmod.build(ad)
        for path in g.paths(loop_bound=1):
            if path[-1][0].kind != "ret":
                continue
            last = path[-2][0].ast
            if not isinstance(last, ast.Return):
                continue
            conds = cfgmod.path_conditions(path)
            pc = ("and", [lin.formula(t) if p == "T" else lin.f_not(lin.formula(t)) for p, t in conds]) if conds else ("const", True)
            eq = lin.formula(ast.parse(f"{dname[n1]} == {dname[n2]}", mode="eval").body)
            gt = lin.formula(ast.parse(f"{dname[n1]} > {dname[n2]}", mode="eval").body)
            key = f"Graph.are_dependent|path[{' & '.join(p + ':' + norm(t) for p, t in conds)}]"
            rv = last.value
            if lin.entails(pc, eq):
                ctx.check(isinstance(rv, ast.Constant) and rv.value is False, "C17.R4", key, loc(last), "same depth: independent", f"returns `{norm(rv)}` at equal depth")
            elif lin.entails(pc, gt):
                ok = isinstance(rv, ast.Call) and call_name(rv) == chk and [norm(a) for a in rv.args] == [n2, n1]
                ctx.check(ok, "C17.R4", key, loc(last), "search from the shallower node", f"node_1 deeper: returns `{norm(rv)}`")
            elif lin.entails(pc, ("and", [lin.f_not(eq), lin.f_not(gt)])):
                ok = isinstance(rv, ast.Call) and call_name(rv) == chk and [norm(a) for a in rv.args] == [n1, n2]
                ctx.check(ok, "C17.R4", key, loc(last), "search from the shallower node", f"node_2 deeper: returns `{norm(rv)}`")
            else:
                ctx.violation("C17.R4", key, loc(last), "a path of are_dependent does not order the two depths")
    else:
        raise AnalysisError("are_dependent: shape not recognised")
    # critical path runtime (TaskGraph) sums what its weight returns
    tg = ctx.repo.mod(TASKS).cls("TaskGraph")
    cp = methods(tg).get("critical_path_runtime")
    if cp is None:
        raise AnalysisError("TaskGraph.critical_path_runtime not found")
    sums = [c for c in calls_in(cp, "sum")]
    ok = False
    if sums and isinstance(sums[0].args[0], ast.GeneratorExp):
        ge = sums[0].args[0]
        it = resolve_local(cp, ge.generators[0].iter)  # the path may be held in a local first
        w = None
        if isinstance(it, ast.Call) and call_name(it) == "get_longest_path":
            w = next((k.value for k in it.keywords if k.arg == "weights"), it.args[0] if it.args else None)
        var = norm(ge.generators[0].target)
        if isinstance(w, ast.Lambda):
            ok = _same_modulo_var(ge.elt, var, w.body, w.args.args[0].arg)
        elif isinstance(w, (ast.Name, ast.Attribute)):
            # a named weight function (defined inside the method, or a method of the class)
            wname = w.id if isinstance(w, ast.Name) else w.attr
            defs = [d for d in ast.walk(cp) if isinstance(d, ast.FunctionDef) and d is not cp and d.name == wname] or \
                   ([methods(tg)[wname]] if wname in methods(tg) else [])
            if defs:
                d = defs[0]
                params = [a.arg for a in d.args.args if a.arg not in ("self", "cls")]
                rets = [r.value for r in ast.walk(d) if isinstance(r, ast.Return) and r.value is not None]
                if isinstance(ge.elt, ast.Call) and norm(ge.elt.func).split(".")[-1] == wname and len(ge.elt.args) == 1 and norm(ge.elt.args[0]) == var:
                    ok = True  # the very same function is applied to every node of the path
                elif len(rets) == 1 and len(params) == 1:
                    ok = _same_modulo_var(ge.elt, var, rets[0], params[0])
    ctx.check(ok, "C17.R4", "TaskGraph.critical_path_runtime|sums the attribute its weight function returns", loc(cp), "same expression",
              "the critical path is chosen with one weight but summed with another")
    # add_child symmetry
    ac = method(gcls, "add_child")
    n, c = ac.args.args[1].arg, ac.args.args[2].arg
    a1 = any(norm(x) == f"self._graph[{n}].append({c})" for x in ast.walk(ac) if isinstance(x, ast.Call))
    a2 = any(norm(x) == f"self._parent_graph[{c}].append({n})" for x in ast.walk(ac) if isinstance(x, ast.Call))
    ctx.check(a1 and a2, "C17.R4", "Graph.add_child|child and parent maps updated together", loc(ac), "symmetric", "edge added to one map only")
    gp = method(gcls, "get_parents")
    gc = method(gcls, "get_children")
    ctx.check(any(isinstance(r, ast.Return) and norm(r.value).startswith("self._parent_graph[") for r in ast.walk(gp)) and
              any(isinstance(r, ast.Return) and norm(r.value).startswith("self._graph[") for r in ast.walk(gc)), "C17.R4",
              "Graph.get_parents/get_children|read the matching map", loc(gp), "ok", "accessor reads the wrong map")
    gs = method(gcls, "get_sources")
    ok = any(isinstance(t, ast.Compare) and "len(self.get_parents(" in norm(t.left) and norm(t.comparators[0]) == "0" and isinstance(t.ops[0], ast.Eq)
             for t in ast.walk(gs))
    ctx.check(ok, "C17.R4", "Graph.get_sources|nodes without parents", loc(gs), "ok", "source definition changed")


def _same_modulo_var(a: ast.AST, va: str, b: ast.AST, vb: str) -> bool:
    def dump(e, v):
        parts = []
        for n in ast.walk(e):
            if isinstance(n, ast.Name):
                parts.append("X" if n.id == v else n.id)
            elif isinstance(n, ast.Attribute):
                parts.append("." + n.attr)
            elif isinstance(n, ast.Constant):
                parts.append(repr(n.value))
            else:
                parts.append(type(n).__name__)
        return parts
    return dump(a, va) == dump(b, vb)


def r5_breadth_first(ctx: Context) -> None:
    ctx.rule("C17.R5", "breadth_first starts from the sources (or the given node), yields the popped node, FIFO order")
    fn = method(_graph_cls(ctx), "breadth_first")
    pops = [c for c in calls_in(fn) if call_name(c) in ("pop", "popleft")]
    ctx.check(bool(pops) and all(call_name(c) == "popleft" for c in pops), "C17.R5", "Graph.breadth_first|FIFO frontier", loc(fn), "popleft", "frontier is not FIFO")
    inits = [a for a in ast.walk(fn) if isinstance(a, ast.Assign) and isinstance(a.value, ast.Call) and call_name(a.value) == "deque"]
    srcs = [norm(a.value.args[0]) for a in inits if a.value.args]
    ctx.check("self.get_sources()" in srcs, "C17.R5", "Graph.breadth_first|starts from the sources", loc(fn), "ok", f"initial frontier: {srcs}")
    df = method(_graph_cls(ctx), "depth_first")
    pops = [c for c in calls_in(df) if call_name(c) in ("pop", "popleft")]
    ctx.check(bool(pops) and all(call_name(c) == "pop" for c in pops), "C17.R5", "Graph.depth_first|LIFO frontier", loc(df), "pop", "frontier is not LIFO")
    it = method(_graph_cls(ctx), "__iter__")
    ctx.check("self.breadth_first()" in norm(it), "C17.R5", "Graph.__iter__|breadth-first", loc(it), "ok", "iteration order changed")


def r5b_bfs_dependency_on_start(ctx: Context) -> None:
    ctx.rule("C17.R5b", "breadth_first(start): a child waits only for those of its parents that depend on the START node "
                        "(`are_dependent(<start parameter>, parent)`), not on the node currently expanded")
    fn = method(_graph_cls(ctx), "breadth_first")
    start = fn.args.args[1].arg if len(fn.args.args) > 1 else None
    calls = [c for c in calls_in(fn, "are_dependent")]
    ctx.floor("C17.R5b", "are_dependent calls in breadth_first", len(calls), 1)
    for c in calls:
        ok = len(c.args) == 2 and start in (norm(c.args[0]), norm(c.args[1]))
        ctx.check(ok, "C17.R5b", f"Graph.breadth_first|`{norm(c)[:50]}` relates a parent to the start node", loc(c), f"are_dependent({start}, parent)",
                  f"`{norm(c)[:60]}` does not involve the start node `{start}`: a join below the start is yielded once per incoming branch, "
                  "possibly before one of its parents")


def r6_weights_in_one_unit(ctx: Context) -> None:
    ctx.rule("C17.R6", "every weight function handed to get_longest_path that reads an EventTime converts it to one unit first "
                       "(`.to(EventTime.Unit.X).time`): a bare `.time` compares runtimes of different units as plain numbers and the "
                       "path returned is not the heaviest one")
    n = 0
    for m in ctx.repo.program_modules():
        for c in ast.walk(m.tree):
            if not (isinstance(c, ast.Call) and call_name(c) == "get_longest_path"):
                continue
            w = next((k.value for k in c.keywords if k.arg == "weights"), c.args[0] if c.args else None)
            if w is None:
                continue
            bodies = []
            if isinstance(w, ast.Lambda):
                bodies = [w.body]
            elif isinstance(w, ast.Name):
                fn = enclosing_function(c)
                for d in ast.walk(fn if fn is not None else m.tree):
                    if isinstance(d, ast.FunctionDef) and d.name == w.id:
                        bodies = [r.value for r in ast.walk(d) if isinstance(r, ast.Return) and r.value is not None]
            elif isinstance(w, ast.Attribute) and isinstance(w.value, ast.Name):
                # a method handed over by reference: self._weight / JobGraph._weight
                cls = enclosing_class(c)
                if cls is not None and w.attr in methods(cls):
                    bodies = [r.value for r in ast.walk(methods(cls)[w.attr]) if isinstance(r, ast.Return) and r.value is not None]
            if not bodies:
                continue
            n += 1
            raw = []
            units = set()
            for b in bodies:
                for a in ast.walk(b):
                    if isinstance(a, ast.Attribute) and a.attr == "time":
                        v = a.value
                        if isinstance(v, ast.Call) and isinstance(v.func, ast.Attribute) and v.func.attr == "to" and v.args:
                            units.add(norm(v.args[0]))
                        elif isinstance(v, ast.Attribute) and ("runtime" in v.attr or "time" in v.attr or "slo" in v.attr or "deadline" in v.attr):
                            raw.append(norm(a))
            key = f"{qualname(c)}|weights `{norm(bodies[0])[:50]}` in one unit"
            ctx.check(not raw and len(units) <= 1, "C17.R6", key, loc(c), f"unit {sorted(units) or 'n/a'}",
                      f"the weight function reads {raw or sorted(units)}: EventTime values are compared in their own units, so with runtimes "
                      "given in different units the longest path (and the critical-path runtime / deadline built on it) is not the maximum")
    ctx.floor("C17.R6", "weight functions handed to get_longest_path", n, 4)
    # the runtime that is summed along the returned path is the one the path was chosen by
    n2 = 0
    for m in ctx.repo.program_modules():
        for c in ast.walk(m.tree):
            if not (isinstance(c, ast.Call) and call_name(c) == "get_longest_path"):
                continue
            comp = parent(c)
            while comp is not None and not isinstance(comp, (ast.GeneratorExp, ast.ListComp, ast.FunctionDef)):
                comp = parent(comp)
            if not isinstance(comp, (ast.GeneratorExp, ast.ListComp)) or not any(c is x for g_ in comp.generators for x in ast.walk(g_.iter)):
                continue
            w = next((k.value for k in c.keywords if k.arg == "weights"), c.args[0] if c.args else None)
            wbodies = []
            if isinstance(w, ast.Lambda):
                wbodies = [w.body]
            elif isinstance(w, ast.Attribute) and isinstance(w.value, ast.Name) and enclosing_class(c) is not None and w.attr in methods(enclosing_class(c)):
                wbodies = [methods(enclosing_class(c))[w.attr]]
            if not wbodies:
                continue
            sel = lambda e: sorted({call_name(x) for x in ast.walk(e) if isinstance(x, ast.Call) and (call_name(x) or "").startswith("get_") and "strategy" in (call_name(x) or "")}
                                   | {x.attr for x in ast.walk(e) if isinstance(x, ast.Attribute) and x.attr in ("slowest_execution_strategy", "fastest_execution_strategy")})  # noqa: E731
            s_sum, s_w = sel(comp.elt), sorted({x for b in wbodies for x in sel(b)})
            if not s_sum or not s_w:
                continue
            n2 += 1
            ctx.check(set(s_w) <= set(s_sum), "C17.R6", f"{qualname(c)}|path chosen and summed by the same strategy runtime", loc(c), f"{s_w}",
                      f"the longest path is chosen by {s_w} but its length is summed with {s_sum}: the reported critical-path runtime is the weight "
                      "of some source-to-sink path, not the maximum")
    ctx.floor("C17.R6", "critical-path sums over get_longest_path", n2, 2)


def r6b_critical_path_is_runtime(ctx: Context) -> None:
    ctx.rule("C17.R6b", "JobGraph.critical_path_runtime is the weight of the heaviest path in runtimes: nothing it sums (directly or through a "
                        "helper of the class) substitutes a job's SLO for its runtime - that is the completion time, a different quantity")
    jg = ctx.repo.mod("workload/jobs.py").cls("JobGraph")
    cp = methods(jg).get("critical_path_runtime")
    if cp is None:
        raise AnalysisError("JobGraph.critical_path_runtime not found")
    fns = closure_functions(cp)
    sums = [c for f in fns for c in calls_in(f, "sum")]
    ctx.floor("C17.R6b", "sum over the longest path reached from JobGraph.critical_path_runtime", len(sums), 1)
    slo = [norm(x)[:50] for f in fns for x in ast.walk(f) if isinstance(x, ast.Attribute) and x.attr in ("slo", "_slo")]
    ctx.check(not slo, "C17.R6b", "JobGraph.critical_path_runtime|sums runtimes, not SLOs", loc(cp), "no SLO read",
              f"the critical-path runtime is computed through code that reads {sorted(set(slo))}: for a job with an SLO the reported critical path "
              "is not the weight of any path of the graph in runtimes")


def r9_remove_detaches_children(ctx: Context) -> None:
    ctx.rule("C17.R9", "Graph.remove takes the node out of the parent list of each of its CHILDREN (the entries add_child made) and drops its child list")
    fn = method(_graph_cls(ctx), "remove")
    ctx.analysed_function(f"{GRAPH}::Graph.remove")
    node = fn.args.args[1].arg
    edits = [c for c in calls_in(fn, "remove") if isinstance(c.func.value, ast.Subscript) and is_self_attr(c.func.value.value, "_parent_graph")]
    ctx.floor("C17.R9", "parent-list removals in Graph.remove", len(edits), 1)
    for c in edits:
        it = iteration_around(c)
        over = norm(it.iter) if it is not None else "?"
        ok = it is not None and norm(c.func.value.slice) == norm(it.target) and over in (f"self.get_children({node})", f"self._graph[{node}]") \
            and c.args and norm(c.args[0]) == node
        ctx.check(ok, "C17.R9", "Graph.remove|detaches the node from the parent lists of its children", loc(c), f"for child in {over}",
                  f"`{norm(c)}` runs for `{norm(it.target) if it is not None else '?'}` in `{over}`: the reverse adjacency that add_child wrote for the node's "
                  "children keeps naming the removed node as a parent (get_parents / is_source / the traversals read it)")
    dels = [d for d in ast.walk(fn) if isinstance(d, ast.Delete) and any(isinstance(t, ast.Subscript) and is_self_attr(t.value, "_graph") and norm(t.slice) == node for t in d.targets)]
    pops = [c for c in calls_in(fn, "pop") if is_self_attr(c.func.value, "_graph") and c.args and norm(c.args[0]) == node]
    ctx.check(bool(dels or pops), "C17.R9", "Graph.remove|drops the node's child list", loc(fn), "del self._graph[node]", "the node stays in the child map")


MAPS = ("_graph", "_parent_graph")
MUTATING_CALLS = ("append", "extend", "remove", "pop", "clear", "update", "insert", "setdefault", "popitem")


def r7_adjacency_maps_in_step(ctx: Context) -> None:
    ctx.rule("C17.R7", "the child map and the parent map are changed only by Graph's own methods, and a method that resets one "
                       "of them (clear / re-assignment) resets the other too: parents(n) stays the inverse of children(n)")
    n_mut = 0
    for m in ctx.repo.program_modules():
        for node in ast.walk(m.tree):
            which = kind = None
            if isinstance(node, ast.Call) and isinstance(node.func, ast.Attribute) and node.func.attr in MUTATING_CALLS:
                base = node.func.value
                if isinstance(base, ast.Subscript):
                    base = base.value
                if isinstance(base, ast.Attribute) and base.attr in MAPS:
                    which, kind = base.attr, ("reset" if node.func.attr == "clear" and not isinstance(node.func.value, ast.Subscript) else "edit")
            elif isinstance(node, (ast.Assign, ast.AugAssign, ast.Delete)):
                ts = node.targets if isinstance(node, (ast.Assign, ast.Delete)) else [node.target]
                for t in ts:
                    if isinstance(t, ast.Attribute) and t.attr in MAPS:
                        which, kind = t.attr, "reset"
                    elif isinstance(t, ast.Subscript) and isinstance(t.value, ast.Attribute) and t.value.attr in MAPS:
                        which, kind = t.value.attr, "edit"
            if which is None:
                continue
            n_mut += 1
            fn = enclosing_function(node)
            cls = parent(fn) if fn is not None else None
            while cls is not None and not isinstance(cls, ast.ClassDef):
                cls = parent(cls)
            in_graph = m.rel == GRAPH and cls is not None and cls.name == "Graph"
            ctx.check(in_graph, "C17.R7", f"{qualname(node)}|`{norm(node)[:50]}` inside Graph", loc(node), "Graph method",
                      f"`{norm(node)[:70]}` changes `{which}` outside class Graph: only Graph's own mutators keep the parent map the "
                      "inverse of the child map (get_parents/get_sources/depth/dependency queries read the parent map)")
            if in_graph and kind == "reset":
                other = MAPS[1 - MAPS.index(which)]
                twin = False
                for x in ast.walk(fn):
                    if isinstance(x, ast.Assign) and any(isinstance(t, ast.Attribute) and t.attr == other for t in x.targets):
                        twin = True
                    if isinstance(x, ast.Call) and isinstance(x.func, ast.Attribute) and x.func.attr == "clear" \
                            and isinstance(x.func.value, ast.Attribute) and x.func.value.attr == other:
                        twin = True
                ctx.check(twin, "C17.R7", f"{qualname(node)}|reset of `{which}` paired with `{other}`", loc(node), "both maps reset",
                          f"`{norm(node)[:60]}` resets `{which}` but `{other}` keeps its old entries")
    ctx.floor("C17.R7", "mutations of the adjacency maps", n_mut, 6)


def cache_coherence(ctx: Context, rule: str, classes, why: str, min_classes: int = 1) -> None:
    """Shared rule: memoised values are dropped by every method that changes what they were computed from (sa/cachecoh.py)."""
    from .. import cachecoh
    ctx.rule(rule, f"cache coherence over {', '.join(classes)}: every memoised value (cached_property / lru_cache / lazy memo field / "
                   f"memo table) is reset, on every path, by each method of the class family that writes a field the value was "
                   f"computed from ({why})")
    facts, bad = cachecoh.incoherent(ctx.repo, list(classes))
    ctx.floor(rule, "classes analysed for cache coherence", len(facts), min_classes)
    n_caches = 0
    for rel, cls, caches in facts:
        for c in caches:
            n_caches += 1
            culprits = [(k, fn, hit) for (_r, c2, k, fn, hit) in bad if c2 is c]
            ctx.check(not culprits, rule, f"{rel}::{cls.name}.{c.name}|cached value dropped by every mutator of {sorted(c.deps)[:4]}", f"{rel}:{c.fn.lineno}",
                      f"{c.kind} cache, coherent",
                      f"{cls.name}.{c.name} is memoised ({c.kind}) from {sorted(c.deps)[:5]} but "
                      f"{', '.join(sorted(set(f'{k.name}.{fn.name}' for k, fn, _h in culprits)))[:200]} change(s) those fields without dropping it: "
                      "after a query, a later change of the object is not reflected in the answer")
    ctx.count("caches_examined", n_caches)


def run(ctx: Context) -> None:
    ctx.isolate(r1_worklist)
    ctx.isolate(r2_topological_sort)
    ctx.isolate(r3_longest_path)
    ctx.isolate(r4_depth_and_dependency)
    ctx.isolate(r5_breadth_first)
    ctx.isolate(r5b_bfs_dependency_on_start)
    ctx.isolate(r6_weights_in_one_unit)
    ctx.isolate(r6b_critical_path_is_runtime)
    ctx.isolate(r7_adjacency_maps_in_step)
    ctx.isolate(r9_remove_detaches_children)
    ctx.isolate(cache_coherence, "C17.R8", ("Graph", "TaskGraph", "JobGraph"), "orders, depths, paths and critical-path runtimes are answers about the current graph", 3)
