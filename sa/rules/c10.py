"""C10 — Every policy returns a complete, feasible, side-effect-free decision (structural clauses)."""
from __future__ import annotations

import ast
import os
from typing import Dict, List, Optional, Set, Tuple

from .. import cfg as cfgmod
from .. import lin
from ..anchors import TASKS
from ..core import (
    AnalysisError,
    Module,
    Repo,
    call_name,
    calls_in,
    dotted,
    enclosing_class,
    enclosing_function,
    is_self_attr,
    loc,
    method,
    methods,
    norm,
    parent,
    qualname,
    src,
)
from ..report import Context, VERIF_DIR
from ..typestate import state_writers

EXPLANATION = (
    "Static effect / dominance / shape analysis of the eight bundled policies (EDF, FIFO, LSF, ILP, TetriSched-Gurobi, "
    "TetriSched-CPLEX, Z3, Clockwork): inter-procedural taint of the live cluster versus copy()/deepcopy() scratch "
    "copies shows that no cluster mutator is called on a live receiver, no Task mutator is called and no attribute of a "
    "task or live cluster object is stored inside a policy (expected count zero, with a positive fixture that must be "
    "flagged on every run); one decision per offered task (greedy: path counting; model-based: collected per task / per "
    "variable, and the infeasible branch answers every offered task); placed decisions take the pool id from the "
    "cluster being planned on, the strategy from the task's own strategy list and a time that is now or a model start "
    "value; model time lower bounds (ILP lb = max(now+1, release); space-time cells before release are 0 and the range "
    "starts now; Z3 asserts start >= release and start >= now); every model-based policy builds its capacity "
    "constraints before solving, as sum(request * variable) <= the worker's own quantity, over an occupancy window at "
    "least start <= t < start + runtime, with compatibility computed on an emptied worker; ILP indicator pairs are "
    "complementary. NOT decided: joint feasibility of the numeric solution over time; solver status handling on real models."
)
ASSUMPTIONS = [
    "receivers are classified by the taint of the expression they are derived from; helper methods are analysed with "
    "the taint of their actual arguments (depth 4)",
    "Task objects are recognised by name (`task`, `*.task`, loop variables over task lists)",
]

POLICIES = [
    ("schedulers/edf_scheduler.py", "EDFScheduler"), ("schedulers/fifo_scheduler.py", "FIFOScheduler"),
    ("schedulers/lsf_scheduler.py", "LSFScheduler"), ("schedulers/ilp_scheduler.py", "ILPScheduler"),
    ("schedulers/tetrisched_gurobi_scheduler.py", "TetriSchedGurobiScheduler"),
    ("schedulers/tetrisched_cplex_scheduler.py", "TetriSchedCPLEXScheduler"),
    ("schedulers/z3_scheduler.py", "Z3Scheduler"), ("schedulers/clockwork_scheduler.py", "ClockworkScheduler"),
]
MODEL_BASED = POLICIES[3:7]

CLUSTER_MUTATORS = {"place_task", "remove_task", "load_profile", "evict_profile", "step", "add_workers", "allocate", "allocate_multiple",
                    "deallocate", "add_resource"}
LIVE, SCRATCH = "LIVE", "SCRATCH"
DERIVE_ATTRS = {"worker_pools", "workers", "resources", "values", "items", "keys", "get_worker_pool", "_workers", "_worker_pools"}


def task_mutators(repo: Repo) -> Set[str]:
    task = repo.mod(TASKS).cls("Task")
    out = set(state_writers(task, ["_state", "_pre_scheduling_state"])) - {"__init__"}
    out |= {"update_remaining_time", "update_deadline", "update_probability"}
    return out


class Effects:
    """Inter-procedural taint of cluster objects inside one policy class."""

    def __init__(self, ctx: Context, mod: Module, cls: ast.ClassDef, tmut: Set[str]):
        self.ctx, self.mod, self.cls, self.tmut = ctx, mod, cls, tmut
        self.methods = methods(cls)
        self.module_funcs = {n.name: n for n in ast.walk(mod.tree) if isinstance(n, ast.FunctionDef)}
        self.module_classes = {c.name: c for c in mod.classes()}
        self.seen: Set[Tuple[str, Tuple]] = set()
        self.findings: List[Tuple[ast.AST, str]] = []
        self.n_calls = 0
        self.n_funcs = 0

    def taint_of(self, e: ast.AST, env: Dict[str, str]) -> Optional[str]:
        if isinstance(e, ast.Name):
            return env.get(e.id)
        if isinstance(e, ast.Call):
            nm = call_name(e)
            if nm in ("copy", "deepcopy") and e.args:
                inner = self.taint_of(e.args[0], env)
                return SCRATCH if inner is not None else None
            if isinstance(e.func, ast.Attribute) and e.func.attr in DERIVE_ATTRS:
                return self.taint_of(e.func.value, env)
            if nm in ("list", "sorted", "reversed", "enumerate", "iter", "next", "tuple") and e.args:
                return self.taint_of(e.args[0], env)
            return None
        if isinstance(e, ast.Attribute):
            if e.attr in DERIVE_ATTRS or e.attr.startswith("_") or e.attr in ("worker",):
                return self.taint_of(e.value, env)
            return None
        if isinstance(e, ast.Subscript):
            return self.taint_of(e.value, env)
        if isinstance(e, (ast.ListComp, ast.GeneratorExp)):
            env2 = dict(env)
            for g in e.generators:
                t = self.taint_of(g.iter, env2)
                if t:
                    for n in ast.walk(g.target):
                        if isinstance(n, ast.Name):
                            env2[n.id] = t
            return self.taint_of(e.elt, env2)
        return None

    def analyse(self, fn: ast.FunctionDef, env: Dict[str, str], depth: int = 0, owner: Optional[ast.ClassDef] = None) -> None:
        key = (f"{owner.name if owner else ''}.{fn.name}", tuple(sorted(env.items())))
        if key in self.seen or depth > 4:
            return
        self.seen.add(key)
        self.n_funcs += 1
        self.ctx.analysed_function(f"{self.mod.rel}::{owner.name + '.' if owner else ''}{fn.name}")
        env = dict(env)
        # two passes so that loop-carried definitions propagate
        for _ in range(2):
            for n in ast.walk(fn):
                if isinstance(n, ast.Assign):
                    t = self.taint_of(n.value, env)
                    for tg in n.targets:
                        if isinstance(tg, ast.Name):
                            if t:
                                env[tg.id] = t
                        elif isinstance(tg, ast.Subscript) and isinstance(tg.value, ast.Name) and t:
                            env[tg.value.id] = t  # container of tainted objects
                        elif isinstance(tg, (ast.Tuple, ast.List)) and t:
                            for x in tg.elts:
                                if isinstance(x, ast.Name):
                                    env[x.id] = t
                elif isinstance(n, (ast.For, ast.comprehension)):
                    t = self.taint_of(n.iter, env)
                    if t:
                        for x in ast.walk(n.target):
                            if isinstance(x, ast.Name):
                                env[x.id] = t
                elif isinstance(n, ast.AnnAssign) and n.value is not None and isinstance(n.target, ast.Name):
                    t = self.taint_of(n.value, env)
                    if t:
                        env[n.target.id] = t
        for n in ast.walk(fn):
            if isinstance(n, ast.Call):
                self.n_calls += 1
                self._call(n, self._scoped_env(n, env, fn), depth, owner)
            elif isinstance(n, (ast.Assign, ast.AugAssign)):
                ts = n.targets if isinstance(n, ast.Assign) else [n.target]
                for t in ts:
                    if isinstance(t, ast.Attribute) and not is_self_attr(t):
                        base = t.value
                        bt = self.taint_of(base, self._scoped_env(n, env, fn))
                        if bt == LIVE:
                            self.findings.append((n, f"`{norm(n)[:70]}` stores an attribute of a live cluster object"))
                        elif _looks_like_task(base):
                            self.findings.append((n, f"`{norm(n)[:70]}` stores an attribute of a task"))

    def _scoped_env(self, node: ast.AST, env: Dict[str, str], fn: ast.FunctionDef) -> Dict[str, str]:
        """Inside a loop body the loop variable has the taint of THAT loop's iterable (a name may be bound by several loops:
        once over the scratch copy for logging, once over the live pools)."""
        out = None
        chain = []
        p = parent(node)
        child = node
        while p is not None and p is not fn:
            if isinstance(p, ast.For) and any(child is x for x in p.body + p.orelse):
                chain.append(p)
            child, p = p, parent(p)
        for lp in reversed(chain):  # outermost first, innermost wins
            base = out if out is not None else env
            t = self.taint_of(lp.iter, base)
            names = [x.id for x in ast.walk(lp.target) if isinstance(x, ast.Name)]
            if names:
                if out is None:
                    out = dict(env)
                for nm in names:
                    if t:
                        out[nm] = t
                    else:
                        out.pop(nm, None)
        return out if out is not None else env

    def _call(self, c: ast.Call, env: Dict[str, str], depth: int, owner: Optional[ast.ClassDef]) -> None:
        f = c.func
        if isinstance(f, ast.Attribute):
            recv_t = self.taint_of(f.value, env)
            if f.attr in CLUSTER_MUTATORS and recv_t == LIVE:
                self.findings.append((c, f"`{norm(c)[:70]}` mutates the live cluster (receiver derives from the worker_pools argument, not from a copy)"))
            if f.attr in self.tmut and _looks_like_task(f.value) and f.attr != "step":
                self.findings.append((c, f"`{norm(c)[:70]}` changes a task's state/fields from inside a policy"))
            if f.attr == "cancel" and len(c.args) + len(c.keywords) == 2 and not is_self_attr(f.value, None):
                if "graph" in norm(f.value).lower():
                    self.findings.append((c, f"`{norm(c)[:70]}` cancels tasks of the workload from inside a policy"))
            # follow helper methods of the same class / other classes of the same module
            callee = None
            cowner = owner
            if isinstance(f.value, ast.Name) and f.value.id == "self" and owner is not None and f.attr in methods(owner):
                callee = methods(owner)[f.attr]
            elif isinstance(f.value, ast.Name) and f.value.id == "self" and f.attr in self.methods:
                callee, cowner = self.methods[f.attr], self.cls
            if callee is not None:
                self._follow(callee, c, env, depth, cowner, skip_self=True)
        elif isinstance(f, ast.Name):
            if f.id in self.module_classes:
                init = methods(self.module_classes[f.id]).get("__init__")
                if init is not None:
                    self._follow(init, c, env, depth, self.module_classes[f.id], skip_self=True)
            elif f.id in self.module_funcs and enclosing_class(self.module_funcs[f.id]) is None:
                self._follow(self.module_funcs[f.id], c, env, depth, None, skip_self=False)

    def _follow(self, callee: ast.FunctionDef, c: ast.Call, env, depth, owner, skip_self: bool) -> None:
        params = [a.arg for a in callee.args.args]
        if skip_self and params and params[0] in ("self", "cls"):
            params = params[1:]
        new_env: Dict[str, str] = {}
        for i, a in enumerate(c.args):
            if i < len(params):
                t = self.taint_of(a, env)
                if t:
                    new_env[params[i]] = t
        for k in c.keywords:
            if k.arg:
                t = self.taint_of(k.value, env)
                if t:
                    new_env[k.arg] = t
        # instance fields set from tainted constructor args are not tracked: the policies pass cluster objects as arguments
        self.analyse(callee, new_env, depth + 1, owner)


def _looks_like_task(e: ast.AST) -> bool:
    t = norm(e)
    last = t.split(".")[-1].split("[")[0]
    # `batch_task` objects are scheduler-local virtual tasks (BatchTask), not tasks of the workload
    return last in ("task", "parent_task", "child_task", "reward_task", "earliest_deadline_task", "placed_task", "running_task") or t.endswith(".task")


def _analyse_policy(ctx: Context, rel: str, cname: str, tmut: Set[str], repo: Optional[Repo] = None) -> Effects:
    repo = repo or ctx.repo
    mod = repo.mod(rel)
    cls = mod.cls(cname)
    eff = Effects(ctx, mod, cls, tmut)
    sch = method(cls, "schedule")
    params = [a.arg for a in sch.args.args]
    if "worker_pools" not in params:
        raise AnalysisError(f"{cname}.schedule has no worker_pools parameter")
    eff.analyse(sch, {"worker_pools": LIVE}, 0, cls)
    return eff


def r1_side_effect_free(ctx: Context, rule: str = "C10.R1") -> None:
    ctx.rule(rule, "no cluster mutator on a live receiver, no Task mutator, no attribute store on a task / live cluster object inside a policy")
    tmut = task_mutators(ctx.repo)
    total_calls = 0
    for rel, cname in POLICIES:
        eff = _analyse_policy(ctx, rel, cname, tmut)
        total_calls += eff.n_calls
        if eff.findings:
            for node, msg in eff.findings:
                ctx.violation(rule, f"{qualname(node)}|`{norm(node)[:60]}`", loc(node), f"{cname}: {msg}")
        else:
            ctx.ok(rule, f"{rel}::{cname}|side-effect free", f"{rel}:{eff.cls.lineno}",
                   f"{eff.n_funcs} function(s), {eff.n_calls} call(s) examined; no mutation of the live cluster or of tasks")
        # the cluster the policy plans on is a copy (or it never places virtually)
        sch = method(eff.cls, "schedule")
        copies = [c for c in calls_in(sch) if call_name(c) in ("copy", "deepcopy") and c.args and norm(c.args[0]) == "worker_pools"]
        virtual = [c for c in ast.walk(eff.mod.tree) if isinstance(c, ast.Call) and isinstance(c.func, ast.Attribute) and c.func.attr in ("place_task", "load_profile", "evict_profile")
                   and enclosing_class(c) is not None]
        if virtual:
            ctx.check(bool(copies), rule, f"{rel}::{cname}|plans on copy()/deepcopy() of the worker pools", loc(sch), f"{len(copies)} copy site(s)",
                      f"{cname} places virtually but never copies the worker pools")
    ctx.count("policy_calls_examined", total_calls)
    ctx.floor(rule, "calls examined in policies", total_calls, 400)
    # positive fixture: the rule must fire on a policy that mutates the live cluster / a task
    fx_dir = os.path.join(VERIF_DIR, "sa", "fixtures")
    fx = os.path.join(fx_dir, "bad_policy.py")
    with open(fx) as fh:
        src_text = fh.read()
    frepo = Repo(ctx.repo.root, overrides={"schedulers/_verif_fixture_bad_policy.py": src_text})
    fctx = Context("C10", "quick", 0, frepo)
    eff = _analyse_policy(fctx, "schedulers/_verif_fixture_bad_policy.py", "BadPolicy", tmut, repo=frepo)
    kinds = " ".join(m for _n, m in eff.findings)
    ok = "mutates the live cluster" in kinds and "changes a task's state" in kinds and "stores an attribute of a task" in kinds and len(eff.findings) >= 4
    if not ok:
        raise AnalysisError(f"{rule}: the positive fixture was not fully flagged ({[m for _n, m in eff.findings]}); the effect analysis went blind")
    ctx.ok(rule, "fixture|bad policy flagged", "sa/fixtures/bad_policy.py", f"{len(eff.findings)} findings on the fixture (live place_task, helper via argument, task mutation, attribute store)")


# ---------------------------------------------------------------------------
# R2 one decision per offered task
# ---------------------------------------------------------------------------

def _result_list(fn: ast.FunctionDef) -> str:
    for r in ast.walk(fn):
        if isinstance(r, ast.Return) and isinstance(r.value, ast.Call) and call_name(r.value) == "Placements":
            v = next((k.value for k in r.value.keywords if k.arg == "placements"), None)
            if v is not None:
                return norm(v)
    raise AnalysisError(f"{fn.name}: returned Placements(placements=...) not found")


def r2_one_decision(ctx: Context, rule: str = "C10.R2") -> None:
    ctx.rule(rule, "one decision per offered task: greedy policies by path counting; model-based policies collect per task / per "
                   "variable, and the infeasible branch answers every offered task")
    from . import c13
    c13.r2_r3_greedy_loop(ctx, rule2=rule + "g", rule3=rule)
    for rel, cname in MODEL_BASED:
        mod = ctx.repo.mod(rel)
        cls = mod.cls(cname)
        sch = method(cls, "schedule")
        res = _result_list(sch)
        g = cfgmod.build(sch)
        apps = [c for c in calls_in(sch, "append") if norm(c.func.value) == res]
        ctx.floor(rule, f"appends to the result in {cname}", len(apps), 1)
        q = f"{rel}::{cname}.schedule"
        fallback = []
        for a in apps:
            lp0 = parent(a)
            while lp0 is not None and not isinstance(lp0, ast.For):
                lp0 = parent(lp0)
            if lp0 is not None and norm(lp0.iter) in ("tasks_to_be_scheduled", "tasks_to_variables.values()") and isinstance(a.args[0], ast.Call) \
                    and call_name(a.args[0]) == "create_task_placement" and not any(k.arg == "worker_pool_id" and not isinstance(k.value, ast.Constant) for k in a.args[0].keywords):
                fallback.append(a)
        # the same written as `result.extend(<unplaced decision> for <task> in <offered tasks>)`
        for c in [c for c in calls_in(sch, "extend") if norm(c.func.value) == res and c.args
                  and isinstance(c.args[0], (ast.ListComp, ast.GeneratorExp))]:
            comp = c.args[0]
            if len(comp.generators) == 1 and not comp.generators[0].ifs and norm(comp.generators[0].iter) in ("tasks_to_be_scheduled", "tasks_to_variables.values()") \
                    and isinstance(comp.elt, ast.Call) and call_name(comp.elt) == "create_task_placement" \
                    and not any(k.arg == "worker_pool_id" and not isinstance(k.value, ast.Constant) for k in comp.elt.keywords):
                fallback.append(c)
        ctx.check(bool(fallback), rule, f"{q}|no-solution branch answers every offered task", loc(sch), f"{len(fallback)} fallback site(s)",
                  f"when the solver finds no solution {cname} returns no decision for the offered tasks")
        for a in apps:
            lp = parent(a)
            while lp is not None and not isinstance(lp, ast.For):
                lp = parent(lp)
            if lp is None:
                ctx.violation(rule, f"{q}|append at line {a.lineno} outside a per-task loop", loc(a), "a decision is appended outside any per-task loop")
                continue
            it = norm(lp.iter)
            arg = a.args[0]
            key = f"{q}|decisions appended in `for {norm(lp.target)} in {it[:40]}`"
            if it in ("tasks_to_be_scheduled",):
                # infeasible branch / admission
                okc = isinstance(arg, ast.Call) and call_name(arg) in ("create_task_placement", "create_task_cancellation") \
                    and any((k.arg == "task" and norm(k.value) == norm(lp.target)) for k in arg.keywords) or (
                        isinstance(arg, ast.Call) and arg.args and norm(arg.args[0]) == norm(lp.target))
                ctx.check(bool(okc), rule, key + " (unplaced for every offered task)", loc(a), "one unplaced decision per offered task",
                          "the fallback branch does not answer exactly the offered tasks")
            elif it.endswith(".items()") and "placement_map" in it:
                # dict keyed by task: at most one per task
                sets = [s for s in ast.walk(sch) if isinstance(s, ast.Assign) and isinstance(s.targets[0], ast.Subscript)
                        and norm(s.targets[0].value) == it[:-8]]
                okk = bool(sets) and all(norm(s.targets[0].slice).endswith(".task") for s in sets)
                n_app = len([x for x in apps if _in_loop(x, lp)])
                # exactly one append per iteration (if/else both append, or a single unconditional append)
                per_iter = _appends_per_iteration(lp, res)
                ctx.check(okk and per_iter == {1}, rule, key + " (map keyed by task)", loc(a), "one decision per task key",
                          f"decisions are not collected one per task (map keyed by {[norm(s.targets[0].slice) for s in sets]}, appends per iteration {sorted(per_iter)})")
            elif "tasks_to_variables" in it or "placements_for_task" in it or "task_placements" in it:
                per_iter = _appends_per_iteration(lp, res)
                ctx.check(per_iter <= {0, 1} and 1 in per_iter, rule, key, loc(a), f"appends per iteration {sorted(per_iter)}",
                          f"an iteration over the model variables can append {sorted(per_iter)} decisions")
            elif it == "tasks_to_remove":
                ctx.ok(rule, key + " (cancellations)", loc(a), "one cancellation per removed task")
            else:
                ctx.note(f"{loc(a)}: decisions appended in a loop over `{it[:50]}` (not classified)")
        # every offered task is covered on the solved branch: variables are created for every offered task
        av = [c for c in calls_in(sch) if call_name(c) == "_add_variables"]
        ctx.floor(rule, f"_add_variables call in {cname}", len(av), 1)
        args = " ".join(norm(a) for a in av[0].args) + " " + " ".join(norm(k.value) for k in av[0].keywords)
        ctx.check("tasks_to_be_scheduled" in args, rule, f"{q}|variables created for every offered task", loc(av[0]), "ok",
                  "model variables are not created from the offered tasks")
    # per-variable extraction returns exactly one decision per task it stands for
    for rel, tov in (("schedulers/ilp_scheduler.py", "TaskOptimizerVariables"), ("schedulers/tetrisched_gurobi_scheduler.py", "TaskOptimizerVariables"),
                     ("schedulers/tetrisched_cplex_scheduler.py", "TaskOptimizerVariables")):
        cls = ctx.repo.mod(rel).cls(tov)
        gp = method(cls, "get_placements")
        ctx.analysed_function(f"{rel}::{tov}.get_placements")
        for r in [x for x in ast.walk(gp) if isinstance(x, ast.Return)]:
            v = r.value
            kind = "?"
            if isinstance(v, ast.List):
                kind = f"list[{len(v.elts)}]"
                ok = len(v.elts) <= 1
                if len(v.elts) == 0:
                    # only when previously placed / no solution
                    ifn = parent(r)
                    ok = isinstance(ifn, ast.If) and "previously_placed" in norm(ifn.test)
            elif isinstance(v, ast.ListComp):
                kind = "per batch member"
                ok = "tasks" in norm(v.generators[0].iter) and len(v.generators) == 1 and not v.generators[0].ifs
            else:
                ok = False
            ctx.check(ok, rule, f"{rel}::{tov}.get_placements|return at line {r.lineno} ({kind})", loc(r), "one decision per represented task",
                      f"get_placements returns `{norm(v)[:60]}`")


def _in_loop(n: ast.AST, lp: ast.For) -> bool:
    return any(x is n for x in ast.walk(lp))


def _appends_per_iteration(lp: ast.For, res: str) -> Set[int]:
    body = ast.FunctionDef(name="__it__", args=ast.arguments(posonlyargs=[], args=[], kwonlyargs=[], kw_defaults=[], defaults=[]),
                           body=lp.body, decorator_list=[], lineno=lp.lineno, col_offset=0)
    g = cfgmod.build(body)
    out: Set[int] = set()
    for path in g.paths(loop_bound=1):
        if path[-1][0].kind != "ret":
            continue
        n = 0
        for (node, _l) in path:
            if node.ast is None or node.kind in ("for", "test"):
                continue
            for c in ast.walk(node.ast):
                if isinstance(c, ast.Call) and call_name(c) == "append" and norm(c.func.value) == res:
                    n += 1
        out.add(n)
    return out


# ---------------------------------------------------------------------------
# R3 well-formed placements / R4 time lower bounds
# ---------------------------------------------------------------------------

def r11_variable_table_keys(ctx: Context, rule: str = "C10.R11") -> None:
    ctx.rule(rule, "the planners' task -> variables tables are keyed by something unique to the task (unique_name / id / the task itself): "
                   "keyed by the bare job name, tasks of different graphs that share a name overwrite each other and one of them gets no "
                   "constraints and no decision")
    n = 0
    for rel, cname in MODEL_BASED:
        cls = ctx.repo.mod(rel).cls(cname)
        for fn in methods(cls).values():
            for a in ast.walk(fn):
                if isinstance(a, ast.Assign) and len(a.targets) == 1 and isinstance(a.targets[0], ast.Subscript) \
                        and norm(a.targets[0].value) in ("tasks_to_variables", "self._tasks_to_variables") and isinstance(a.value, ast.Call):
                    k = a.targets[0].slice
                    n += 1
                    ok = not (isinstance(k, ast.Attribute) and k.attr in ("name", "task_graph", "timestamp", "profile"))
                    ctx.check(ok, rule, f"{rel}::{cname}.{fn.name}|variables keyed by `{norm(k)[:40]}`", loc(a), "unique key",
                              f"the variable table is keyed by `{norm(k)}`, which tasks of different task graphs share: the later task replaces the "
                              "earlier one, which is then neither constrained nor answered")
    ctx.floor(rule, "stores into a task -> variables table", n, 3)


def r3_well_formed(ctx: Context, rule: str = "C10.R3") -> None:
    ctx.rule(rule, "placed decisions: pool id from the cluster planned on, strategy from the task's own list and supplied, time = now or a model start value")
    from . import c05
    c05.r5_strategy_supplied(ctx, rule=rule)
    for rel, cname in MODEL_BASED:
        mod = ctx.repo.mod(rel)
        sch = method(mod.cls(cname), "schedule")
        # worker -> pool map built from the pools iterated
        sets = [a for a in ast.walk(sch) if isinstance(a, ast.Assign) and isinstance(a.targets[0], ast.Subscript)
                and norm(a.targets[0].value) == "worker_to_worker_pool"]
        ok = bool(sets) and all(norm(a.targets[0].slice) == "worker.id" and norm(a.value) == "worker_pool.id" for a in sets)
        ok = ok and all(_loop_chain(a) for a in sets)
        ctx.check(ok, rule, f"{rel}::{cname}.schedule|worker -> pool map from the planned cluster", loc(sets[0]) if sets else loc(sch),
                  "worker_to_worker_pool[worker.id] = worker_pool.id", "the pool named in a placement is not the pool that owns the chosen worker")
    for rel in ("schedulers/ilp_scheduler.py", "schedulers/tetrisched_gurobi_scheduler.py", "schedulers/tetrisched_cplex_scheduler.py"):
        cls = ctx.repo.mod(rel).cls("TaskOptimizerVariables")
        gp = method(cls, "get_placements")
        placed = [c for c in calls_in(gp, "create_task_placement")
                  if not (isinstance(next((k.value for k in c.keywords if k.arg == "worker_pool_id"), None), ast.Constant))]
        ctx.floor(rule, f"placed create_task_placement in {rel}", len(placed), 1)
        init = method(cls, "__init__")
        for c in placed:
            kw = {k.arg: k.value for k in c.keywords}
            key = f"{rel}::TaskOptimizerVariables.get_placements|placed decision at line {c.lineno}"
            wp = norm(kw.get("worker_pool_id"))
            wid = norm(kw.get("worker_id"))
            st = norm(kw.get("execution_strategy"))
            pt = norm(kw.get("placement_time"))
            ok_pool = "worker_pool" in wp and wid.endswith("worker_id") or wid.endswith("worker.id")
            pdefs = [a for a in ast.walk(gp) if isinstance(a, ast.Assign) and norm(a.targets[0]) == wp]
            ok_pool = ok_pool and bool(pdefs) and any("worker_id_to_worker_pool[" in norm(a.value) for a in pdefs)
            ctx.check(ok_pool, rule, key + " pool/worker", loc(c), f"{wp} / {wid}", f"pool `{wp}` / worker `{wid}` not taken from the chosen worker")
            # strategy: loop variable over the task's strategies or over the matrix keys (built from them)
            ok_s = False
            for lp in [l for l in ast.walk(gp) if isinstance(l, ast.For)]:
                names = {n.id for n in ast.walk(lp.target) if isinstance(n, ast.Name)}
                src_it = norm(lp.iter)
                if ("available_execution_strategies" in src_it or "_space_time_strategy_matrix" in src_it):
                    sdefs = [a for a in ast.walk(gp) if isinstance(a, ast.Assign) and norm(a.targets[0]) == st]
                    if st in names or any(norm(a.value) in names for a in sdefs):
                        ok_s = True
            if "_space_time_strategy_matrix" in norm(gp):
                mk = [a for a in ast.walk(init) if isinstance(a, ast.Assign) and isinstance(a.value, ast.DictComp) and is_self_attr(a.targets[0], "_space_time_strategy_matrix")]
                ok_s = ok_s and bool(mk) and any("available_execution_strategies" in norm(g.iter) for g in mk[0].value.generators)
            ctx.check(ok_s, rule, key + " strategy", loc(c), f"`{st}` ranges over the task's own strategies", f"strategy `{st}` is not drawn from the task's own strategy list")
            if isinstance(kw.get("placement_time"), ast.Name):
                # a local filled in by the search loop (initialised to None for the case that nothing was chosen): its bindings
                tdefs = [a.value for a in ast.walk(gp) if isinstance(a, ast.Assign) and any(norm(t) == pt for t in a.targets)
                         and not (isinstance(a.value, ast.Constant) and a.value.value is None)]
                if tdefs:
                    pt = " | ".join(norm(v) for v in tdefs)
                    ok_t = all("start_time" in norm(v) for v in tdefs)
                else:
                    ok_t = "start_time" in pt
            else:
                ok_t = "start_time" in pt
            ctx.check(ok_t, rule, key + " time", loc(c), pt[:60], f"placement time `{pt[:60]}` is not a model start value")
    # Z3: pool from the worker map, time from the start variable
    z = ctx.repo.mod("schedulers/z3_scheduler.py")
    sch = method(z.cls("Z3Scheduler"), "schedule")
    placed = [c for c in calls_in(sch, "create_task_placement") if any(k.arg == "worker_pool_id" for k in c.keywords)]
    ctx.floor(rule, "placed decision in Z3", len(placed), 1)
    kw = {k.arg: norm(k.value) for k in placed[0].keywords}
    ok = kw.get("worker_pool_id") == "worker_pool_id" and "start_time" in kw.get("placement_time", "") and kw.get("worker_id") == "worker.id"
    ctx.check(ok, rule, "schedulers/z3_scheduler.py::Z3Scheduler.schedule|placed decision from the model values", loc(placed[0]), str(kw)[:80], f"Z3 placement built with {kw}")


def _loop_chain(a: ast.AST) -> bool:
    """`a` sits in `for worker_pool in X.worker_pools: for worker in worker_pool.workers:`"""
    p = parent(a)
    inner = outer = None
    while p is not None:
        if isinstance(p, ast.For):
            if inner is None:
                inner = p
            elif outer is None:
                outer = p
        p = parent(p)
    return inner is not None and outer is not None and norm(inner.iter) == f"{norm(outer.target)}.workers" and norm(outer.iter).endswith(".worker_pools")


def r4_time_lower_bounds(ctx: Context, rule: str = "C10.R4") -> None:
    ctx.rule(rule, "model start times: ILP lb = max(now + 1, release); space-time range starts now and cells before release are 0; Z3 start >= release and >= now")
    ilp = ctx.repo.mod("schedulers/ilp_scheduler.py").cls("TaskOptimizerVariables")
    init = method(ilp, "__init__")
    av = [c for c in calls_in(init, "addVar") if any(k.arg == "vtype" and "INTEGER" in norm(k.value) for k in c.keywords)]
    ctx.floor(rule, "ILP start variable", len(av), 1)
    lb = next((k.value for k in av[0].keywords if k.arg == "lb"), None)
    ok = False
    if isinstance(lb, ast.Call) and call_name(lb) == "max" and len(lb.args) == 2:
        ls = [lin.lin_of(a) for a in lb.args]
        want = [lin.lin_of(ast.parse("current_time + 1", mode="eval").body), lin.lin_of(ast.parse("task.release_time", mode="eval").body)]
        ge_now = any(l.terms == want[0].terms and l.const >= 0 for l in ls)
        rel = any(l == want[1] for l in ls)
        ok = ge_now and rel
    ctx.check(ok, rule, "ILP TaskOptimizerVariables|start lb = max(now + c, release), c >= 0", loc(av[0]), norm(lb)[:80] if lb is not None else "?",
              f"ILP start variable lower bound is `{norm(lb)[:80] if lb is not None else 'absent'}`: a start before now / before the release is feasible")
    for rel in ("schedulers/tetrisched_gurobi_scheduler.py", "schedulers/tetrisched_cplex_scheduler.py"):
        cls = ctx.repo.mod(rel).cls("TaskOptimizerVariables")
        init = method(cls, "__init__")
        tr = [a for a in ast.walk(init) if isinstance(a, ast.Assign) and norm(a.targets[0]) == "time_range" and isinstance(a.value, ast.Call) and call_name(a.value) == "range"]
        ok = bool(tr) and lin.lin_of(tr[0].value.args[0]) == lin.lin_of(ast.parse("current_time", mode="eval").body)
        ctx.check(ok, rule, f"{rel}::TaskOptimizerVariables|time range starts at now", loc(tr[0]) if tr else loc(init), "range(now, ...)",
                  "the space-time matrix has cells before the current time")
        g = cfgmod.build(init)
        creates = [c for c in calls_in(init) if call_name(c) in ("addVar", "binary_var") and "placed_at_Worker" in norm(c)]
        ctx.floor(rule, f"cell variable creation in {rel}", len(creates), 1)
        cn = g.node_of(creates[0])
        want = lin.formula(ast.parse("start_time < task.release_time", mode="eval").body)
        ok = any(t.kind == "test" and lin.equivalent(lin.formula(t.ast), want) and g.edge_dominates(t, "F", cn) for t in g.nodes)
        if not ok:
            # the same as part of a larger test: what holds on every path to the creation implies `not (start < release)`
            ctl = [lin.formula(t.ast) if pol == "T" else lin.f_not(lin.formula(t.ast)) for t in g.nodes if t.kind == "test"
                   for pol in ("T", "F") if g.edge_dominates(t, pol, cn)]
            ok = bool(ctl) and lin.entails(("and", ctl), lin.f_not(want))
        ctx.check(ok, rule, f"{rel}::TaskOptimizerVariables|no decision variable before the release time", loc(creates[0]), "start < release -> constant 0",
                  "a cell before the task's release time is a decision variable")
        keys = [a for a in ast.walk(init) if isinstance(a, ast.Assign) and isinstance(a.value, ast.DictComp) and is_self_attr(a.targets[0], "_space_time_strategy_matrix")]
        ok = bool(keys) and any(norm(gen.iter) == "time_range" for gen in keys[0].value.generators) and norm(keys[0].value.value) == "0"
        ctx.check(ok, rule, f"{rel}::TaskOptimizerVariables|cells default to 0 over the time range", loc(keys[0]) if keys else loc(init), "ok", "matrix initialisation changed")
    z = ctx.repo.mod("schedulers/z3_scheduler.py").cls("TaskOptimizerVariables")
    tm = method(z, "_initialize_timing_constraints")
    adds = [c for c in calls_in(tm, "add")]
    ok = False
    for c in adds:
        a = c.args[0] if c.args else None
        if isinstance(a, ast.Call) and call_name(a) == "And":
            fs = [lin.formula(x) for x in a.args]
            w1 = lin.formula(ast.parse("self.start_time >= self.task.release_time", mode="eval").body)
            w2 = lin.formula(ast.parse("self.start_time >= current_time", mode="eval").body)
            ok = any(lin.equivalent(f, w1) for f in fs) and any(lin.entails(f, w2) for f in fs)
    ctx.check(ok, rule, "Z3 TaskOptimizerVariables|start >= release and start >= now asserted (hard)", loc(tm), "optimizer.add(And(...))",
              "Z3 does not assert both lower bounds on the start time")
    ic = method(z, "initialize_constraints") if "initialize_constraints" in methods(z) else None
    if ic is not None:
        ok = any(call_name(c) == "_initialize_timing_constraints" for c in calls_in(ic))
        ctx.check(ok, rule, "Z3 TaskOptimizerVariables|timing constraints installed", loc(ic), "ok", "timing constraints never installed")


# ---------------------------------------------------------------------------
# R5 capacity constraints / R6 indicator pairs
# ---------------------------------------------------------------------------

def solve_calls(fn: ast.FunctionDef) -> List[ast.Call]:
    out = []
    for c in calls_in(fn):
        if call_name(c) in ("optimize", "solve") and isinstance(c.func, ast.Attribute) and "optimizer" in norm(c.func.value):
            out.append(c)
        if call_name(c) == "check" and isinstance(c.func, ast.Attribute) and "optimizer" in norm(c.func.value):
            out.append(c)
    return out


def must_call_before_solve(ctx: Context, rule: str, builder: str, policies) -> None:
    for rel, cname in policies:
        sch = method(ctx.repo.mod(rel).cls(cname), "schedule")
        g = cfgmod.build(sch)
        solves = solve_calls(sch)
        ctx.floor(rule, f"solve call in {cname}", len(solves), 1)
        builds = [c for c in calls_in(sch) if is_self_attr(c.func) and c.func.attr == builder]
        key = f"{rel}::{cname}.schedule|{builder} dominates the solve"
        if not builds:
            ctx.violation(rule, key, loc(sch), f"{cname} solves its model without calling {builder}")
            continue
        ok = all(any(g.dominates(g.node_of(b), g.node_of(s)) for b in builds) for s in solves)
        ctx.check(ok, rule, key, loc(builds[0]), "called on every path to the solver", f"some path reaches the solver without {builder}")
        # the builder gets the same variable table the solution is read from
        tv = [norm(a) for b in builds for a in list(b.args) + [k.value for k in b.keywords] if "tasks_to_variables" in norm(a)]
        ctx.check(bool(tv), rule, key + " (same variable table)", loc(builds[0]), "tasks_to_variables", "the builder is not given the model's variable table")


def r5_capacity(ctx: Context, rule: str = "C10.R5") -> None:
    ctx.rule(rule, "capacity: builder called before the solve; sum(request * var) <= the worker's own quantity; occupancy window at "
                   "least start <= t < start + runtime; compatibility on an emptied worker")
    must_call_before_solve(ctx, rule, "_add_resource_constraints", MODEL_BASED)
    for rel, cname, addc in (("schedulers/ilp_scheduler.py", "ILPScheduler", "addConstr"),
                             ("schedulers/tetrisched_gurobi_scheduler.py", "TetriSchedGurobiScheduler", "addConstr"),
                             ("schedulers/tetrisched_cplex_scheduler.py", "TetriSchedCPLEXScheduler", "add_constraint")):
        fn = method(ctx.repo.mod(rel).cls(cname), "_add_resource_constraints")
        ctx.analysed_function(f"{rel}::{cname}._add_resource_constraints")
        cons = [c for c in calls_in(fn, addc) if any(isinstance(x, ast.Compare) and isinstance(x.ops[0], ast.LtE) and norm(x.comparators[0]) == "quantity"
                                                      for x in ast.walk(c))]
        key = f"{rel}::{cname}._add_resource_constraints"
        if not cons:
            ctx.violation(rule, key + "|constraint `expr <= quantity`", loc(fn), "no capacity constraint of the form `... <= quantity` is emitted")
            continue
        c0 = cons[0]
        lp = parent(c0)
        while lp is not None and not (isinstance(lp, ast.For) and "get_unique_resource_types()" in norm(lp.iter)):
            lp = parent(lp)
        ok = lp is not None and norm(lp.iter) == "worker.resources.get_unique_resource_types().items()" and isinstance(lp.target, ast.Tuple) \
            and norm(lp.target.elts[1]) == "quantity"
        ctx.check(ok, rule, key + "|bound is the worker's own total quantity per resource type", loc(c0), "for (resource, quantity) in worker.resources.get_unique_resource_types()",
                  "the right-hand side of the capacity constraint is not the worker's own quantity")
        wl = parent(lp) if lp is not None else None
        while wl is not None and not (isinstance(wl, ast.For) and norm(wl.iter) == "workers.items()"):
            wl = parent(wl)
        ctx.check(wl is not None, rule, key + "|one constraint family per worker", loc(c0), "for worker in workers", "capacity is not constrained per worker")
        # terms: request * variable where request = strategy.resources.get_total_quantity(resource)
        reqs = [a for a in ast.walk(fn) if isinstance(a, ast.Assign) and isinstance(a.value, ast.Call) and call_name(a.value) == "get_total_quantity"
                and norm(a.value.args[0]) == "resource" and ".resources." in norm(a.value)]
        ctx.check(bool(reqs), rule, key + "|request = strategy.resources.get_total_quantity(resource)", loc(fn), f"{len(reqs)} request lookups",
                  "requests are not read from the strategy's own resource vector")
        req_names = {norm(a.targets[0]) for a in reqs}
        terms = [c for c in calls_in(fn) if call_name(c) in ("add", "append") and c.args and isinstance(c.args[0], ast.BinOp) and isinstance(c.args[0].op, ast.Mult)]
        okt = bool(terms) and all(any(rn in norm(t.args[0]) for rn in req_names) for t in terms)
        ctx.check(okt, rule, key + "|every term is request * placement variable", loc(terms[0]) if terms else loc(fn), f"{len(terms)} term site(s)",
                  "a term of the capacity expression is not weighted by the strategy's request")
        # the expression constrained is the one the terms were added to
        lhs = [x for x in ast.walk(c0) if isinstance(x, ast.Compare)][0].left
        lhs_n = norm(lhs)
        built = [norm(t.func.value) for t in terms]
        okl = any(b in lhs_n for b in built)
        ctx.check(okl, rule, key + "|constraint over the accumulated expression", loc(c0), lhs_n[:60], f"constraint is over `{lhs_n[:60]}`, terms are added to {sorted(set(built))}")
        # the expression is rebuilt per (worker, resource[, time]): defined inside the resource loop
        defs = [a for a in ast.walk(fn) if isinstance(a, ast.Assign) and norm(a.targets[0]) in built]
        okd = bool(defs) and lp is not None and all(_in_loop(a, lp) for a in defs)
        ctx.check(okd, rule, key + "|expression reset per worker and resource", loc(defs[0]) if defs else loc(fn), "defined inside the resource loop",
                  "the capacity expression accumulates across workers/resources")
    # occupancy window (space-time): start <= t < start + runtime at least
    for rel in ("schedulers/tetrisched_gurobi_scheduler.py", "schedulers/tetrisched_cplex_scheduler.py"):
        cls = ctx.repo.mod(rel).cls("TaskOptimizerVariables")
        pv = method(cls, "get_partition_variable")
        ctx.analysed_function(f"{rel}::TaskOptimizerVariables.get_partition_variable")
        g = cfgmod.build(pv)
        apps = [c for c in calls_in(pv, "append")]
        ctx.floor(rule, f"append in get_partition_variable ({rel})", len(apps), 1)
        an = g.node_of(apps[0])
        cases = window_cases(pv)
        cond = ("const", True)
        for case, need_src in (("new", "worker_id == worker_index and start_time <= time and start_time + strategy.runtime > time"),
                               ("placed", "worker_id == worker_index and start_time <= time and start_time + self._task.remaining_time > time")):
            ctl = [lin.formula(t.ast, env=cases[case]) for t in g.nodes if t.kind == "test" and g.edge_dominates(t, "T", an)]
            cond = ("and", ctl) if ctl else ("const", True)
            # "not weaker": whenever the task occupies the worker at time t, its cell is included
            need = lin.formula(ast.parse(need_src, mode="eval").body)
            ctl_wo_kind = [f for f in _split_and(cond) if "variable" not in lin.show(f)]
            inc = ("and", ctl_wo_kind) if ctl_wo_kind else ("const", True)
            ok = lin.entails(need, inc)
            what = "start <= t < start + runtime" if case == "new" else "start <= t < start + remaining time (running task)"
            ctx.check(ok, rule, f"{rel}::TaskOptimizerVariables.get_partition_variable|window covers {what}", loc(apps[0]),
                      lin.show(inc)[:120], f"a cell that occupies the worker at time t can be left out of the capacity constraint: included iff {lin.show(inc)[:160]}")
        kind = [f for f in _split_and(cond) if "variable" in lin.show(f)]
        okk = False
        if kind:
            kf = ("and", kind)
            var_cmp = [x for t in g.nodes if t.kind == "test" and g.edge_dominates(t, "T", an) for x in ast.walk(t.ast)
                       if isinstance(x, ast.Compare) and "variable" in norm(x)]
            is_var = [x for x in var_cmp if "type(variable)" in norm(x)]
            is_one = [x for x in var_cmp if norm(x) in ("variable == 1", "1 == variable")]
            okk = bool(is_var) and bool(is_one) and lin.entails(lin.formula(is_var[0]), kf) and lin.entails(lin.formula(is_one[0]), kf)
        ctx.check(okk, rule, f"{rel}::TaskOptimizerVariables.get_partition_variable|decision variables and fixed (=1) cells both counted", loc(apps[0]),
                  "type(variable) == Var or variable == 1", "cells of running tasks (constant 1) or decision variables are not counted")
        ctx.check(norm(apps[0].args[0]) == "variable" and "strategy" in norm(apps[0].func.value), rule,
                  f"{rel}::TaskOptimizerVariables.get_partition_variable|cell filed under its strategy", loc(apps[0]), "partition[strategy].append(variable)", "cell filed under another key")
    # ILP: resource expression multiplies the overlap indicator with the other task's placement on the same worker
    ilp = method(ctx.repo.mod("schedulers/ilp_scheduler.py").cls("ILPScheduler"), "_add_resource_constraints")
    t2 = [c for c in calls_in(ilp, "add") if c.args and "overlap_variable" in norm(c.args[0])]
    ok = bool(t2) and all(s in norm(t2[0].args[0]) for s in ("placed_on_worker_with_strategy(worker_index", "task_2_resource_reqs", "overlap_variable"))
    ctx.check(ok, rule, "ILPScheduler._add_resource_constraints|other tasks counted when overlapping and placed on the same worker", loc(t2[0]) if t2 else loc(ilp),
              "placed_2[w, s] * overlap(1, 2) * request_2", "the quadratic term for overlapping tasks changed")
    ov = [c for c in calls_in(ilp) if call_name(c) == "_overlaps"]
    ok = bool(ov) and not any(isinstance(x, ast.Continue) for x in ast.walk(ilp) if False)
    ctx.check(bool(ov), rule, "ILPScheduler._add_resource_constraints|overlap indicators defined for independent task pairs", loc(ilp), "ok", "overlap indicators are never constrained")
    r5c_compat_on_cleared_worker(ctx, rule)


def r5c_compat_on_cleared_worker(ctx: Context, rule: str = "C10.R5") -> None:
    """Decision variables exist for every (worker, strategy) pair that fits the EMPTY worker (the capacity constraints,
    not the variable set, account for what is running): computed on deepcopy(worker), which clears allocations."""
    if not rule.startswith("C10"):
        ctx.rule(rule, "model-based planners create placement variables for every (worker, strategy) pair that fits the "
                       "emptied worker (deepcopy clears allocations); pairs that only fit once a running task has finished "
                       "stay available to the optimiser")
    for rel in ("schedulers/ilp_scheduler.py", "schedulers/tetrisched_gurobi_scheduler.py", "schedulers/tetrisched_cplex_scheduler.py"):
        init = method(ctx.repo.mod(rel).cls("TaskOptimizerVariables"), "__init__")
        dc = [a for a in ast.walk(init) if isinstance(a, ast.Assign) and isinstance(a.value, ast.Call) and call_name(a.value) == "deepcopy" and norm(a.value.args[0]) == "worker"]
        cs = [c for c in calls_in(init, "get_compatible_strategies")]
        ok = bool(dc) and bool(cs) and norm(cs[0].func.value) == norm(dc[0].targets[0])
        ctx.check(ok, rule, f"{rel}::TaskOptimizerVariables|compatible (worker, strategy) pairs on deepcopy(worker)", loc(cs[0]) if cs else loc(init),
                  "cleared worker", "compatibility is computed on the occupied worker (tasks that fit later are excluded) or not at all")
        # ... and exactly that result decides for which (worker, strategy) pairs variables exist
        if cs:
            asg = parent(cs[0])
            rv = asg.targets[0].id if isinstance(asg, ast.Assign) and isinstance(asg.targets[0], ast.Name) else None
            maps = [a for a in ast.walk(init) if isinstance(a, ast.Assign) and isinstance(a.targets[0], ast.Subscript)
                    and isinstance(a.targets[0].value, ast.Name) and "worker" in a.targets[0].value.id and "strateg" in a.targets[0].value.id]
            oku = rv is not None and bool(maps) and all(isinstance(a.value, ast.Name) and a.value.id == rv for a in maps)
            ctx.check(oku, rule, f"{rel}::TaskOptimizerVariables|variables only for the compatible strategies of each worker", loc(maps[0]) if maps else loc(init),
                      f"per-worker strategy table filled from `{rv}`",
                      f"the per-worker strategy table is filled with `{norm(maps[0].value)[:60] if maps else '?'}`, not with the strategies found compatible "
                      "with that worker: placement variables exist for strategies the worker cannot run (e.g. a resource type it does not own, "
                      "which no capacity constraint covers)")




def window_cases(pv: ast.FunctionDef) -> Dict[str, Dict[str, lin.Lin]]:
    """Environments for the locals of get_partition_variable, one per case of `previously placed`.

    `occupancy_time = A if self._previously_placed else B` yields {'placed': {occupancy_time: A}, 'new': {occupancy_time: B}}."""
    cases: Dict[str, Dict[str, lin.Lin]] = {"placed": {}, "new": {}}
    for a in ast.walk(pv):
        if isinstance(a, ast.Assign) and len(a.targets) == 1 and isinstance(a.targets[0], ast.Name):
            v = a.value
            if isinstance(v, ast.IfExp) and "previously_placed" in norm(v.test):
                pos = not (isinstance(v.test, ast.UnaryOp) and isinstance(v.test.op, ast.Not))
                yes, no = (v.body, v.orelse) if pos else (v.orelse, v.body)
                cases["placed"][a.targets[0].id] = lin.lin_of(yes)
                cases["new"][a.targets[0].id] = lin.lin_of(no)
            elif not isinstance(v, (ast.Call, ast.IfExp)) or call_name(v) not in ("defaultdict", "dict", "list"):
                try:
                    l = lin.lin_of(v)
                    cases["placed"].setdefault(a.targets[0].id, l)
                    cases["new"].setdefault(a.targets[0].id, l)
                except Exception:
                    pass
    return cases


def _pv_env(fn: ast.FunctionDef) -> Dict[str, lin.Lin]:
    return window_cases(fn)["new"]


def _split_and(f) -> List:
    if f[0] == "and":
        out = []
        for x in f[1]:
            out += _split_and(x)
        return out
    return [f]


def indicator_pairs(fn: ast.FunctionDef) -> Dict[str, List[ast.Call]]:
    groups: Dict[str, List[ast.Call]] = {}
    for c in calls_in(fn, "addGenConstrIndicator"):
        if len(c.args) >= 5:
            groups.setdefault(norm(c.args[0]) + " :: " + norm(c.args[2]), []).append(c)
    return groups


GRID_ROLES = {"current_time": "NOW", "sim_time": "NOW", "plan_ahead": "PA", "time_discretization": "STEP",
              "self._time_discretization": "STEP"}


class _RoleRename(ast.NodeTransformer):
    def visit_Attribute(self, node):
        d = dotted(node)
        if d in GRID_ROLES:
            return ast.Name(id=GRID_ROLES[d], ctx=ast.Load())
        return self.generic_visit(node)

    def visit_Name(self, node):
        return ast.Name(id=GRID_ROLES[node.id], ctx=node.ctx) if node.id in GRID_ROLES else node


def _range_args(fn: ast.FunctionDef, call: ast.Call):
    """(start, stop, step) of a range() call as linear forms over NOW / PA / STEP, single-assignment locals resolved."""
    counts: Dict[str, int] = {}
    vals: Dict[str, ast.AST] = {}
    for n in ast.walk(fn):
        if isinstance(n, ast.Assign) and len(n.targets) == 1 and isinstance(n.targets[0], ast.Name):
            counts[n.targets[0].id] = counts.get(n.targets[0].id, 0) + 1
            vals[n.targets[0].id] = n.value
        elif isinstance(n, ast.AugAssign) and isinstance(n.target, ast.Name):
            counts[n.target.id] = counts.get(n.target.id, 0) + 2
    env: Dict[str, lin.Lin] = {}

    def resolve(node, depth=0):
        node = _RoleRename().visit(ast.parse(ast.unparse(node), mode="eval").body)
        for _ in range(4):
            names = {x.id for x in ast.walk(node) if isinstance(x, ast.Name)}
            todo = [k for k in names if k in vals and counts.get(k) == 1 and k not in GRID_ROLES.values() and k not in GRID_ROLES]
            if not todo:
                break
            class Sub(ast.NodeTransformer):
                def visit_Name(self, n):
                    if n.id in todo:
                        return _RoleRename().visit(ast.parse(ast.unparse(vals[n.id]), mode="eval").body)
                    return n
            node = Sub().visit(node)
        return lin.lin_of(node, env)
    a = list(call.args)
    if len(a) == 1:
        return lin.Lin(), resolve(a[0]), lin.Lin(const=1)
    if len(a) == 2:
        return resolve(a[0]), resolve(a[1]), lin.Lin(const=1)
    return resolve(a[0]), resolve(a[1]), resolve(a[2])


def r5b_capacity_grid(ctx: Context, rule: str = "C10.R5b") -> None:
    ctx.rule(rule, "space-time planners: the instants at which capacity constraints are generated cover every instant for "
                   "which a placement cell exists (same start and step, end not earlier), as linear forms over now / "
                   "plan-ahead / discretization")
    for rel, sched in (("schedulers/tetrisched_gurobi_scheduler.py", "TetriSchedGurobiScheduler"),
                       ("schedulers/tetrisched_cplex_scheduler.py", "TetriSchedCPLEXScheduler")):
        mod = ctx.repo.mod(rel)
        init = method(mod.cls("TaskOptimizerVariables"), "__init__")
        cells = [n for n in ast.walk(init) if isinstance(n, ast.DictComp) and isinstance(parent(n), ast.Assign)
                 and "_space_time" in norm(parent(n).targets[0])]
        ctx.floor(rule, f"space-time cell table construction ({rel})", len(cells), 1)
        tgen = [gq for gq in cells[0].generators if isinstance(gq.target, ast.Name) and gq.target.id in ("t", "time", "start_time")]
        if not tgen:
            raise AnalysisError(f"{rel}: time generator of the space-time cell table not recognised")
        it = tgen[0].iter
        if isinstance(it, ast.Name):
            defs = [a for a in ast.walk(init) if isinstance(a, ast.Assign) and isinstance(a.targets[0], ast.Name) and a.targets[0].id == it.id]
            if len(defs) != 1:
                raise AnalysisError(f"{rel}: `{it.id}` is not a single-assignment local")
            it = defs[0].value
        if not (isinstance(it, ast.Call) and call_name(it) == "range"):
            raise AnalysisError(f"{rel}: the cell grid is not a range()")
        v0, v1, vs = _range_args(init, it)
        cap = None
        for mname, m in methods(mod.cls(sched)).items():
            for lp in [n for n in ast.walk(m) if isinstance(n, ast.For) and isinstance(n.iter, ast.Call) and call_name(n.iter) == "range"]:
                if calls_in(lp, "get_partition_variable"):
                    cap = (m, lp)
        if cap is None:
            ctx.violation(rule, f"{rel}::{sched}|capacity constraints iterate a time grid", loc(mod.cls(sched)),
                          "no loop over range(...) generates capacity constraints from get_partition_variable")
            continue
        m, lp = cap
        ctx.analysed_function(f"{rel}::{sched}.{m.name}")
        c0, c1, cs = _range_args(m, lp.iter)
        key = f"{rel}::{sched}.{m.name}|capacity grid"
        ctx.check(c0 == v0, rule, key + " starts where the cell grid starts", loc(lp), f"start {c0!r}",
                  f"capacity constraints start at `{c0!r}` but cells exist from `{v0!r}`")
        ctx.check(cs == vs, rule, key + " has the cell grid's step", loc(lp), f"step {cs!r}",
                  f"capacity constraints are generated every `{cs!r}` but cells exist every `{vs!r}`: instants in between are unconstrained")
        d = c1 - v1
        ctx.check(d.is_const() and d.const >= 0, rule, key + " ends no earlier than the cell grid", loc(lp), f"end {c1!r}",
                  f"capacity constraints stop at `{c1!r}` (exclusive) but placement cells exist up to `{v1!r}` (exclusive): the "
                  "last planned instant(s) carry no capacity constraint, so any number of tasks can be stacked there")


BATCH_AGGREGATES = {"release_time": ("max", "a batch starts no earlier than its latest-released member"),
                    "deadline": ("min", "a batch must finish by the earliest deadline of its members"),
                    "remaining_time": ("max", "a batch holds its resources as long as its slowest member")}


def batch_aggregates(ctx: Context, rule: str = "C10.R4b") -> None:
    ctx.rule(rule, "the virtual BatchTask of the ILP planner aggregates its members conservatively: release_time = max, "
                   "deadline = min, remaining_time = max over `self._tasks` (the model's start lower bound and deadline constraint "
                   "read these accessors)")
    n = 0
    for rel in ("schedulers/ilp_scheduler.py", "schedulers/tetrisched_cplex_scheduler.py"):
        try:
            cls = ctx.repo.mod(rel).cls("BatchTask")
        except AnalysisError:
            continue
        for name, (fn_name, why) in BATCH_AGGREGATES.items():
            m = methods(cls).get(name)
            if m is None:
                continue
            n += 1
            rets = [r for r in ast.walk(m) if isinstance(r, ast.Return) and r.value is not None]
            ok = len(rets) == 1 and isinstance(rets[0].value, ast.Call) and call_name(rets[0].value) == fn_name and len(rets[0].value.args) == 1 \
                and isinstance(rets[0].value.args[0], (ast.GeneratorExp, ast.ListComp)) \
                and norm(rets[0].value.args[0].generators[0].iter) in ("self._tasks", "self.tasks") \
                and norm(rets[0].value.args[0].elt) == f"{norm(rets[0].value.args[0].generators[0].target)}.{name}"
            ctx.check(ok, rule, f"{rel}::BatchTask.{name}|{fn_name} over the members", loc(m), f"{fn_name}(t.{name} for t in members)",
                      f"BatchTask.{name} is `{norm(rets[0].value)[:70] if rets else '?'}`: {why}")
    ctx.floor(rule, "BatchTask aggregate accessors", n, 3)


def r7_config_not_rewritten(ctx: Context, rule: str = "C10.R7") -> None:
    ctx.rule(rule, "a policy's configuration (attributes set in __init__ straight from a constructor parameter) is never assigned "
                   "by schedule() or its helpers: what one invocation derives (e.g. a planning horizon) must not leak into the next")
    n = 0
    for m in ctx.repo.program_modules():
        if not m.rel.startswith("schedulers/"):
            continue
        for cls in [c for c in ast.walk(m.tree) if isinstance(c, ast.ClassDef)]:
            ms = methods(cls)
            init = ms.get("__init__")
            if init is None or "schedule" not in ms:
                continue
            params = {a.arg for a in init.args.args + init.args.kwonlyargs}
            cfg = {a.targets[0].attr for a in ast.walk(init) if isinstance(a, ast.Assign) and is_self_attr(a.targets[0])
                   and isinstance(a.value, ast.Name) and a.value.id in params}
            n += len(cfg)
            for name, fn in ms.items():
                if name == "__init__":
                    continue
                for a in ast.walk(fn):
                    if isinstance(a, (ast.Assign, ast.AugAssign)):
                        for t in (a.targets if isinstance(a, ast.Assign) else [a.target]):
                            if is_self_attr(t) and t.attr in cfg:
                                ctx.violation(rule, f"{m.rel}::{cls.name}.{name}|`{norm(a)[:50]}` rewrites configuration", loc(a),
                                              f"`{norm(a)[:70]}` overwrites the constructor-given `{t.attr}` during an invocation: the value "
                                              "derived for this invocation sticks for all later ones (stale horizon / bound), so later plans "
                                              "are made on the wrong premise")
    ctx.floor(rule, "configuration attributes of the policies", n, 10)
    ctx.ok(rule, "policies|configuration attributes assigned only in __init__", "schedulers/", f"{n} attributes")


def r8_filter_visits_every_graph(ctx: Context, rule: str = "C10.R8") -> None:
    ctx.rule(rule, "Workload.filter (through which the planners collect the RUNNING / SCHEDULED tasks they must account for) applies "
                   "the predicate to every task graph: no graph is skipped")
    from ..anchors import WORKLOAD
    fn = method(ctx.repo.mod(WORKLOAD).cls("Workload"), "filter")
    loops = [n for n in fn.body if isinstance(n, ast.For)]
    ok = len(loops) == 1 and "_task_graphs" in norm(loops[0].iter) and not any(isinstance(x, (ast.If, ast.Continue, ast.Break, ast.Return)) for x in ast.walk(loops[0]))
    ok = ok and any(call_name(c) == "filter" and c.args and norm(c.args[0]) == fn.args.args[1].arg for c in calls_in(loops[0]))
    ctx.check(ok, rule, "Workload.filter|every task graph is filtered with the given predicate", loc(fn), "for tg in graphs: extend(tg.filter(f))",
              "Workload.filter skips some task graphs or changes the predicate: running tasks of the skipped graphs vanish from the planners' "
              "view (no capacity held for them, no start-after-parent constraint for their children)")


def r6_indicator_pairs(ctx: Context, rule: str = "C10.R6", gap_rule: Optional[str] = None) -> None:
    ctx.rule(rule, "indicator pairs (b=1 => e >= a, b=0 => e <= c) over one linear form are complementary: c = a - 1 (no overlap of the "
                   "ranges: an overlap leaves b free and capacity can be evaded; a gap is over-tight)")
    n = 0
    for rel, cname, mnames in (("schedulers/ilp_scheduler.py", "ILPScheduler", ["_overlaps", "_add_task_dependency_constraints"]),
                               ("schedulers/tetrisched_gurobi_scheduler.py", "TetriSchedGurobiScheduler", ["_add_task_dependency_constraints"])):
        cls = ctx.repo.mod(rel).cls(cname)
        for mn in mnames:
            fn = method(cls, mn)
            # the two halves of one indicator must constrain the same linear form
            by_var: Dict[str, List[ast.Call]] = {}
            for c in calls_in(fn, "addGenConstrIndicator"):
                if len(c.args) >= 5:
                    by_var.setdefault(norm(c.args[0]), []).append(c)
            for var, cs in by_var.items():
                forms = {norm(c.args[2]) for c in cs}
                if len(cs) == 2 and len(forms) == 2 and lin.lin_of(cs[0].args[2]) != lin.lin_of(cs[1].args[2]):
                    n += 1
                    ctx.violation(rule, f"{rel}::{cname}.{mn}|indicator `{var[:50]}` halves over one expression", loc(cs[0]),
                                  f"the b=0 and b=1 constraints of `{var}` are stated over different expressions "
                                  f"(`{norm(cs[0].args[2])[:70]}` vs `{norm(cs[1].args[2])[:70]}`): the indicator no longer decides one "
                                  "quantity, so e.g. whether one task ends before another starts is measured with the wrong task's duration")
            for gk, calls in indicator_pairs(fn).items():
                if len(calls) != 2:
                    continue
                n += 1
                info = {}
                for c in calls:
                    val = c.args[1].value if isinstance(c.args[1], ast.Constant) else None
                    sense = norm(c.args[3]).split(".")[-1]
                    rhs = lin.lin_of(c.args[4])
                    info[val] = (sense, rhs, c)
                key = f"{rel}::{cname}.{mn}|indicator `{gk[:70]}`"
                if set(info) != {0, 1}:
                    ctx.violation(rule, key, loc(calls[0]), "the two indicator constraints do not cover b=0 and b=1")
                    continue
                (s0, r0, c0), (s1, r1, c1) = info[0], info[1]
                verdict = _complementary(s0, r0, s1, r1)
                if verdict == "ok":
                    ctx.ok(rule, key, loc(c0), f"b=0: {s0} {r0!r}; b=1: {s1} {r1!r}")
                elif verdict == "overlap":
                    ctx.violation(rule, key, loc(c0), f"b=0 => e {s0} {r0!r} and b=1 => e {s1} {r1!r} overlap: for values in both ranges the "
                                  "indicator is free, so the constraint it guards (capacity / precedence) can be switched off")
                elif verdict == "gap":
                    ctx.violation(gap_rule or rule, key, loc(c0), f"b=0 => e {s0} {r0!r} and b=1 => e {s1} {r1!r} leave a gap: values in between "
                                  "are infeasible (over-tight model)")
                else:
                    raise AnalysisError(f"{key}: indicator pair shape not recognised ({s0} {r0!r} / {s1} {r1!r})")
    ctx.floor(rule, "indicator pairs", n, 4)


def _complementary(s0: str, r0: lin.Lin, s1: str, r1: lin.Lin) -> str:
    d = r1 - r0
    if not d.is_const():
        return "?"
    k = d.const
    if s0 == "LESS_EQUAL" and s1 == "GREATER_EQUAL":
        return "ok" if k == 1 else ("overlap" if k < 1 else "gap")
    if s0 == "GREATER_EQUAL" and s1 == "LESS_EQUAL":
        return "ok" if k == -1 else ("overlap" if k > -1 else "gap")
    if s0 == "LESS_EQUAL" and s1 == "EQUAL":
        return "ok" if k == 1 else ("overlap" if k < 1 else "gap")
    if s0 == "GREATER_EQUAL" and s1 == "EQUAL":
        return "ok" if k == -1 else ("overlap" if k > -1 else "gap")
    return "?"


def r12_no_snapshot_across_admission(ctx: Context) -> None:
    ctx.rule("C10.R12", "admission control in a policy (a loop that creates a cancellation for a task and removes it from the list of "
                        "tasks to decide) is final: no local bound from that list before the loop is read after it outside logging - a "
                        "copy taken earlier still holds the cancelled task, which then gets a second decision")
    n = 0
    for rel, cname in POLICIES:
        cls = ctx.repo.mod(rel).cls(cname)
        for fn in methods(cls).values():
            for rm in calls_in(fn, "remove"):
                if not (isinstance(rm.func, ast.Attribute) and isinstance(rm.func.value, ast.Name) and len(rm.args) == 1):
                    continue
                lst = rm.func.value.id
                loop = parent(rm)
                while loop is not None and not isinstance(loop, (ast.For, ast.While)):
                    loop = parent(loop)
                if loop is None or not any(call_name(c) == "create_task_cancellation" for c in calls_in(loop)):
                    continue
                n += 1
                key = f"{rel}::{cname}.{fn.name}|`{lst}` is read afresh after admission control"
                start, end = loop.lineno, getattr(loop, "end_lineno", loop.lineno)
                stale = []
                for a in ast.walk(fn):
                    if not (isinstance(a, ast.Assign) and len(a.targets) == 1 and isinstance(a.targets[0], ast.Name) and a.lineno < start):
                        continue
                    x = a.targets[0].id
                    if x == lst or not any(isinstance(y, ast.Name) and y.id == lst and isinstance(y.ctx, ast.Load) for y in ast.walk(a.value)):
                        continue
                    # scalars derived from the list (its length, an emptiness test) are not copies of its contents
                    if isinstance(a.value, (ast.Compare, ast.BoolOp)) or (isinstance(a.value, ast.Call) and call_name(a.value) in ("len", "bool", "any", "all", "sum", "min", "max")):
                        continue
                    rebound_later = any(isinstance(b, ast.Name) and b.id == x and isinstance(b.ctx, ast.Store) and b.lineno > end for b in ast.walk(fn))
                    if rebound_later:
                        continue
                    for u in ast.walk(fn):
                        if isinstance(u, ast.Name) and u.id == x and isinstance(u.ctx, ast.Load) and u.lineno > end:
                            q, logging_only = parent(u), False
                            while q is not None and q is not fn:
                                if isinstance(q, ast.Call) and isinstance(q.func, ast.Attribute) and "_logger" in norm(q.func.value):
                                    logging_only = True
                                q = parent(q)
                            if not logging_only:
                                stale.append((x, a, u))
                                break
                if stale:
                    x, a, u = stale[0]
                    ctx.violation("C10.R12", key, loc(u), f"`{x}` was bound from `{lst}` at line {a.lineno}, before the admission loop at lines "
                                  f"{start}-{end} removes the cancelled tasks from `{lst}`, and is read after it: a task that was just given a "
                                  "cancellation is decided a second time")
                else:
                    ctx.ok("C10.R12", key, loc(loop), f"no copy of `{lst}` taken before lines {start}-{end} is read afterwards")
    ctx.floor("C10.R12", "admission loops (cancel + remove)", n, 1)


def run(ctx: Context) -> None:
    ctx.isolate(r1_side_effect_free)
    from . import c04
    ctx.isolate(c04.r4_r5_copies, rule4="C10.R1b", rule5="C10.R1c")
    ctx.isolate(r2_one_decision)
    ctx.isolate(r3_well_formed)
    ctx.isolate(r11_variable_table_keys)
    ctx.isolate(r4_time_lower_bounds)
    ctx.isolate(r5_capacity)
    ctx.isolate(r5b_capacity_grid)
    ctx.isolate(batch_aggregates)
    ctx.isolate(r7_config_not_rewritten)
    ctx.isolate(r8_filter_visits_every_graph)
    ctx.isolate(r12_no_snapshot_across_admission)
    from . import c15, c18
    ctx.isolate(c18.r2b_parameter_agreement, _alias={"C18.R2b": "C10.R9"})
    ctx.isolate(c15.r2_full_batches, _alias={"C15.R2": "C10.R10"})
    ctx.isolate(r6_indicator_pairs)
