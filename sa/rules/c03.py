"""C03 — Simulated execution takes exactly the chosen strategy's runtime."""
from __future__ import annotations

import ast
from typing import Dict, List, Optional, Set, Tuple

from .. import cfg as cfgmod
from .. import lin
from ..anchors import SIM, TASKS, UTILS, WORKERS, Sim, event_constructions
from ..core import (
    AnalysisError,
    call_name,
    calls_in,
    dotted,
    enclosing_class,
    enclosing_function,
    is_self_attr,
    loc,
    method,
    methods,
    norm,
    parent,
    qualname,
    src,
)
from ..report import Context
from . import c16

EXPLANATION = (
    "Static structural analysis of the clock: _simulator_time is written only in __init__ and in the stepping "
    "routine, where `step_size < 0 -> raise` dominates the `+= step_size`; TASK_FINISHED events are constructed "
    "only there, with time = clock + step before the increment, for exactly the tasks returned by "
    "WorkerPool.step (which steps every worker, which steps every RUNNING task); every path through one "
    "iteration of simulate() steps exactly once and then handles at most one event, stepping by the minimum "
    "remaining time only under `min_remaining < time_until_next_event` and otherwise exactly to the next event; "
    "TASK_PLACEMENT events carry the scheduler's placement_time or a retry time >= now + 1us and Task.start "
    "receives the event's time; the event order key and type priorities (C16.R3/R4); runtime fuzzing has lower "
    "variance 0 and EventTime.fuzz adds a clamped non-negative amount; Task.step's two outcomes (finish exactly "
    "when remaining - executed <= 0; otherwise subtract the executed time). NOT decided: the arithmetic of "
    "Task.step across arbitrary step sequences (exactly s+r), nor 'starts exactly then whenever the pool can hold it'."
)
ASSUMPTIONS = c16.ASSUMPTIONS + ["min()/max() builtins and attrgetter behave as documented"]


def _step_method(sim: Sim) -> ast.FunctionDef:
    c = [m for m in sim.methods.values() if any(a.arg == "step_size" for a in m.args.args)]
    if len(c) != 1:
        raise AnalysisError("the stepping routine (method with a step_size parameter) was not found")
    return c[0]


def r1_monotone_clock(ctx: Context) -> None:
    ctx.rule("C03.R1", "_simulator_time is written only in __init__ and in the stepping routine, where "
                       "`step_size < 0 -> raise` dominates the increment by step_size")
    sim = Sim(ctx.repo)
    step = _step_method(sim)
    ctx.analysed_function(qualname(step))
    writes = []
    for m in ctx.repo.program_modules():
        for n in ast.walk(m.tree):
            if isinstance(n, (ast.Assign, ast.AugAssign, ast.AnnAssign)):
                ts = n.targets if isinstance(n, ast.Assign) else [n.target]
                for t in ts:
                    if isinstance(t, ast.Attribute) and t.attr == "_simulator_time":
                        writes.append(n)
    ctx.floor("C03.R1", "writes of _simulator_time", len(writes), 2)
    g = cfgmod.build(step)
    for w in writes:
        fn = enclosing_function(w)
        key = f"{qualname(w)}|`{norm(w)[:50]}`"
        if fn is not None and fn.name == "__init__" and enclosing_class(w) is sim.cls:
            ok = isinstance(w, ast.Assign) and lin.lin_of(w.value).is_const() and lin.lin_of(w.value).const == 0
            ctx.check(ok, "C03.R1", key, loc(w), "clock starts at zero", f"clock initialised with `{norm(w.value)}`")
        elif fn is step:
            ok = isinstance(w, ast.AugAssign) and isinstance(w.op, ast.Add) and norm(w.value) == "step_size"
            ctx.check(ok, "C03.R1", key, loc(w), "+= step_size", f"the clock is changed by `{norm(w)}`")
            want = lin.formula(ast.parse("step_size < EventTime.zero()", mode="eval").body)
            guards = [t for t in g.nodes if t.kind == "test" and lin.equivalent(lin.formula(t.ast), want)
                      and isinstance(parent(t.ast), ast.If) and any(isinstance(x, ast.Raise) for x in parent(t.ast).body)]
            ok = bool(guards) and g.edge_dominates(guards[0], "F", g.node_of(w))
            ctx.check(ok, "C03.R1", f"{qualname(step)}|negative step refused before the increment", loc(w),
                      "step_size < 0 -> raise dominates", "the clock can be moved backwards: no negative-step refusal dominates the increment")
        else:
            ctx.violation("C03.R1", key, loc(w), f"`{norm(w)[:60]}` writes the simulator clock outside __init__ / the stepping routine")


def r2_completion_time(ctx: Context) -> None:
    ctx.rule("C03.R2", "TASK_FINISHED events are built only in the stepping routine, at clock + step (before the "
                       "increment), for exactly the tasks returned by worker_pool.step(clock, step)")
    sim = Sim(ctx.repo)
    step = _step_method(sim)
    g = cfgmod.build(step)
    evs_all = []
    for m in ctx.repo.program_modules():
        evs_all += event_constructions(m.tree, "TASK_FINISHED")
    ctx.floor("C03.R2", "TASK_FINISHED event constructions", len(evs_all), 1)
    incs = [n for n in ast.walk(step) if isinstance(n, ast.AugAssign) and is_self_attr(n.target, "_simulator_time")]
    for e in evs_all:
        key = f"{qualname(e)}|TASK_FINISHED"
        if enclosing_function(e) is not step:
            ctx.violation("C03.R2", key + " outside the stepping routine", loc(e), "a TASK_FINISHED event is fabricated outside the stepping routine")
            continue
        t = next((k.value for k in e.keywords if k.arg == "time"), None)
        l = lin.lin_of(t) if t is not None else None
        want = lin.lin_of(ast.parse("self._simulator_time + step_size", mode="eval").body)
        before = bool(incs) and not g.reachable(g.node_of(incs[0]), g.node_of(e))
        after = bool(incs) and g.dominates(g.node_of(incs[0]), g.node_of(e))
        want_after = lin.lin_of(ast.parse("self._simulator_time", mode="eval").body)
        ok = l is not None and ((l == want and before) or (l == want_after and after))
        ctx.check(ok, "C03.R2", key + "|time = new clock", loc(e), f"time=`{norm(t)}` {'before' if before else 'after'} the increment",
                  f"TASK_FINISHED is stamped `{norm(t) if t is not None else '?'}`, which is not the clock after this step")
        tk = next((k.value for k in e.keywords if k.arg == "task"), None)
        lp = parent(e)
        while lp is not None and not isinstance(lp, ast.For):
            lp = parent(lp)
        ok = False
        if lp is not None and isinstance(tk, ast.Name) and norm(lp.target) == tk.id and isinstance(lp.iter, ast.Call) \
                and call_name(lp.iter) == "step":
            a = [norm(x) for x in lp.iter.args] + [norm(k.value) for k in lp.iter.keywords]
            ok = a == ["self._simulator_time", "step_size"]
            outer = parent(lp)
            ok = ok and isinstance(outer, ast.For) and "worker_pools" in norm(outer.iter) and norm(lp.iter.func.value) == norm(outer.target)
        ctx.check(ok, "C03.R2", key + "|for the tasks returned by every pool's step(clock, step)", loc(e),
                  "for pool in pools: for task in pool.step(clock, step_size)", "TASK_FINISHED tasks are not exactly the tasks that finished in this step")
        # every created event is queued
        added = [c for c in calls_in(step, "add_event")]
        ctx.check(bool(added), "C03.R2", key + "|queued", loc(e), "add_event", "finished events are never queued")
    # WorkerPool.step / Worker.step chain
    wp = ctx.repo.mod(WORKERS).cls("WorkerPool")
    ws = method(wp, "step")
    ok = False
    for lp in [n for n in ast.walk(ws) if isinstance(n, ast.For)]:
        if "_workers" in norm(lp.iter):
            for c in calls_in(lp, "extend"):
                a = c.args[0] if c.args else None
                if isinstance(a, ast.Call) and call_name(a) == "step" and [norm(x) for x in a.args] == ["current_time", "step_size"]:
                    ok = not any(isinstance(x, (ast.Break, ast.Continue, ast.Return)) for x in ast.walk(lp))
    ctx.check(ok, "C03.R2", "WorkerPool.step|steps every worker with the same (time, step)", loc(ws), "completed.extend(worker.step(t, dt))",
              "WorkerPool.step does not step every worker with the given time and step")
    w = ctx.repo.mod(WORKERS).cls("Worker")
    wst = method(w, "step")
    g2 = cfgmod.build(wst)
    apps = [c for c in calls_in(wst, "append") if norm(c.func.value) == "completed_tasks"]
    ok = False
    for a in apps:
        an = g2.node_of(a)
        for t in g2.nodes:
            if t.kind == "test" and isinstance(t.ast, ast.Call) and call_name(t.ast) == "step" \
                    and [norm(x) for x in t.ast.args] == ["current_time", "step_size"] and g2.edge_dominates(t, "T", an) \
                    and norm(t.ast.func.value) == norm(a.args[0]):
                lp = parent(parent(t.ast))
                while lp is not None and not isinstance(lp, ast.For):
                    lp = parent(lp)
                if lp is not None and norm(lp.iter) in ("self._placed_tasks", "self._placed_tasks.keys()", "list(self._placed_tasks)"):
                    ok = True
    ctx.check(ok, "C03.R2", "Worker.step|a task completes iff task.step(t, dt) is true", loc(wst),
              "for task in placed: if task.step(t, dt): completed.append(task)", "Worker.step reports completions that Task.step did not signal")
    # every RUNNING task of the worker is stepped: no early exit, and only non-running tasks are skipped
    tl = [n for n in ast.walk(wst) if isinstance(n, ast.For) and norm(n.iter) in ("self._placed_tasks", "self._placed_tasks.keys()", "list(self._placed_tasks)")]
    ctx.floor("C03.R2", "loop over the placed tasks in Worker.step", len(tl), 1)
    tv = norm(tl[0].target)
    early = [x for x in ast.walk(tl[0]) if isinstance(x, (ast.Break, ast.Return))]
    ctx.check(not early, "C03.R2", "Worker.step|task loop has no early exit", loc(early[0]) if early else loc(tl[0]), "every placed task is visited",
              "the loop over the placed tasks can stop early: running tasks after that point are not stepped and finish late")
    not_running = lin.formula(ast.parse(f"{tv}.state != TaskState.RUNNING", mode="eval").body)
    for c in [x for x in ast.walk(tl[0]) if isinstance(x, ast.Continue)]:
        cn = g2.node_of(c)
        ok = any(t.kind == "test" and ((g2.edge_dominates(t, "T", cn) and lin.entails(lin.formula(t.ast), not_running))
                                       or (g2.edge_dominates(t, "F", cn) and lin.entails(lin.f_not(lin.formula(t.ast)), not_running)))
                 for t in g2.nodes)
        ctx.check(ok, "C03.R2", "Worker.step|only tasks that are not RUNNING are skipped", loc(c), "continue under `state != RUNNING`",
                  "a RUNNING task can be skipped by the stepping loop: it holds its resources longer than its runtime")
    rets = [r for r in ast.walk(wst) if isinstance(r, ast.Return)]
    ctx.check(all(norm(r.value) == "completed_tasks" for r in rets) and bool(rets), "C03.R2", "Worker.step|returns the completed list", loc(wst), "ok", "returns something else")


def r3_loop_shape(ctx: Context) -> None:
    ctx.rule("C03.R3", "every path through one iteration of simulate() steps exactly once, then handles at most one "
                       "event; the step is min_remaining only under `min_remaining < time_until_next_event`, else the time to the next event")
    sim = Sim(ctx.repo)
    fn = sim.method("simulate")
    step = _step_method(sim)
    ctx.analysed_function(qualname(fn))
    loops = [n for n in fn.body if isinstance(n, ast.While)]
    if len(loops) != 1:
        raise AnalysisError("simulate(): expected one top-level while loop")
    body = ast.FunctionDef(name="__iteration__", args=ast.arguments(posonlyargs=[], args=[], kwonlyargs=[], kw_defaults=[], defaults=[]),
                           body=loops[0].body, decorator_list=[], lineno=loops[0].lineno, col_offset=0)
    g = cfgmod.build(body)
    step_name = step.name
    env: Dict[str, ast.AST] = {}
    for n in ast.walk(loops[0]):
        if isinstance(n, ast.Assign) and len(n.targets) == 1 and isinstance(n.targets[0], ast.Name):
            env[n.targets[0].id] = n.value
    # definitions
    tun = [k for k, v in env.items() if "peek()" in norm(v)]
    if len(tun) != 1:
        raise AnalysisError("time-until-next-event variable not found")
    tun = tun[0]
    ok = lin.lin_of(env[tun]) == lin.lin_of(ast.parse("self._event_queue.peek().time - self._simulator_time", mode="eval").body)
    ctx.check(ok, "C03.R3", "Simulator.simulate|time until next event = next event time - clock", loc(env[tun]), norm(env[tun]),
              f"`{tun}` is `{norm(env[tun])}`")
    mins = [k for k, v in env.items() if isinstance(v, ast.Call) and call_name(v) == "min" and "remaining_time" in norm(v)]
    if len(mins) != 1:
        raise AnalysisError("minimum remaining time variable not found")
    mn = mins[0]
    mv = env[mn]
    src_list = None
    if isinstance(mv.args[0], ast.Call) and call_name(mv.args[0]) == "map":
        src_list = mv.args[0].args[1]
    elif isinstance(mv.args[0], (ast.GeneratorExp, ast.ListComp)):
        src_list = mv.args[0].generators[0].iter
    rl = env.get(src_list.id) if isinstance(src_list, ast.Name) else src_list
    ok = rl is not None and norm(rl) == "self._worker_pools.get_placed_tasks()"
    ctx.check(ok, "C03.R3", "Simulator.simulate|minimum over the remaining times of all placed tasks", loc(mv), norm(mv)[:70],
              f"`{mn}` is not the minimum remaining time of the placed tasks: `{norm(mv)[:80]}`")
    npaths = 0
    for path in g.paths(loop_bound=1):
        if path[-1][0].kind != "ret":
            continue
        npaths += 1
        steps = []
        handles = []
        for (n, _l) in path:
            if n.ast is None:
                continue
            root = n.ast if n.kind != "for" else n.ast.iter
            for c in ast.walk(root):
                if isinstance(c, ast.Call) and is_self_attr(c.func):
                    if c.func.attr == step_name and (n.kind != "test" or True):
                        if c not in steps:
                            steps.append(c)
                    if c.func.attr == sim.dispatch.name:
                        if c not in handles:
                            handles.append(c)
        conds = cfgmod.path_conditions(path)
        desc = " & ".join(f"{p}:{norm(t)[:45]}" for p, t in conds)
        key = f"Simulator.simulate|iteration path[{desc}]"
        where = loc(steps[0]) if steps else loc(loops[0])
        if len(steps) != 1:
            ctx.violation("C03.R3", key, where, f"one loop iteration steps the clock {len(steps)} times")
            continue
        if len(handles) > 1:
            ctx.violation("C03.R3", key, where, "one loop iteration handles more than one event")
            continue
        sz = next((k.value for k in steps[0].keywords if k.arg == "step_size"), steps[0].args[0] if steps[0].args else None)
        szn = norm(sz) if sz is not None else "?"
        pc = ("and", [lin.formula(t) if p == "T" else lin.f_not(lin.formula(t)) for p, t in conds]) if conds else ("const", True)
        less = lin.formula(ast.parse(f"{mn} < {tun}", mode="eval").body)
        if szn == mn:
            ok = lin.entails(pc, less) and not handles
            ctx.check(ok, "C03.R3", key, where, f"steps {mn} because it is smaller; no event handled",
                      f"the loop steps by the minimum remaining time although `{mn} < {tun}` is not established"
                      + (" and handles an event that is not due yet" if handles else ""))
        elif szn == tun:
            # if running tasks exist, this must be the not-less branch
            has_running = any(p == "T" and "len(running_tasks) > 0" in norm(t) for p, t in conds)
            ok = (not has_running) or lin.entails(pc, lin.f_not(less))
            ok = ok and len(handles) == 1
            ctx.check(ok, "C03.R3", key, where, f"steps to the next event and handles it",
                      f"the loop steps {tun} " + ("without handling the event" if not handles else f"although a running task finishes earlier"))
            if handles:
                a0 = handles[0].args[0] if handles[0].args else None
                ctx.check(a0 is not None and norm(a0) == "self._event_queue.next()", "C03.R3", key + "|handles the head of the queue", loc(handles[0]),
                          "next()", f"handles `{norm(a0) if a0 is not None else '?'}`")
        else:
            ctx.violation("C03.R3", key, where, f"the loop steps by `{szn}`, which is neither the minimum remaining time nor the time to the next event")
    ctx.count("simulate_iteration_paths", npaths)
    ctx.floor("C03.R3", "iteration paths", npaths, 3)


def r4_never_earlier(ctx: Context) -> None:
    ctx.rule("C03.R4", "TASK_PLACEMENT events carry placement.placement_time or a retry time >= event.time + 1us; "
                       "Task.start receives the event's time")
    sim = Sim(ctx.repo)
    n = 0
    for m in sim.methods.values():
        for e in event_constructions(m, None):
            et = None
            for kw in e.keywords:
                if kw.arg == "event_type":
                    et = norm(kw.value)
            if et not in ("EventType.TASK_PLACEMENT", "event.event_type"):
                continue
            if et == "event.event_type" and m is not sim.handler("TASK_PLACEMENT"):
                continue
            n += 1
            t = next((k.value for k in e.keywords if k.arg == "time"), None)
            t = _resolve(m, t)
            key = f"{qualname(e)}|TASK_PLACEMENT time `{norm(t)[:50]}`"
            if norm(t) == "placement.placement_time":
                ctx.ok("C03.R4", key, loc(e), "the scheduler's chosen time")
                continue
            ok = _retry_ok(m, t)
            ctx.check(ok, "C03.R4", key, loc(e), "event.time + d, d >= 1us",
                      f"a placement is (re)queued for `{norm(t)[:70]}`, which is not provably later than the current event time")
    ctx.floor("C03.R4", "TASK_PLACEMENT event constructions", n, 4)
    h = sim.handler("TASK_PLACEMENT")
    st = [c for c in calls_in(h, "start") if "task" in norm(c.func.value)]
    ctx.floor("C03.R4", "task.start in placement handler", len(st), 1)
    a0 = st[0].args[0] if st[0].args else next((k.value for k in st[0].keywords if k.arg == "time"), None)
    ctx.check(a0 is not None and norm(a0) == "event.time", "C03.R4", f"{qualname(h)}|start at the event's time", loc(st[0]), "task.start(event.time, ...)",
              f"the task is started with time `{norm(a0) if a0 is not None else '?'}`")
    # the placement handler runs for the event handed over by the dispatch: (event, workload)
    # Task.start stores the given time
    task = ctx.repo.mod(TASKS).cls("Task")
    fn = method(task, "start")
    sets = [x for x in ast.walk(fn) if isinstance(x, ast.Assign) and any(is_self_attr(t, "_start_time") for t in x.targets)]
    ok = bool(sets) and isinstance(sets[0].value, ast.IfExp) and norm(sets[0].value.body) == "time" and "time is not None" in norm(sets[0].value.test)
    ok = ok or (bool(sets) and norm(sets[0].value) == "time")
    ctx.check(ok, "C03.R4", "Task.start|records the given start time", loc(sets[0]) if sets else loc(fn), "self._start_time = time", "start time is not the given time")
    ls = [x for x in ast.walk(fn) if isinstance(x, ast.Assign) and any(is_self_attr(t, "_last_step_time") for t in x.targets)]
    ctx.check(bool(ls) and norm(ls[0].value) == "time", "C03.R4", "Task.start|execution is accounted from the start time", loc(ls[0]) if ls else loc(fn),
              "self._last_step_time = time", "the step accounting does not begin at the start time")


def _resolve(fn: ast.FunctionDef, e: Optional[ast.AST]) -> ast.AST:
    if isinstance(e, ast.Name):
        defs = [n for n in ast.walk(fn) if isinstance(n, ast.Assign) and len(n.targets) == 1 and isinstance(n.targets[0], ast.Name)
                and n.targets[0].id == e.id]
        # several definitions in disjoint branches: take the one in the same branch (closest preceding)
        if defs:
            before = sorted([d for d in defs if d.lineno <= e.lineno], key=lambda d: d.lineno)
            if before:
                return before[-1].value
    return e if e is not None else ast.Constant(value=None)


def _retry_ok(fn: ast.FunctionDef, t: ast.AST) -> bool:
    """t == event.time + d with d >= 1 (d a constant, or max(x, c>=1))."""
    if not (isinstance(t, ast.BinOp) and isinstance(t.op, ast.Add)):
        return False
    parts = [t.left, t.right]
    base = [p for p in parts if norm(p) == "event.time"]
    rest = [p for p in parts if norm(p) != "event.time"]
    if len(base) != 1 or len(rest) != 1:
        return False
    d = rest[0]
    l = lin.lin_of(d)
    if l.is_const():
        return l.const >= 1
    if isinstance(d, ast.Call) and call_name(d) == "max":
        return any(lin.lin_of(a).is_const() and lin.lin_of(a).const >= 1 for a in d.args)
    return False


def r6_fuzz_bounds(ctx: Context) -> None:
    ctx.rule("C03.R6", "runtime fuzz has lower variance 0; EventTime.fuzz returns time + clamp(uniform(...), bounds) "
                       "with non-negative default bounds")
    task = ctx.repo.mod(TASKS).cls("Task")
    fn = method(task, "start")
    fz = [c for c in calls_in(fn, "fuzz")]
    ctx.floor("C03.R6", "fuzz call in Task.start", len(fz), 1)
    a = fz[0].args[0] if fz[0].args else None
    ok = isinstance(a, ast.Tuple) and len(a.elts) == 2 and isinstance(a.elts[0], ast.Constant) and a.elts[0].value == 0 \
        and norm(a.elts[1]) == "variance" and len(fz[0].args) == 1 and not fz[0].keywords
    ctx.check(ok, "C03.R6", "Task.start|fuzz((0, variance))", loc(fz[0]), "runtime only ever stretched, never shortened",
              f"runtime is fuzzed with `{norm(fz[0])}`")
    ok = norm(fz[0].func.value) == "self._remaining_time"
    ctx.check(ok, "C03.R6", "Task.start|fuzzes the scheduled strategy's runtime", loc(fz[0]), "self._remaining_time.fuzz", f"fuzzes `{norm(fz[0].func.value)}`")
    ur = [c for c in calls_in(fn, "update_remaining_time")]
    okr = bool(ur) and isinstance(ur[0].args[0], ast.Name)
    if okr:
        d = _resolve(fn, ur[0].args[0])
        okr = d is fz[0]
    ctx.check(okr, "C03.R6", "Task.start|remaining time := fuzzed runtime", loc(ur[0]) if ur else loc(fn), "update_remaining_time(fuzzed)", "the fuzzed runtime is not what the task executes")
    # schedule(): remaining time = strategy runtime
    sch = method(task, "schedule")
    ur = [c for c in calls_in(sch, "update_remaining_time")]
    ok = bool(ur) and norm(ur[0].args[0]) == "placement.execution_strategy.runtime"
    ctx.check(ok, "C03.R6", "Task.schedule|remaining time := chosen strategy's runtime", loc(ur[0]) if ur else loc(sch),
              "update_remaining_time(placement.execution_strategy.runtime)", f"schedule sets remaining time to `{norm(ur[0].args[0]) if ur else '?'}`")
    et = ctx.repo.mod(UTILS).cls("EventTime")
    f = method(et, "fuzz")
    d = f.args.defaults
    ok = len(d) == 1 and isinstance(d[0], ast.Tuple) and isinstance(d[0].elts[0], ast.Constant) and d[0].elts[0].value == 0
    ctx.check(ok, "C03.R6", "EventTime.fuzz|default lower bound 0", loc(f), "bounds=(0, maxsize)", f"default bounds `{norm(d[0]) if d else '?'}`")
    rets = [r for r in ast.walk(f) if isinstance(r, ast.Return)]
    ok = False
    if len(rets) == 1 and isinstance(rets[0].value, ast.Call) and call_name(rets[0].value) == "EventTime":
        a0 = rets[0].value.args[0]
        inner = a0.args[0] if isinstance(a0, ast.Call) and call_name(a0) in ("round", "int") and a0.args else a0
        if isinstance(inner, ast.BinOp) and isinstance(inner.op, ast.Add):
            parts = {norm(inner.left), norm(inner.right)}
            ok = "self.time" in parts and len(parts) == 2 and norm(rets[0].value.args[1]) == "self.unit"
            other = [p for p in (inner.left, inner.right) if norm(p) != "self.time"][0]
            fv = _resolve(f, other)
            # max(min_bound, min(max_bound, uniform(lo, hi)))
            shape = isinstance(fv, ast.Call) and call_name(fv) == "max" and len(fv.args) == 2
            if shape:
                mins = [x for x in fv.args if isinstance(x, ast.Call) and call_name(x) == "min"]
                lows = [x for x in fv.args if x not in mins]
                shape = len(mins) == 1 and len(lows) == 1 and norm(lows[0]) == "min_bound" and any(norm(y) == "max_bound" for y in mins[0].args) \
                    and any(isinstance(y, ast.Call) and call_name(y) == "uniform" for y in mins[0].args)
            ok = ok and shape
    ctx.check(ok, "C03.R6", "EventTime.fuzz|time + max(min_bound, min(max_bound, uniform(..)))", loc(f), "clamped additive fuzz",
              f"fuzz returns `{norm(rets[0].value)[:100] if rets else '?'}`")
    un = [c for c in calls_in(f, "uniform")]
    if un:
        a = [norm(x) for x in un[0].args]
        ok = len(a) == 2 and "min_variance" in a[0] and "max_variance" in a[1] and all("self.time" in x and "/ 100" in x for x in a)
        ctx.check(ok, "C03.R6", "EventTime.fuzz|uniform over [time*lo%, time*hi%]", loc(un[0]), "percentages of the time", f"uniform({a})")
    up = [x for x in ast.walk(f) if isinstance(x, ast.Assign) and isinstance(x.targets[0], ast.Tuple) and isinstance(x.value, ast.Name)]
    names = {norm(x.targets[0]): x.value.id for x in up}
    ctx.check(names.get("(min_variance, max_variance)") == "variance" and names.get("(min_bound, max_bound)") == "bounds", "C03.R6",
              "EventTime.fuzz|unpacks (min, max) in order", loc(f), "ok", f"unpacking is {names}")


def r7_step_accounting(ctx: Context) -> None:
    ctx.rule("C03.R7", "Task.step: executed = now + step - last_step; finished exactly when remaining - executed <= 0 "
                       "(remaining := 0), otherwise remaining -= executed and last_step := now + step")
    task = ctx.repo.mod(TASKS).cls("Task")
    fn = method(task, "step")
    ctx.analysed_function(f"{TASKS}::Task.step")
    g = cfgmod.build(fn)
    ex = [n for n in ast.walk(fn) if isinstance(n, ast.Assign) and isinstance(n.targets[0], ast.Name) and "_last_step_time" in norm(n.value)]
    if len(ex) != 1:
        raise AnalysisError("Task.step: executed-time definition not found")
    # a RUNNING task is stepped unless it starts after the end of this step
    gate = [t for t in g.nodes if t.kind == "test" and "start_time" in norm(t.ast)]
    ctx.floor("C03.R7", "not-yet-started gate in Task.step", len(gate), 1)
    want_gate = lin.formula(ast.parse("self.state != TaskState.RUNNING or self.start_time > current_time + step_size", mode="eval").body)
    ctx.check(lin.equivalent(lin.formula(gate[0].ast), want_gate), "C03.R7", "Task.step|skipped only if not RUNNING or starting after this step", loc(gate[0].ast),
              "state != RUNNING or start > now + step", f"Task.step refuses to step under `{norm(gate[0].ast)[:100]}`: a running task whose start "
              "coincides with the end of the step (e.g. a zero-length step at its start instant, the only chance of a zero-runtime task to "
              "report completion) is skipped and never finishes")
    exn = ex[0].targets[0].id
    ok = lin.lin_of(ex[0].value) == lin.lin_of(ast.parse("current_time + step_size - self._last_step_time", mode="eval").body)
    ctx.check(ok, "C03.R7", "Task.step|executed = now + step - last step time", loc(ex[0]), norm(ex[0].value), f"executed time is `{norm(ex[0].value)}`")
    env = {exn: lin.lin_of(ex[0].value)}
    want = lin.formula(ast.parse(f"self._remaining_time - {exn} <= EventTime.zero()", mode="eval").body, env=env)
    tests = [t for t in g.nodes if t.kind == "test" and lin.equivalent(lin.formula(t.ast, env=env), want)]
    rt = [r for r in ast.walk(fn) if isinstance(r, ast.Return) and isinstance(r.value, ast.Constant) and r.value.value is True]
    ctx.floor("C03.R7", "return True in Task.step", len(rt), 1)
    if not tests:
        ctx.violation("C03.R7", "Task.step|finish test", loc(fn), "no test equivalent to `remaining - executed <= 0` decides completion")
        return
    t = tests[0]
    for r in rt:
        ctx.check(g.edge_dominates(t, "T", g.node_of(r)), "C03.R7", "Task.step|True only when remaining - executed <= 0", loc(r),
                  "dominated by the finish test", "Task.step can report completion while execution time remains")
    z = [n for n in ast.walk(fn) if isinstance(n, ast.Assign) and any(is_self_attr(x, "_remaining_time") for x in n.targets)]
    ok = any(lin.lin_of(n.value).is_const() and lin.lin_of(n.value).const == 0 and g.edge_dominates(t, "T", g.node_of(n)) for n in z)
    ctx.check(ok, "C03.R7", "Task.step|remaining := 0 on completion", loc(t.ast), "zeroed", "a completed task keeps a non-zero remaining time (finish() would mark it EVICTED)")
    subs = [n for n in ast.walk(fn) if isinstance(n, ast.AugAssign) and is_self_attr(n.target, "_remaining_time")]
    ok = len(subs) == 1 and isinstance(subs[0].op, ast.Sub) and norm(subs[0].value) == exn and g.edge_dominates(t, "F", g.node_of(subs[0]))
    ctx.check(ok, "C03.R7", "Task.step|remaining -= executed otherwise", loc(subs[0]) if subs else loc(fn), "subtracts the executed time once",
              "the not-finished branch does not subtract exactly the executed time")
    ls = [n for n in ast.walk(fn) if isinstance(n, ast.Assign) and any(is_self_attr(x, "_last_step_time") for x in n.targets)]
    okf = any(lin.lin_of(n.value) == lin.lin_of(ast.parse("current_time + step_size", mode="eval").body) and g.edge_dominates(t, "F", g.node_of(n)) for n in ls)
    okt = any(lin.lin_of(n.value) == lin.lin_of(ast.parse("current_time + self._remaining_time", mode="eval").body) and g.edge_dominates(t, "T", g.node_of(n)) for n in ls)
    ctx.check(okf, "C03.R7", "Task.step|last step time := now + step", loc(fn), "ok", "the executed time would be double counted or lost on the next step")
    ctx.check(okt, "C03.R7", "Task.step|completion instant = now + remaining", loc(fn), "ok", "the completion instant recorded by step() is not now + remaining")
    # the zeroing happens after the completion instant was computed from the old remaining time
    for n in ls:
        if "_remaining_time" in norm(n.value):
            zs = [x for x in z if lin.lin_of(x.value).is_const()]
            ctx.check(bool(zs) and g.dominates(g.node_of(n), g.node_of(zs[0])), "C03.R7", "Task.step|completion instant computed before zeroing", loc(n),
                      "ordered", "remaining time is zeroed before it is used to compute the completion instant")
    # finish(): completion time is the last step time
    fin = method(task, "finish")
    cs = [n for n in ast.walk(fin) if isinstance(n, ast.Assign) and any(is_self_attr(x, "_completion_time") for x in n.targets)]
    ok = bool(cs) and isinstance(cs[0].value, ast.IfExp) and norm(cs[0].value.orelse) == "self._last_step_time" and norm(cs[0].value.body) == "time"
    ctx.check(ok, "C03.R7", "Task.finish|completion time = last step time (or the given time)", loc(cs[0]) if cs else loc(fin),
              "time if time is not None else self._last_step_time", f"completion time is `{norm(cs[0].value) if cs else '?'}`")


def r8_decision_reaches_task(ctx: Context) -> None:
    ctx.rule("C03.R8", "whenever a decision becomes (or replaces) the pending TASK_PLACEMENT event of a task, the task itself is "
                       "re-scheduled with that same decision on every path (Task.schedule sets the runtime the task will execute for)")
    sim = Sim(ctx.repo)
    n = 0
    for name, m in sim.methods.items():
        evs = [e for e in event_constructions(m, "TASK_PLACEMENT") if any(k.arg == "placement" for k in e.keywords)]
        stores = [a for a in ast.walk(m) if isinstance(a, ast.Assign) and isinstance(a.targets[0], ast.Attribute) and a.targets[0].attr == "_placement"
                  and not is_self_attr(a.targets[0])]
        if not evs and not stores:
            continue
        g = cfgmod.build(m)
        sched = [c for c in calls_in(m, "schedule") if isinstance(c.func, ast.Attribute) and norm(c.func.value).endswith(".task")]
        for e in evs + stores:
            pl = next((k.value for k in e.keywords if k.arg == "placement"), None) if isinstance(e, ast.Call) else e.value
            if pl is None:
                continue
            pls = norm(pl)
            if isinstance(e, ast.Call):
                tk = next((k.value for k in e.keywords if k.arg == "task"), None)
                if tk is None or norm(tk) != f"{pls}.task":
                    continue  # re-queued copy of an event that already exists (retry paths): the task keeps its decision
            n += 1
            en = g.node_of(e)
            ok = any(g.dominates(g.node_of(c), en) and norm(c.func.value) == f"{pls}.task" and len(c.args) >= 2 and norm(c.args[1]) == pls for c in sched)
            ctx.check(ok, "C03.R8", f"{qualname(m)}|`{norm(e)[:46]}` preceded by {pls}.task.schedule(.., {pls})", loc(e),
                      "schedule(decision) on every path to the event",
                      f"`{norm(e)[:70]}` installs the decision `{pls}` as the task's pending placement, but some path gets here without "
                      f"`{pls}.task.schedule(..., {pls})`: the task is placed with the new strategy's resources while it still carries "
                      "the runtime of the previous decision")
            if isinstance(e, ast.Assign):
                # the cached event is re-timed to the decision's time on every path that installs the decision
                ev = norm(e.targets[0].value)
                tstores = [a for a in ast.walk(m) if isinstance(a, ast.Assign) and isinstance(a.targets[0], ast.Attribute) and a.targets[0].attr == "_time"
                           and norm(a.targets[0].value) == ev and lin.lin_of(a.value) == lin.lin_of(ast.parse(f"{pls}.placement_time", mode="eval").body)]
                okt = any(g.dominates(g.node_of(t), en) or (g.dominates(en, g.node_of(t)) and not g.reachable(en, g.ret, avoid={g.node_of(t).id})) for t in tstores)
                ctx.check(okt, "C03.R8", f"{qualname(m)}|`{ev}` re-timed to {pls}.placement_time whenever the decision is replaced", loc(e),
                          "event time := decision time on every path",
                          f"`{ev}._placement` is replaced by `{pls}` but some path leaves `{ev}._time` at the previous decision's time: the task "
                          "starts at the old time, earlier (or later) than the time its scheduler chose")
    ctx.floor("C03.R8", "decisions installed as pending placement events", n, 3)


def r9_schedule_installs_decision(ctx: Context, rule: str = "C03.R9") -> None:
    ctx.rule(rule, "Task.schedule installs the whole decision on every accepting path: the placement, its pool and the runtime "
                   "of its strategy as the task's remaining time (a re-planned task runs for the NEW strategy's runtime)")
    task = ctx.repo.mod(TASKS).cls("Task")
    fn = method(task, "schedule")
    ctx.analysed_function(f"{TASKS}::Task.schedule")
    g = cfgmod.build(fn)
    pl = fn.args.args[2].arg
    wanted = {
        "remaining time := runtime of the decided strategy": [c for c in calls_in(fn, "update_remaining_time") if c.args and norm(c.args[0]) == f"{pl}.execution_strategy.runtime"]
        + [a for a in ast.walk(fn) if isinstance(a, ast.Assign) and any(is_self_attr(t, "_remaining_time") for t in a.targets) and norm(a.value) == f"{pl}.execution_strategy.runtime"],
        "placement recorded": [a for a in ast.walk(fn) if isinstance(a, ast.Assign) and any(is_self_attr(t, "_scheduler_placement") for t in a.targets) and norm(a.value) == pl],
        "pool recorded": [a for a in ast.walk(fn) if isinstance(a, ast.Assign) and any(is_self_attr(t, "_worker_pool_id") for t in a.targets) and norm(a.value) == f"{pl}.worker_pool_id"],
    }
    for what, nodes in wanted.items():
        ids = {g.node_of(x).id for x in nodes}
        ok = bool(ids) and not g.reachable_from_entry(g.ret, ids)
        ctx.check(ok, rule, f"Task.schedule|{what} on every accepting path", loc(nodes[0]) if nodes else loc(fn), "must-pass-through",
                  f"Task.schedule can return without `{what}`: a task that is planned again (other strategy, pool or time) keeps part of its "
                  "previous decision, e.g. it occupies the new strategy's resources for the old strategy's runtime")


def run(ctx: Context) -> None:
    ctx.isolate(r1_monotone_clock)
    ctx.isolate(r2_completion_time)
    ctx.isolate(r3_loop_shape)
    ctx.isolate(r4_never_earlier)
    ctx.isolate(c16.r3_ordering_key, rule="C03.R5")
    ctx.isolate(c16.r4_type_priorities, rule="C03.R5")
    ctx.isolate(r6_fuzz_bounds)
    ctx.isolate(r7_step_accounting)
    ctx.isolate(r8_decision_reaches_task)
    ctx.isolate(r9_schedule_installs_decision)
    from . import c04
    ctx.isolate(c04.r1_coindexed, rule="C03.R10")
