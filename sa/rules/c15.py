"""C15 — Clockwork batching: full, same-model, loaded, on-time batches only."""
from __future__ import annotations

import ast
from typing import Dict, List, Optional, Set, Tuple

from .. import cfg as cfgmod
from .. import lin
from ..core import (
    iteration_around,
    resolve_local,
    AnalysisError,
    call_name,
    calls_in,
    dotted,
    enclosing_function,
    is_self_attr,
    loc,
    method,
    methods,
    norm,
    parent,
    qualname,
    src,
)
from ..report import Context

CW = "schedulers/clockwork_scheduler.py"

EXPLANATION = (
    "Static structural analysis of schedulers/clockwork_scheduler.py: Model.add_task refuses a task of another "
    "profile before any insertion and Models.add_task routes by the task's profile id; get_placements refuses a queue "
    "shorter than the strategy's batch size, slices exactly [:batch_size], and all placements of one call share one "
    "freshly built BatchStrategy; every task put into the returned placements is passed to remove_task, which removes "
    "the request from every queue and from the task table, and add_task is idempotent; in run_inference the call of "
    "get_placements is dominated by the model being loaded on that worker and the strategy ranges over the worker's "
    "compatible strategies; a strategy is offered only under now + runtime <= earliest queued deadline, queues are "
    "deadline sorted (bisect.insort with Request.__lt__ on the deadline), expiry pops exactly while deadline < now + "
    "runtime; admission cancels requests with deadline < now + fastest runtime; the virtual placement on the scratch "
    "worker uses the placement's own (batch) strategy. NOT decided: duplicate/late placements across arbitrary arrival histories."
)
ASSUMPTIONS = ["bisect.insort keeps a list sorted with respect to the elements' __lt__"]


def _cls(ctx: Context, name: str) -> ast.ClassDef:
    return ctx.repo.mod(CW).cls(name)


def r1b_deadline_sorted(ctx: Context, rule: str = "C15.R1") -> None:
    """Queues are kept sorted by absolute deadline: the head-of-queue deadline tests (pruning, batch feasibility) speak
    for the whole batch only under this order."""
    if rule != "C15.R1":
        ctx.rule(rule, "Clockwork tests only the head of a strategy queue against the deadline; every request is inserted "
                       "with bisect.insort into every queue and Request.__lt__ orders by the task's absolute deadline, so the "
                       "head has the earliest deadline of any batch taken from the front")
    model = _cls(ctx, "Model")
    fn = method(model, "add_task")
    # inserted into every queue, sorted
    ins = [c for c in calls_in(fn, "insort")]
    ok = False
    for c in ins:
        lp = parent(c)
        while lp is not None and not isinstance(lp, ast.For):
            lp = parent(lp)
        if lp is not None and norm(lp.iter) == "self._request_queues.values()" and norm(c.args[0]) == norm(lp.target) and (dotted(c.func) or "") == "bisect.insort":
            ok = True
    ctx.check(ok, rule, "Model.add_task|request inserted sorted into every strategy queue", loc(fn), "for q in queues: bisect.insort(q, request)",
              "requests are not kept deadline-sorted in every queue")
    req = [c for c in model.body if isinstance(c, ast.ClassDef) and c.name == "Request"]
    if not req:
        raise AnalysisError("Model.Request not found")
    lt = method(req[0], "__lt__")
    r = [x for x in ast.walk(lt) if isinstance(x, ast.Return)]
    want = lin.formula(ast.parse("self.deadline < other.deadline", mode="eval").body)
    ctx.check(len(r) == 1 and lin.equivalent(lin.formula(r[0].value), want), rule, "Model.Request.__lt__|orders by deadline", loc(lt), "deadline order",
              f"requests are ordered by `{norm(r[0].value) if r else '?'}`")
    dl = methods(req[0]).get("deadline")
    ctx.check(dl is not None and any(isinstance(x, ast.Return) and norm(x.value) == "self._task.deadline" for x in ast.walk(dl)), rule,
              "Model.Request.deadline|the task's deadline", loc(dl) if dl else loc(req[0]), "ok", "Request.deadline is not the task's deadline")


def r1_one_model_per_queue(ctx: Context) -> None:
    ctx.rule("C15.R1", "Model.add_task refuses a foreign profile before inserting; Models.add_task routes by task.profile.id")
    model = _cls(ctx, "Model")
    fn = method(model, "add_task")
    ctx.analysed_function(f"{CW}::Model.add_task")
    g = cfgmod.build(fn)
    guards = [t for t in g.nodes if t.kind == "test" and isinstance(t.ast, ast.Compare) and isinstance(t.ast.ops[0], ast.NotEq)
              and {norm(t.ast.left), norm(t.ast.comparators[0])} == {"task.profile", "self._profile"}
              and any(isinstance(x, ast.Raise) for x in parent(t.ast).body)]
    inserts = [c for c in calls_in(fn, "insort")] + [c for c in calls_in(fn) if call_name(c) in ("append", "insert") and "queue" in norm(c.func.value)] + [a for a in ast.walk(fn) if isinstance(a, ast.Assign) and isinstance(a.targets[0], ast.Subscript)
                                                       and is_self_attr(a.targets[0].value, "_tasks")]
    ctx.floor("C15.R1", "insertions in Model.add_task", len(inserts), 2)
    ok = bool(guards) and all(g.edge_dominates(guards[0], "F", g.node_of(i)) for i in inserts)
    ctx.check(ok, "C15.R1", "Model.add_task|foreign profile refused before any insertion", loc(fn), "task.profile != self._profile -> raise",
              "a request of another model can be inserted into this model's queues (batches would mix models)")
    # idempotent
    idem = [t for t in g.nodes if t.kind == "test" and norm(t.ast) in ("task not in self._tasks",)]
    ok = bool(idem) and all(g.edge_dominates(idem[0], "T", g.node_of(i)) for i in inserts)
    ctx.check(ok, "C15.R1", "Model.add_task|idempotent on the task table", loc(fn), "insert only if task not in self._tasks",
              "a task offered in two invocations is queued twice and can be placed twice")
    r1b_deadline_sorted(ctx)
    models = _cls(ctx, "Models")
    ma = method(models, "add_task")
    calls = [c for c in calls_in(ma, "add_task") if isinstance(c.func.value, ast.Subscript)]
    ok = bool(calls) and ast.unparse(resolve_local(ma, calls[0].func.value)) == "self._models[task.profile.id]" and norm(calls[0].args[0]) == "task"
    ctx.check(ok, "C15.R1", "Models.add_task|routes by the task's profile id", loc(ma), "self._models[task.profile.id].add_task(task)", "routing changed")
    mi = method(model, "id")
    ctx.check(any(isinstance(x, ast.Return) and norm(x.value) == "self._profile.id" for x in ast.walk(mi)), "C15.R1", "Model.id|profile id", loc(mi), "ok", "Model.id changed")
    am = method(models, "add_model")
    ok = any(isinstance(a, ast.Assign) and norm(a.targets[0]) == "self._models[model.id]" and norm(a.value) == "model" for a in ast.walk(am))
    ctx.check(ok, "C15.R1", "Models.add_model|keyed by model id", loc(am), "ok", "models are not keyed by their id")


def r2_full_batches(ctx: Context) -> None:
    ctx.rule("C15.R2", "get_placements refuses a queue shorter than batch_size, takes exactly [:batch_size], one fresh BatchStrategy per call")
    model = _cls(ctx, "Model")
    fn = method(model, "get_placements")
    ctx.analysed_function(f"{CW}::Model.get_placements")
    g = cfgmod.build(fn)
    want = lin.formula(ast.parse("len(self._request_queues[strategy]) < strategy.batch_size", mode="eval").body)
    guards = [t for t in g.nodes if t.kind == "test" and lin.equivalent(lin.formula(resolve_local(fn, t.ast)), want) and any(isinstance(x, ast.Raise) for x in parent(t.ast).body)]
    creates = [c for c in calls_in(fn, "create_task_placement")]
    ctx.floor("C15.R2", "placement creation in get_placements", len(creates), 1)
    ok = bool(guards) and g.edge_dominates(guards[0], "F", g.node_of(creates[0]))
    ctx.check(ok, "C15.R2", "Model.get_placements|short queue refused", loc(fn), "len(queue) < batch_size -> raise",
              "a batch smaller than the strategy's batch size can be placed")
    # the loop (or comprehension) that builds the placements; a local that names the slice is read through
    lp = iteration_around(creates[0])
    ok = lp is not None and ast.unparse(resolve_local(fn, lp.iter)) == "self._request_queues[strategy][:strategy.batch_size]"
    ctx.check(ok, "C15.R2", "Model.get_placements|exactly the first batch_size requests of that strategy's queue", loc(lp.node) if lp else loc(fn),
              "queue[strategy][:batch_size]", f"the batch is drawn from `{norm(lp.iter) if lp else '?'}`")
    bs = [c for c in calls_in(fn, "BatchStrategy")]
    ok = len(bs) == 1 and lp is not None and not any(x is bs[0] for x in ast.walk(lp.node)) and \
        any(k.arg == "execution_strategy" and norm(k.value) == "strategy" for k in bs[0].keywords) or (len(bs) == 1 and bs[0].args and norm(bs[0].args[0]) == "strategy")
    ctx.check(bool(ok), "C15.R2", "Model.get_placements|one BatchStrategy built from the chosen strategy, outside the loop", loc(bs[0]) if bs else loc(fn),
              "shared by the whole batch", "members of one batch do not share a single BatchStrategy of the chosen strategy")
    if bs:
        var = norm(parent(bs[0]).targets[0]) if isinstance(parent(bs[0]), ast.Assign) else None
        kw = {k.arg: norm(k.value) for k in creates[0].keywords}
        ok = var is not None and kw.get("execution_strategy") == var and kw.get("task") == f"{norm(lp.target)}.task" and kw.get("placement_time") == "sim_time" \
            and kw.get("worker_pool_id") == "worker_pool_id" and kw.get("worker_id") == "worker_id"
        ctx.check(ok, "C15.R2", "Model.get_placements|placement carries the request's task, now, the worker and the batch strategy", loc(creates[0]), "ok",
                  f"placement built with {kw}")
    bcls = ctx.repo.mod("workload/strategy.py").cls("BatchStrategy")
    init = method(bcls, "__init__")
    ok = any(k.arg == "batch_size" and norm(k.value) == "execution_strategy.batch_size" for c in calls_in(init) for k in c.keywords) and \
        any(k.arg == "runtime" and "execution_strategy.runtime" in norm(k.value) for c in calls_in(init) for k in c.keywords)
    ctx.check(ok, "C15.R2", "BatchStrategy.__init__|keeps batch size and runtime of the strategy", loc(init), "ok", "BatchStrategy alters batch size / runtime")


def r3_placed_once(ctx: Context) -> None:
    ctx.rule("C15.R3", "every task returned in placements is removed from the model; remove_task clears every queue and the table")
    model = _cls(ctx, "Model")
    fn = method(model, "get_placements")
    creates = [c for c in calls_in(fn, "create_task_placement")]
    it = iteration_around(creates[0])
    lp = it.node if it is not None else None
    rq = norm(it.target) if it is not None else "request"
    apps = [c for c in calls_in(lp, "append")] if lp is not None else []
    rem_list = [norm(c.func.value) for c in apps if norm(c.args[0]) == f"{rq}.task"]
    rm_loops = [l for l in ast.walk(fn) if isinstance(l, ast.For) and rem_list and norm(l.iter) == rem_list[0]]
    ok = bool(rm_loops) and any(call_name(c) == "remove_task" and is_self_attr(c.func) and norm(c.args[0]) == norm(rm_loops[0].target) for c in calls_in(rm_loops[0]))
    if not ok and it is not None:
        # a second loop over the very same batch (the slice, or the local that names it) that removes `<its variable>.task`
        same = [l for l in ast.walk(fn) if isinstance(l, ast.For) and l is not lp and ast.unparse(resolve_local(fn, l.iter)) == ast.unparse(resolve_local(fn, it.iter))
                and (isinstance(l.iter, ast.Name) or not any(call_name(c) in ("remove_task", "remove", "pop", "clear") and lp.lineno <= c.lineno < l.lineno for c in calls_in(fn)))
                and any(call_name(c) == "remove_task" and is_self_attr(c.func) and c.args and norm(c.args[0]) == f"{norm(l.target)}.task" for c in calls_in(l))]
        if same:
            ok, rm_loops = True, same
    direct = any(call_name(c) == "remove_task" and norm(c.args[0]) == f"{rq}.task" and lp is not None and any(c is x for x in ast.walk(lp)) for c in calls_in(fn))
    ctx.check(ok or direct, "C15.R3", "Model.get_placements|every placed task is removed from the model", loc(fn), "remove_task for each placed task",
              "a placed request stays queued and can be placed again by a later invocation")
    g = cfgmod.build(fn)
    if ok:
        # nothing can leave the function between the placement loop and the removal loop
        rets = [r for r in ast.walk(fn) if isinstance(r, ast.Return)]
        ctx.check(all(g.dominates(g.node_of(rm_loops[0]), g.node_of(r)) for r in rets), "C15.R3", "Model.get_placements|removal precedes every return", loc(fn),
                  "ok", "the function can return placements without removing their tasks")
    rt = method(model, "remove_task")
    ctx.analysed_function(f"{CW}::Model.remove_task")
    loops = [l for l in ast.walk(rt) if isinstance(l, ast.For) and norm(l.iter) == "self._request_queues.values()"]
    ok = bool(loops) and any(call_name(c) == "remove" and norm(c.func.value) == norm(loops[0].target) for c in calls_in(loops[0])) \
        and not any(isinstance(x, (ast.Break, ast.Return)) for x in ast.walk(loops[0]))
    ctx.check(ok, "C15.R3", "Model.remove_task|request removed from every strategy queue", loc(rt), "for q in queues: q.remove(request)",
              "the request survives in the queue of another strategy and can be batched again")
    dels = [d for d in ast.walk(rt) if isinstance(d, ast.Delete) and norm(d.targets[0]) == "self._tasks[task]"]
    ctx.check(bool(dels), "C15.R3", "Model.remove_task|task dropped from the table", loc(rt), "del self._tasks[task]", "the task table keeps the placed task")
    rq_lookup = any(isinstance(a, ast.Assign) and norm(a.value) == "self._tasks[task]" for a in ast.walk(rt))
    ctx.check(rq_lookup, "C15.R3", "Model.remove_task|removes the request registered for that task", loc(rt), "ok", "removed request is not the task's own")


def r4_loaded_and_fitting(ctx: Context) -> None:
    ctx.rule("C15.R4", "run_inference: get_placements only for a model that is loaded on the worker, with a strategy from the "
                       "worker's compatible strategies; the scratch worker is charged with the placement's own strategy")
    sch = _cls(ctx, "ClockworkScheduler")
    fn = method(sch, "run_inference")
    ctx.analysed_function(f"{CW}::ClockworkScheduler.run_inference")
    g = cfgmod.build(fn)
    gp = [c for c in calls_in(fn, "get_placements")]
    ctx.floor("C15.R4", "get_placements call", len(gp), 1)
    gn = g.node_of(gp[0])
    want = lin.formula(ast.parse("worker.is_available(model.profile) != EventTime.zero()", mode="eval").body)
    tests = [t for t in g.nodes if t.kind == "test" and (lin.equivalent(lin.formula(t.ast), want) or lin.equivalent(lin.formula(t.ast), lin.f_not(want)))]
    ok = False
    for t in tests:
        pol = "F" if lin.equivalent(lin.formula(t.ast), want) else "T"
        if g.edge_dominates(t, pol, gn):
            ok = True
    ctx.check(ok, "C15.R4", "ClockworkScheduler.run_inference|batch placed only where the model is loaded", loc(gp[0]), "is_available(profile) == zero dominates",
              "a batch can be placed on a worker that has not (finished) loading the model")
    lp = parent(gp[0])
    while lp is not None and not isinstance(lp, ast.For):
        lp = parent(lp)
    ok = lp is not None and isinstance(lp.iter, ast.Call) and call_name(lp.iter) == "get_compatible_strategies" and norm(lp.iter.func.value) == "worker"
    kw = {k.arg: norm(k.value) for k in gp[0].keywords}
    ok = ok and kw.get("strategy") == norm(lp.target) and kw.get("worker_id") == "worker.id" and kw.get("worker_pool_id") == "worker_pool.id" \
        and kw.get("sim_time") == "current_time"
    ctx.check(ok, "C15.R4", "ClockworkScheduler.run_inference|strategy from the worker's compatible strategies, placed on that worker now", loc(gp[0]), "ok",
              f"get_placements called with {kw} inside `for ... in {norm(lp.iter) if lp else '?'}`")
    # the strategies offered come from the model's own availability computation
    src_ok = isinstance(lp.iter, ast.Call) and lp.iter.args and norm(lp.iter.args[0]) == "model_strategies"
    ctx.check(src_ok, "C15.R4", "ClockworkScheduler.run_inference|only strategies the model declared available (on time, full)", loc(lp) if lp else loc(fn), "ok",
              "strategies other than the model's currently available ones are tried")
    pt = [c for c in calls_in(fn, "place_task")]
    ok = bool(pt) and {k.arg: norm(k.value) for k in pt[0].keywords} == {"task": "placement.task", "execution_strategy": "placement.execution_strategy"} \
        and norm(pt[0].func.value) == "worker"
    ctx.check(ok, "C15.R4", "ClockworkScheduler.run_inference|scratch worker charged with the placement's own strategy", loc(pt[0]) if pt else loc(fn), "ok",
              "later batches do not see the occupancy created by this batch")
    sc = method(sch, "schedule")
    ri = [c for c in calls_in(sc, "run_inference")]
    cp = [a for a in ast.walk(sc) if isinstance(a, ast.Assign) and isinstance(a.value, ast.Call) and call_name(a.value) == "copy" and norm(a.value.args[0]) == "worker_pools"]
    ok = bool(ri) and bool(cp) and any(k.arg == "worker_pools" and norm(k.value) == norm(cp[0].targets[0]) for k in ri[0].keywords)
    ctx.check(ok, "C15.R4", "ClockworkScheduler.schedule|inference runs on a copy of the worker pools", loc(sc), "copy(worker_pools)", "inference runs on the live cluster")


def r5_on_time(ctx: Context, rule: str = "C15.R5") -> None:
    ctx.rule(rule, "a strategy is available only if batch_size <= len(queue) and now + runtime <= earliest queued deadline; "
                   "expiry pops exactly while deadline < now + runtime")
    model = _cls(ctx, "Model")
    fn = method(model, "get_available_execution_strategies")
    ctx.analysed_function(f"{CW}::Model.get_available_execution_strategies")
    whiles = [w for w in ast.walk(fn) if isinstance(w, ast.While)]
    ok = False
    if whiles:
        w = whiles[0]
        lp = parent(w)
        q = None
        strat = None
        if isinstance(lp, ast.For) and norm(lp.iter) == "self._request_queues.items()" and isinstance(lp.target, ast.Tuple):
            strat, q = [norm(e) for e in lp.target.elts]
        if q:
            f = lin.formula(w.test)
            want = lin.formula(ast.parse(f"len({q}) > 0 and {q}[0].deadline < current_time + {strat}.runtime", mode="eval").body)
            ok = lin.equivalent(f, want) and any(call_name(c) == "pop" and norm(c.func.value) == q and c.args and norm(c.args[0]) == "0" for c in calls_in(w))
    ctx.check(ok, rule, "Model.get_available_execution_strategies|expiry: pop head while deadline < now + runtime", loc(whiles[0]) if whiles else loc(fn),
              "exact expiry test", "requests are expired under a different condition (late requests stay, or on-time ones are dropped)")
    adds = [c for c in calls_in(fn, "append") if norm(c.func.value) == "strategies"]
    g = cfgmod.build(fn)
    ok = False
    if adds:
        an = g.node_of(adds[0])
        lp = parent(adds[0])
        while lp is not None and not isinstance(lp, ast.For):
            lp = parent(lp)
        if lp is not None and isinstance(lp.target, ast.Tuple):
            strat, q = [norm(e) for e in lp.target.elts]
            want = lin.formula(ast.parse(f"{strat}.batch_size <= len({q}) and current_time + {strat}.runtime <= {q}[0].deadline", mode="eval").body)
            ctl = [lin.formula(t.ast) for t in g.nodes if t.kind == "test" and g.edge_dominates(t, "T", an)]
            ok = any(lin.entails(f, want) for f in ctl) and norm(lp.iter) == "self._request_queues.items()"
            tup = adds[0].args[0]
            ok = ok and isinstance(tup, ast.Tuple) and norm(tup.elts[-1]) == strat
    ctx.check(ok, rule, "Model.get_available_execution_strategies|available iff full batch and on time for the earliest deadline", loc(adds[0]) if adds else loc(fn),
              "batch_size <= len(queue) and now + runtime <= queue[0].deadline",
              "a strategy is offered although its batch is not full or it would finish after the earliest queued deadline")
    final = [c for c in calls_in(fn, "add_strategy")]
    ok = bool(final)
    if final:
        lp = parent(final[0])
        while lp is not None and not isinstance(lp, ast.For):
            lp = parent(lp)
        ok = lp is not None and "strategies" in norm(lp.iter)
    ctx.check(ok, rule, "Model.get_available_execution_strategies|returns only the collected strategies", loc(fn), "ok", "other strategies are returned")
    # num_strategies bookkeeping: request dropped once it left every queue
    decs = [a for a in ast.walk(fn) if isinstance(a, ast.AugAssign) and "num_strategies" in norm(a.target)]
    rm = [c for c in calls_in(fn, "remove_task")]
    ok = bool(decs) and bool(rm) and any(isinstance(parent(c.func) if False else parent(parent(c)), ast.If) for c in rm)
    ctx.check(bool(decs) and bool(rm), rule, "Model.get_available_execution_strategies|expired everywhere -> dropped from the model", loc(fn), "ok",
              "requests expired from every queue stay in the model's task table")


def r6_admission(ctx: Context, rule: str = "C15.R6") -> None:
    ctx.rule(rule, "admission: enforce_deadlines and deadline < now + fastest runtime -> cancellation, and the task is not queued")
    sch = _cls(ctx, "ClockworkScheduler")
    fn = method(sch, "run_admission")
    ctx.analysed_function(f"{CW}::ClockworkScheduler.run_admission")
    g = cfgmod.build(fn)
    want = lin.formula(ast.parse("self.enforce_deadlines and task.deadline < current_time + task.available_execution_strategies.get_fastest_strategy().runtime",
                                 mode="eval").body)
    tests = [t for t in g.nodes if t.kind == "test" and lin.equivalent(lin.formula(t.ast), want)]
    canc = [c for c in calls_in(fn, "create_task_cancellation")]
    adds = [c for c in calls_in(fn, "add_task")]
    ok = bool(tests) and bool(canc) and bool(adds) and g.edge_dominates(tests[0], "T", g.node_of(canc[0])) and g.edge_dominates(tests[0], "F", g.node_of(adds[0]))
    ctx.check(ok, rule, "ClockworkScheduler.run_admission|hopeless request cancelled, others queued", loc(fn),
              "deadline < now + fastest -> cancel else add_task", "admission control does not cancel exactly the requests that cannot meet their deadline")
    init = method(sch, "__init__")
    ok = any(k.arg == "enforce_deadlines" and isinstance(k.value, ast.Constant) and k.value.value is True for c in calls_in(init) for k in c.keywords)
    ctx.check(ok, rule, "ClockworkScheduler.__init__|deadline enforcement always on", loc(init), "enforce_deadlines=True", "Clockwork no longer enforces deadlines")
    sc = method(sch, "schedule")
    ra = [c for c in calls_in(sc, "run_admission")]
    ok = bool(ra) and {k.arg: norm(k.value) for k in ra[0].keywords} == {"current_time": "sim_time", "tasks_to_schedule": "tasks_to_be_scheduled"}
    ctx.check(ok, rule, "ClockworkScheduler.schedule|admission over the offered tasks at the current time", loc(sc), "ok", "admission not run over the offered tasks")
    ext = [c for c in calls_in(sc, "extend") if norm(c.func.value) == "placements"]
    ctx.check(len(ext) >= 2, rule, "ClockworkScheduler.schedule|cancellations and placements both returned", loc(sc), f"{len(ext)} extends", "results are dropped")


def r8_one_scratch_view(ctx: Context) -> None:
    ctx.rule("C15.R8", "ClockworkScheduler.schedule: priorities, the load/evict phase and the inference phase all work on the one "
                       "scratch copy of the cluster made at the start of the invocation, so that inference sees the evictions just decided")
    cls = _cls(ctx, "ClockworkScheduler")
    fn = method(cls, "schedule")
    scratch = [a.targets[0].id for a in ast.walk(fn) if isinstance(a, ast.Assign) and isinstance(a.targets[0], ast.Name)
               and isinstance(a.value, ast.Call) and call_name(a.value) in ("copy", "deepcopy")]
    ctx.floor("C15.R8", "scratch copy of the cluster in ClockworkScheduler.schedule", len(scratch), 1)
    n = 0
    for c in calls_in(fn):
        if call_name(c) in ("run_load", "run_inference", "refresh_priorities") and is_self_attr(c.func if call_name(c) != "refresh_priorities" else c.func.value):
            wp = next((k.value for k in c.keywords if k.arg == "worker_pools"), None)
            if wp is None:
                continue
            n += 1
            ctx.check(isinstance(wp, ast.Name) and wp.id == scratch[0], "C15.R8", f"ClockworkScheduler.schedule|{call_name(c)} on the invocation's scratch cluster", loc(c),
                      f"worker_pools={scratch[0]}",
                      f"`{call_name(c)}` is given `{norm(wp)[:40]}` instead of the invocation's scratch copy `{scratch[0]}`: the phases no longer share "
                      "one view (evictions decided by the load phase are invisible to inference, which then batches on a worker whose model "
                      "was just evicted; or the live cluster is changed)")
    ctx.floor("C15.R8", "phases given a cluster view", n, 3)


def r9_never_preempts(ctx: Context) -> None:
    ctx.rule("C15.R9", "ClockworkScheduler never asks for running work back: its constructor leaves BaseScheduler's `preemptive` at False (or passes the "
                       "constant), so schedule() is offered waiting requests only - a request already executing in a batch is not queued a second time")
    cls = ctx.repo.mod(CW).cls("ClockworkScheduler")
    init = method(cls, "__init__")
    ctx.analysed_function(f"{CW}::ClockworkScheduler.__init__")
    sup = [c for c in calls_in(init, "__init__") if "super" in norm(c.func)]
    ctx.floor("C15.R9", "BaseScheduler.__init__ call in ClockworkScheduler.__init__", len(sup), 1)
    for c in sup:
        kw = next((k.value for k in c.keywords if k.arg == "preemptive"), c.args[0] if c.args else None)
        splat = any(k.arg is None for k in c.keywords)
        ok = (kw is None and not splat) or (isinstance(kw, ast.Constant) and kw.value is False)
        ctx.check(ok, "C15.R9", "ClockworkScheduler.__init__|preemptive stays False", loc(c), "not forwarded",
                  f"`preemptive={norm(kw) if kw is not None else '**...'}` reaches BaseScheduler: with it set, get_schedulable_tasks hands RUNNING tasks back to "
                  "schedule(), which queues them again and places them in a second batch while the first still executes")
    sets = [a for a in ast.walk(cls) if isinstance(a, (ast.Assign, ast.AugAssign, ast.AnnAssign))
            and any(is_self_attr(t, "_preemptive") for t in (a.targets if isinstance(a, ast.Assign) else [a.target]))]
    ctx.check(not sets, "C15.R9", "ClockworkScheduler|does not set _preemptive itself", loc(sets[0]) if sets else loc(cls), "never written", "the flag is written directly")


def r10_request_identity(ctx: Context) -> None:
    ctx.rule("C15.R10", "Model.Request.__eq__ identifies a request by its task's id (or the task object): names repeat across invocations of a job, and "
                        "remove_task / `in request_queue` rely on this equality")
    cls = ctx.repo.mod(CW).cls("Model")
    req = next((c for c in cls.body if isinstance(c, ast.ClassDef) and c.name == "Request"), None)
    if req is None:
        raise AnalysisError("Model.Request not found")
    eq = methods(req).get("__eq__")
    if eq is None:
        raise AnalysisError("Model.Request.__eq__ not found")
    ctx.analysed_function(f"{CW}::Model.Request.__eq__")
    other = eq.args.args[1].arg
    rets = [r for r in ast.walk(eq) if isinstance(r, ast.Return) and r.value is not None]
    ctx.floor("C15.R10", "return in Model.Request.__eq__", len(rets), 1)
    for r in rets:
        v = r.value
        ok = False
        if isinstance(v, ast.Compare) and len(v.ops) == 1 and isinstance(v.ops[0], (ast.Eq, ast.Is)):
            sides = sorted([norm(v.left), norm(v.comparators[0])])
            for task_attr in ("_task", "task"):
                for suffix in (".id", ""):
                    if sides == sorted([f"self.{task_attr}{suffix}", f"{other}.{task_attr}{suffix}"]):
                        ok = True
        if isinstance(v, ast.Constant) and v.value is False or norm(v) == "NotImplemented":
            ok = True  # refusal for a foreign type
        ctx.check(ok, "C15.R10", "Model.Request.__eq__|same task id", loc(r), norm(v)[:60],
                  f"requests are compared by `{norm(v)[:70]}`: two invocations that share that value are one request to remove_task / `in`, so the wrong request "
                  "leaves the queue and a task is batched twice or never")


def run(ctx: Context) -> None:
    ctx.isolate(r1_one_model_per_queue)
    ctx.isolate(r2_full_batches)
    ctx.isolate(r3_placed_once)
    ctx.isolate(r4_loaded_and_fitting)
    ctx.isolate(r5_on_time)
    ctx.isolate(r6_admission)
    ctx.isolate(r8_one_scratch_view)
    ctx.isolate(r9_never_preempts)
    ctx.isolate(r10_request_identity)
    from . import c04
    ctx.isolate(c04.r4_r5_copies, rule4="C15.R4c", rule5="C15.R4d")
    from . import c16
    ctx.isolate(c16.r6_no_raw_time_numbers, rule="C15.R7", files=("workload/strategy.py", "workload/tasks.py", "workload/profile.py", "schedulers/clockwork_scheduler.py", "workers/"), floor=10)
