"""C16 — Simulated time is an exact, totally ordered integer quantity; event queue order."""
from __future__ import annotations

import ast
from typing import Dict, List, Optional, Tuple

from .. import cfg as cfgmod
from .. import lin
from ..anchors import SIM, UTILS
from ..core import (
    AnalysisError,
    call_name,
    calls_in,
    dotted,
    enclosing_class,
    enclosing_function,
    is_self_attr,
    loc,
    method,
    methods,
    norm,
    parent,
    qualname,
    src,
)
from ..report import Context
from ..typestate import enum_members, enum_orders_by_value

EXPLANATION = (
    "Static structural analysis of utils.py::EventTime and simulator.py::Event/EventQueue/EventType: every "
    "in-place re-timing of a queued event is followed by reheapify() on all paths and remove_event "
    "re-heapifies; the heap's backing list is touched only through heappush/heappop/remove+heapify/[0]/len/"
    "read-only iteration and never from outside EventQueue; Event.__lt__ is the lexicographic key (time, type "
    "priority, task unique name) on all its paths; the EventType integer priorities satisfy the documented "
    "relations and are distinct; EventTime: coarsening conversions raise before converting, mixed-unit "
    "addition converts the coarser operand to the finer unit, sub/eq/lt are defined through the normalised "
    "difference, hash normalises to microseconds, constructor rejects non-int, unit ratios are 1/1e3/1e6. "
    "NOT decided: exactness of int(time*ratio) through floating point below 2^53 (numeric), algebraic laws "
    "over all values, heap order of arbitrary operation sequences (follows from heapq given the above)."
)
ASSUMPTIONS = [
    "heapq maintains the heap invariant when only heappush/heappop/heapify touch the list",
    "Python's functools.total_ordering derives the remaining comparisons from __lt__ and __eq__",
]

REQUIRED_ORDER = [
    ("TASK_CANCEL", "TASK_RELEASE"), ("EVICT_PROFILE", "TASK_RELEASE"), ("TASK_FINISHED", "TASK_RELEASE"),
    ("TASK_FINISHED", "TASK_PLACEMENT"), ("TASK_RELEASE", "TASK_PLACEMENT"), ("TASK_PLACEMENT", "SCHEDULER_START"),
    ("TASK_RELEASE", "SCHEDULER_START"), ("SCHEDULER_START", "SCHEDULER_FINISHED"), ("SCHEDULER_FINISHED", "SIMULATOR_END"),
    ("TASK_PREEMPT", "TASK_MIGRATION"), ("TASK_MIGRATION", "TASK_PLACEMENT"), ("SIMULATOR_START", "TASK_CANCEL"),
    ("TASK_GRAPH_RELEASE", "TASK_RELEASE"), ("UPDATE_WORKLOAD", "SCHEDULER_START"), ("LOAD_PROFILE", "TASK_PLACEMENT"),
    ("EVICT_PROFILE", "LOAD_PROFILE"), ("TASK_FINISHED", "SCHEDULER_START"), ("TASK_CANCEL", "TASK_PLACEMENT"),
]


def r1_reheapify(ctx: Context, rule="C16.R1") -> None:
    ctx.rule(rule, "every in-place store to a queued event's _time is followed by reheapify() on every path to "
                   "the function exit; EventQueue.remove_event re-heapifies after list.remove")
    mod = ctx.repo.mod(SIM)
    n = 0
    for node in ast.walk(mod.tree):
        if isinstance(node, (ast.Assign, ast.AugAssign)):
            ts = node.targets if isinstance(node, ast.Assign) else [node.target]
            for t in ts:
                if isinstance(t, ast.Attribute) and t.attr == "_time" and not is_self_attr(t):
                    n += 1
                    fn = enclosing_function(node)
                    g = cfgmod.build(fn)
                    sn = g.node_of(node)
                    reh = {g.node_of(c).id for c in calls_in(fn, "reheapify")} | {g.node_of(c).id for c in calls_in(fn, "heapify")}
                    ok = bool(reh) and not g.reachable(sn, g.ret, avoid=reh)
                    ctx.check(ok, rule, f"{qualname(node)}|`{norm(node)[:60]}` then reheapify", loc(node),
                              "reheapify() post-dominates the store",
                              f"`{norm(node)[:70]}` changes the time of an event that is in the heap and some path "
                              "leaves the function without reheapify(): later pops can come out of time order")
    ctx.floor(rule, "in-place re-timings of queued events", n, 2)
    eq = mod.cls("EventQueue")
    rm = method(eq, "remove_event")
    g = cfgmod.build(rm)
    # every statement of remove_event that changes the backing list (method call, subscript store, del, sift helper)
    muts = []
    for node in ast.walk(rm):
        if isinstance(node, ast.Call) and isinstance(node.func, ast.Attribute) and is_self_attr(node.func.value, "_event_queue") \
                and node.func.attr in ("remove", "pop", "clear", "insert", "append", "extend", "sort", "reverse"):
            muts.append(node)
        elif isinstance(node, ast.Subscript) and is_self_attr(node.value, "_event_queue") and isinstance(node.ctx, (ast.Store, ast.Del)):
            muts.append(node)
        elif isinstance(node, ast.Call) and any(is_self_attr(a, "_event_queue") for a in node.args) \
                and call_name(node) not in ("heapify", "len", "list", "sorted", "iter", "min", "filter"):
            muts.append(node)
    ctx.floor(rule, "statements of EventQueue.remove_event that change the heap list", len(muts), 1)
    reh = {g.node_of(c).id for c in calls_in(rm, "reheapify")} | {g.node_of(c).id for c in calls_in(rm, "heapify")}
    for mnode in muts:
        ok = bool(reh) and not g.reachable(g.node_of(mnode), g.ret, avoid=reh)
        ctx.check(ok, rule, f"EventQueue.remove_event|heapify after `{norm(mnode)[:50]}`", loc(mnode), "re-heapified",
                  f"`{norm(mnode)[:60]}` changes the heap's backing list and some path leaves remove_event without "
                  "heapify(): the heap shape is not restored and later pops can come out of (time, type) order")
    rh = method(eq, "reheapify")
    hcalls = [c for c in calls_in(rh) if dotted(c.func) == "heapq.heapify" and c.args and is_self_attr(c.args[0], "_event_queue")]
    ok = bool(hcalls)
    ctx.check(ok, rule, "EventQueue.reheapify|heapq.heapify(self._event_queue)", loc(rh), "heapify on the backing list",
              "reheapify does not heapify the backing list")
    if hcalls:
        # ... on every path: a size (or any other) guard leaves small queues out of order after an in-place re-timing
        grh = cfgmod.build(rh)
        every = not grh.reachable_from_entry(grh.ret, {grh.node_of(c).id for c in hcalls})
        ctx.check(every, rule, "EventQueue.reheapify|heapify on every path", loc(hcalls[0]), "unconditional",
                  "some path through reheapify() skips heapq.heapify: after a queued event was re-timed in place the queue is left out of order "
                  "on that path (e.g. a two-element queue whose later event was pulled to the front)")


ALLOWED_LIST_USES = {"heappush", "heappop", "heapify", "len", "filter", "list", "iter", "sorted", "min"}


def r2_encapsulation(ctx: Context, rule="C16.R2") -> None:
    ctx.rule(rule, "the heap's backing list is used only through heappush/heappop/remove+heapify/[0]/len/read-only "
                   "iteration inside EventQueue, and never reached from outside it")
    mod = ctx.repo.mod(SIM)
    eq = mod.cls("EventQueue")
    n = 0
    for node in ast.walk(eq):
        if is_self_attr(node, "_event_queue"):
            n += 1
            p = parent(node)
            fn = enclosing_function(node)
            key = f"EventQueue.{fn.name if fn else '?'}|use `{norm(p)[:50]}`"
            ok = False
            why = ""
            if isinstance(p, ast.Assign) and node in p.targets:
                ok = fn is not None and fn.name == "__init__" and isinstance(p.value, ast.List) and not p.value.elts
                why = "assigned outside __init__"
            elif isinstance(p, ast.Call) and node in p.args:
                ok = call_name(p) in ALLOWED_LIST_USES
                why = f"passed to {call_name(p)}"
            elif isinstance(p, ast.Attribute) and p.value is node:
                ok = p.attr == "remove"
                why = f".{p.attr}() on the heap list"
            elif isinstance(p, ast.Subscript) and p.value is node:
                ok = isinstance(p.ctx, ast.Load) and isinstance(p.slice, ast.Constant) and p.slice.value == 0
                why = "subscript other than [0] read"
            elif isinstance(p, (ast.For, ast.comprehension)) and p.iter is node:
                ok = True
            elif isinstance(p, ast.Compare):
                ok = True
            else:
                why = f"used in `{norm(p)[:40]}`"
            ctx.check(ok, rule, key, loc(node), "heap-preserving use", f"EventQueue touches its heap list unsafely: {why}")
    ctx.floor(rule, "uses of the heap list inside EventQueue", n, 6)
    # heappush / heappop are the add / next operations
    add = method(eq, "add_event")
    ctx.check(any(dotted(c.func) == "heapq.heappush" for c in calls_in(add)), rule, "EventQueue.add_event|heappush", loc(add),
              "heappush", "add_event does not push through heapq")
    nxt = method(eq, "next")
    rets = [r for r in ast.walk(nxt) if isinstance(r, ast.Return)]
    ctx.check(len(rets) == 1 and isinstance(rets[0].value, ast.Call) and dotted(rets[0].value.func) == "heapq.heappop", rule,
              "EventQueue.next|heappop", loc(nxt), "heappop", "next() does not pop the heap minimum")
    pk = method(eq, "peek")
    ok = any(isinstance(r.value, ast.Subscript) and is_self_attr(r.value.value, "_event_queue") for r in ast.walk(pk)
             if isinstance(r, ast.Return) and r.value is not None)
    ctx.check(ok, rule, "EventQueue.peek|returns heap[0]", loc(pk), "heap[0]", "peek does not return the heap minimum")
    # outside: nobody reaches through to the list
    for m in ctx.repo.program_modules():
        for node in ast.walk(m.tree):
            if isinstance(node, ast.Attribute) and node.attr == "_event_queue" and isinstance(node.value, ast.Attribute) \
                    and node.value.attr == "_event_queue":
                ctx.violation(rule, f"{qualname(node)}|reaches into the heap list", loc(node),
                              f"`{norm(node)}` reaches the EventQueue's backing list from outside the class")
    # the simulator drives the queue only through its API
    api = set(methods(eq))
    simcls = mod.cls("Simulator")
    for node in ast.walk(simcls):
        if isinstance(node, ast.Attribute) and is_self_attr(node.value, "_event_queue"):
            ctx.check(node.attr in api, rule, f"{qualname(node)}|queue API `{node.attr}`", loc(node), "EventQueue API",
                      f"Simulator uses `{norm(node)}` which is not an EventQueue method")


def _ret_paths(fn: ast.FunctionDef):
    g = cfgmod.build(fn)
    out = []
    for path in g.paths(loop_bound=1):
        if path[-1][0].kind != "ret":
            continue
        last = path[-2][0].ast
        if not isinstance(last, ast.Return):
            continue
        conds = cfgmod.path_conditions(path)
        out.append((conds, last.value))
    return out


def r3_ordering_key(ctx: Context, rule="C16.R3") -> None:
    ctx.rule(rule, "Event.__lt__ compares time first, then EventType priority, then the task's unique name when "
                   "both events have the same type and carry tasks")
    mod = ctx.repo.mod(SIM)
    ev = mod.cls("Event")
    fn = method(ev, "__lt__")
    ctx.analysed_function(f"{SIM}::Event.__lt__")
    other = fn.args.args[1].arg
    time_eq = lin.formula(ast.parse(f"self.time == {other}.time", mode="eval").body)
    type_eq = lin.formula(ast.parse(f"self.event_type == {other}.event_type", mode="eval").body)
    want_time = lin.formula(ast.parse(f"self.time < {other}.time", mode="eval").body)
    want_type = lin.formula(ast.parse(f"self.event_type < {other}.event_type", mode="eval").body)
    want_name = lin.formula(ast.parse(f"self.task.unique_name < {other}.task.unique_name", mode="eval").body)
    paths = _ret_paths(fn)
    if not paths:
        raise AnalysisError("Event.__lt__ has no return paths")
    seen = {"time": 0, "type": 0, "name": 0}
    for conds, ret in paths:
        pc = ("and", [lin.formula(t) if pol == "T" else lin.f_not(lin.formula(t)) for pol, t in conds]) if conds else ("const", True)
        r = lin.formula(ret)
        desc = " & ".join(f"{pol}:{norm(t)[:40]}" for pol, t in conds)
        key = f"Event.__lt__|path[{desc}]"
        if not lin.satisfiable(pc):
            continue
        if lin.entails(pc, lin.f_not(time_eq)):
            seen["time"] += 1
            ctx.check(lin.equivalent(r, want_time), rule, key, loc(ret), "different times: earlier time first",
                      f"when times differ, __lt__ returns `{norm(ret)}` instead of the time order")
        elif lin.entails(pc, time_eq):
            if lin.equivalent(r, want_name):
                seen["name"] += 1
                both_tasks = lin.entails(pc, lin.formula(ast.parse(
                    f"self.task is not None and {other}.task is not None", mode="eval").body))
                ctx.check(lin.entails(pc, type_eq) and both_tasks, rule, key, loc(ret),
                          "same time, same type, both tasks: unique name",
                          "the unique-name tie-break is used although types differ or a task is missing")
            elif lin.equivalent(r, want_type):
                seen["type"] += 1
                ctx.ok(rule, key, loc(ret), "same time: type priority")
            else:
                ctx.violation(rule, key, loc(ret), f"at equal times __lt__ returns `{norm(ret)}`: neither the type priority nor the name tie-break")
        else:
            ctx.violation(rule, key, loc(ret), "a path of __lt__ does not decide whether the times are equal")
    ctx.check(seen["time"] >= 1 and seen["type"] >= 1, rule, "Event.__lt__|covers time and type ordering", loc(fn),
              f"paths: {seen}", f"__lt__ lacks a time-order or type-order path: {seen}")
    ctx.sample({"Event.__lt__ paths": [(" & ".join(f"{p}:{norm(t)[:40]}" for p, t in c), norm(r)) for c, r in paths]})
    # the properties read what the constructor stored
    for prop, field in (("time", "_time"), ("event_type", "_event_type"), ("task", "_task")):
        pm = methods(ev).get(prop)
        ok = pm is not None and any(isinstance(r, ast.Return) and is_self_attr(r.value, field) for r in ast.walk(pm))
        ctx.check(ok, rule, f"Event.{prop}|returns self.{field}", loc(pm) if pm else loc(ev), "accessor",
                  f"Event.{prop} does not return self.{field}")


def r4_type_priorities(ctx: Context, rule="C16.R4") -> None:
    ctx.rule(rule, "EventType priorities (integer values, __lt__ by value) satisfy the documented relations; distinct")
    mod = ctx.repo.mod(SIM)
    et = mod.cls("EventType")
    members = enum_members(et)
    ctx.floor(rule, "EventType members", len(members), 15)
    ctx.check(enum_orders_by_value(et), rule, "EventType.__lt__|orders by value", loc(et), "self.value < other.value",
              "EventType.__lt__ is not the integer value order")
    vals = list(members.values())
    ctx.check(len(set(vals)) == len(vals), rule, "EventType|distinct priorities", loc(et), "all distinct",
              "two event types share a priority value (Enum aliasing makes them the same member)")
    for a, b in REQUIRED_ORDER:
        if a not in members or b not in members:
            raise AnalysisError(f"EventType.{a} or .{b} missing")
        ctx.check(members[a] < members[b], rule, f"EventType|{a} before {b}", loc(et), f"{members[a]} < {members[b]}",
                  f"EventType.{a} ({members[a]}) must be handled before EventType.{b} ({members[b]}) at equal times")
    ctx.sample({"EventType": members})


def r5_eventtime(ctx: Context, rule="C16.R5") -> None:
    ctx.rule(rule, "EventTime: coarsening refused, mixed-unit add converts the coarser operand, sub/eq/lt via the "
                   "normalised difference, hash in microseconds, constructor rejects non-int, unit ratios 1/1e3/1e6")
    mod = ctx.repo.mod(UTILS)
    et = mod.cls("EventTime")
    unit = [c for c in et.body if isinstance(c, ast.ClassDef) and c.name == "Unit"]
    if not unit:
        raise AnalysisError("EventTime.Unit not found")
    um = enum_members(unit[0])
    ctx.check(um.get("US") == 1 and um.get("MS") == 1000 and um.get("S") == 1000000, rule, "EventTime.Unit|ratios", loc(unit[0]),
              "US=1, MS=1e3, S=1e6", f"unit values are {um}")
    ctx.check(enum_orders_by_value(unit[0]), rule, "EventTime.Unit.__lt__|by value", loc(unit[0]), "value order",
              "Unit.__lt__ is not the value order")
    uto = method(unit[0], "to")
    rets = [r for r in ast.walk(uto) if isinstance(r, ast.Return)]
    ok = len(rets) == 1 and isinstance(rets[0].value, ast.BinOp) and isinstance(rets[0].value.op, ast.Div) \
        and dotted(rets[0].value.left) == "self.value" and dotted(rets[0].value.right) == "other.value"
    ctx.check(ok, rule, "EventTime.Unit.to|self.value / other.value", loc(uto), "ratio", f"Unit.to returns `{norm(rets[0].value) if rets else '?'}`")
    # constructor
    init = method(et, "__init__")
    g = cfgmod.build(init)
    tname, uname = init.args.args[1].arg, init.args.args[2].arg
    stores = [n for n in ast.walk(init) if isinstance(n, ast.Assign) and any(is_self_attr(t, "_time") for t in n.targets)]
    ctx.floor(rule, "store of _time in EventTime.__init__", len(stores), 1)
    want = lin.formula(ast.parse(f"type({tname}) != int", mode="eval").body, strip=False)
    guards = [t for t in g.nodes if t.kind == "test" and lin.equivalent(lin.formula(t.ast, strip=False), want)
              and isinstance(parent(t.ast), ast.If) and any(isinstance(x, ast.Raise) for x in parent(t.ast).body)]
    ok = bool(guards) and g.edge_dominates(guards[0], "F", g.node_of(stores[0]))
    ctx.check(ok, rule, "EventTime.__init__|rejects non-int time", loc(init), "type(time) != int -> raise dominates the store",
              "a non-int (float/bool) time can be stored: time values stop being exact integers")
    ctx.check(norm(stores[0].value) == tname, rule, "EventTime.__init__|stores the given time", loc(stores[0]), "self._time = time",
              f"`{norm(stores[0])}`")
    # to()
    to = method(et, "to")
    g = cfgmod.build(to)
    p_unit = to.args.args[1].arg
    want = lin.formula(ast.parse(f"{p_unit} > self.unit", mode="eval").body, strip=False)
    guards = [t for t in g.nodes if t.kind == "test" and lin.equivalent(lin.formula(t.ast, strip=False), want)]
    rets = [r for r in ast.walk(to) if isinstance(r, ast.Return)]
    ok = bool(guards) and len(rets) == 1 and g.edge_dominates(guards[0], "F", g.node_of(rets[0])) \
        and any(isinstance(x, ast.Raise) for x in parent(guards[0].ast).body)
    ctx.check(ok, rule, "EventTime.to|coarsening refused before converting", loc(to), "unit > self.unit -> raise",
              "conversion to a coarser unit is not refused: values are silently rounded")
    if rets:
        rv = rets[0].value
        ok = isinstance(rv, ast.Call) and call_name(rv) == "EventTime" and "int(self.time * self.unit.to(" in norm(rv) \
            and norm(rv).count(p_unit) >= 2
        ctx.check(ok, rule, "EventTime.to|int(time * ratio) in the target unit", loc(rets[0]), norm(rv)[:70],
                  f"to() returns `{norm(rv)[:80]}`")
    # __add__
    add = method(et, "__add__")
    o = add.args.args[1].arg
    paths = _ret_paths(add)
    same = lin.formula(ast.parse(f"self.unit == {o}.unit", mode="eval").body, strip=False)
    finer = lin.formula(ast.parse(f"self.unit < {o}.unit", mode="eval").body, strip=False)
    covered = set()
    for conds, ret in paths:
        pc = ("and", [lin.formula(t, strip=False) if pol == "T" else lin.f_not(lin.formula(t, strip=False)) for pol, t in conds]) if conds else ("const", True)
        if not (isinstance(ret, ast.Call) and call_name(ret) == "EventTime" and len(ret.args) == 2 and isinstance(ret.args[0], ast.BinOp)
                and isinstance(ret.args[0].op, ast.Add)):
            raise AnalysisError(f"EventTime.__add__ return shape not recognised: {norm(ret)[:60]}")
        addends = sorted([norm(ret.args[0].left), norm(ret.args[0].right)])
        u = norm(ret.args[1])
        desc = " & ".join(f"{pol}:{norm(t)}" for pol, t in conds)
        key = f"EventTime.__add__|path[{desc}]"
        if lin.entails(pc, same):
            covered.add("same")
            ok = addends == sorted(["self.time", f"{o}.time"]) and u in ("self.unit", f"{o}.unit")
            ctx.check(ok, rule, key, loc(ret), "same unit: plain sum", f"same-unit sum is `{norm(ret)}`")
        elif lin.entails(pc, finer):
            covered.add("self finer")
            ok = addends == sorted(["self.time", f"{o}.to(self.unit).time"]) and u == "self.unit"
            ctx.check(ok, rule, key, loc(ret), "other (coarser) converted to self.unit",
                      f"self finer than other, but the sum is `{norm(ret)}`: the coarser operand must be converted to the finer unit")
        elif lin.entails(pc, ("and", [lin.f_not(same), lin.f_not(finer)])):
            covered.add("other finer")
            ok = addends == sorted([f"self.to({o}.unit).time", f"{o}.time"]) and u == f"{o}.unit"
            ctx.check(ok, rule, key, loc(ret), "self (coarser) converted to other.unit",
                      f"other finer than self, but the sum is `{norm(ret)}`")
        else:
            ctx.violation(rule, key, loc(ret), "a path of __add__ does not determine which operand is finer")
    ctx.check(covered == {"same", "self finer", "other finer"}, rule, "EventTime.__add__|three unit cases", loc(add),
              "all cases", f"cases covered: {sorted(covered)}")
    # __sub__, __eq__, __lt__, __hash__
    sub = method(et, "__sub__")
    o = sub.args.args[1].arg
    rets = [r for r in ast.walk(sub) if isinstance(r, ast.Return)]
    ok = False
    if len(rets) == 1 and isinstance(rets[0].value, ast.BinOp) and isinstance(rets[0].value.op, ast.Add):
        l, r = rets[0].value.left, rets[0].value.right
        if isinstance(l, ast.Name) and l.id == "self" and isinstance(r, ast.Call) and call_name(r) == "EventTime":
            t = next((k.value for k in r.keywords if k.arg == "time"), r.args[0] if r.args else None)
            u = next((k.value for k in r.keywords if k.arg == "unit"), r.args[1] if len(r.args) > 1 else None)
            ok = t is not None and u is not None and norm(t) == f"-{o}.time" and norm(u) == f"{o}.unit"
    ctx.check(ok, rule, "EventTime.__sub__|self + (-other)", loc(sub), "negated operand in its own unit",
              f"__sub__ returns `{norm(rets[0].value) if rets else '?'}`")
    # every comparison operator EventTime defines itself (the others are derived by total_ordering from __eq__/__lt__)
    defined = methods(et)
    for must in ("__eq__", "__lt__"):
        if must not in defined:
            raise AnalysisError(f"EventTime.{must} not found")
    for name, what in (("__eq__", "=="), ("__ne__", "!="), ("__lt__", "<"), ("__le__", "<="), ("__gt__", ">"), ("__ge__", ">=")):
        fn = defined.get(name)
        if fn is None:
            continue
        o = fn.args.args[1].arg
        paths = _ret_paths(fn)
        if not paths:
            raise AnalysisError(f"EventTime.{name} shape not recognised")
        want = lin.formula(ast.parse(f"(self - {o}).time {what} 0", mode="eval").body, strip=False)
        want_same = lin.formula(ast.parse(f"self.time {what} {o}.time", mode="eval").body, strip=False)
        same = lin.formula(ast.parse(f"self.unit == {o}.unit", mode="eval").body, strip=False)
        for conds, ret in paths:
            pc = ("and", [lin.formula(t, strip=False) if pol == "T" else lin.f_not(lin.formula(t, strip=False)) for pol, t in conds]) if conds else ("const", True)
            desc = " & ".join(f"{pol}:{norm(t)}" for pol, t in conds) or "always"
            if isinstance(ret, ast.Constant) and ret.value is NotImplemented:
                continue
            f = lin.formula(ret, strip=False)
            ok = lin.equivalent(f, want) or (lin.entails(pc, same) and lin.equivalent(f, want_same))
            ctx.check(ok, rule, f"EventTime.{name}|path[{desc}] via normalised difference", loc(fn), f"(self - other).time {what} 0",
                      f"{name} returns `{norm(ret)[:80]}` on the path [{desc}]: the order of two times no longer agrees with their "
                      "microsecond values (for operands of different units / equal values)")
    h = method(et, "__hash__")
    rets = [r for r in ast.walk(h) if isinstance(r, ast.Return)]
    ok = len(rets) == 1 and norm(rets[0].value) in ("self.to(EventTime.Unit.US).time", "hash(self.to(EventTime.Unit.US).time)")
    ctx.check(ok, rule, "EventTime.__hash__|microsecond normalised", loc(h), "hash consistent with ==",
              f"__hash__ returns `{norm(rets[0].value) if rets else '?'}`: equal times in different units may hash differently")
    # accessors
    for prop, field in (("time", "_time"), ("unit", "_unit")):
        pm = methods(et).get(prop)
        ok = pm is not None and any(isinstance(r, ast.Return) and is_self_attr(r.value, field) for r in ast.walk(pm))
        ctx.check(ok, rule, f"EventTime.{prop}|returns self.{field}", loc(pm) if pm else loc(et), "accessor", "accessor changed")
    for sname, val in (("zero", 0), ("invalid", -1)):
        sm = method(et, sname)
        rets = [r for r in ast.walk(sm) if isinstance(r, ast.Return)]
        l = lin.lin_of(rets[0].value) if rets else None
        ctx.check(l is not None and l.is_const() and l.const == val, rule, f"EventTime.{sname}|= {val}us", loc(sm), f"{val}",
                  f"EventTime.{sname}() is `{norm(rets[0].value) if rets else '?'}`")


TIMEY_ATTRS = ("runtime", "remaining_time", "deadline", "release_time", "start_time", "placement_time", "completion_time", "slo", "period",
               "expected_start_time", "intended_release_time", "_start", "_period", "scheduler_runtime", "lookahead", "plan_ahead",
               "_plan_ahead", "_time_discretization", "_runtime", "_remaining_time", "_deadline", "_release_time", "critical_path_runtime")
UNIT_LINT_FILES = ("simulator.py", "workload/", "workers/", "schedulers/edf_scheduler.py", "schedulers/fifo_scheduler.py", "schedulers/lsf_scheduler.py",
                   "schedulers/ilp_scheduler.py", "schedulers/tetrisched_gurobi_scheduler.py", "schedulers/tetrisched_cplex_scheduler.py",
                   "schedulers/z3_scheduler.py", "schedulers/clockwork_scheduler.py", "schedulers/base_scheduler.py", "data/workload_loader.py",
                   "data/worker_loader.py")


def r6_no_raw_time_numbers(ctx: Context, rule: str = "C16.R6", files=UNIT_LINT_FILES, floor: int = 100) -> None:
    ctx.rule(rule, "unit discipline outside EventTime: wherever the number inside an EventTime-valued attribute (.runtime, "
                   ".remaining_time, .deadline, .release_time, ...) is used in arithmetic, a comparison, a sort key or a model "
                   "constraint, it is read as `.to(<unit>).time`; a bare `.time` compares 2 ms with 900 us as 2 < 900 (logging "
                   "and string formatting are exempt)")
    n_conv = 0
    for m in ctx.repo.program_modules():
        if not m.rel.startswith(files):
            continue
        for a in ast.walk(m.tree):
            if not (isinstance(a, ast.Attribute) and a.attr == "time"):
                continue
            v = a.value
            if isinstance(v, ast.Call) and isinstance(v.func, ast.Attribute) and v.func.attr == "to":
                n_conv += 1
                continue
            if not (isinstance(v, ast.Attribute) and v.attr in TIMEY_ATTRS):
                continue
            cls = enclosing_class(a)
            if cls is not None and cls.name == "EventTime":
                continue
            p = parent(a)
            textual = False
            while p is not None and not isinstance(p, (ast.FunctionDef, ast.AsyncFunctionDef, ast.Module)):
                if isinstance(p, (ast.JoinedStr, ast.FormattedValue)):
                    textual = True
                if isinstance(p, ast.Call) and call_name(p) in ("debug", "info", "warning", "warn", "error", "critical", "str", "format", "print", "repr"):
                    textual = True
                p = parent(p)
            if textual:
                continue
            ctx.violation(rule, f"{qualname(a)}|raw `{norm(a)[:50]}` used as a number", loc(a),
                          f"`{norm(a)[:70]}` reads the bare number of an EventTime without converting the unit: a value given in ms or s is "
                          "mixed with microsecond quantities (wrong order, wrong bound, wrong release or finish time)")
    ctx.floor(rule, "unit-converted reads (`.to(unit).time`) in the files under the lint", n_conv, floor)
    ctx.ok(rule, "program|numeric reads of EventTime values are unit-converted", "program", f"{n_conv} converted reads")


def run(ctx: Context) -> None:
    ctx.isolate(r1_reheapify)
    ctx.isolate(r2_encapsulation)
    ctx.isolate(r3_ordering_key)
    ctx.isolate(r4_type_priorities)
    ctx.isolate(r5_eventtime)
    ctx.isolate(r6_no_raw_time_numbers)
