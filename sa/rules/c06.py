"""C06 — Task lifecycle is a legal state machine; cancellation is closed downstream."""
from __future__ import annotations

import ast
from collections import deque
from typing import Dict, List, Optional, Set, Tuple

from .. import cfg as cfgmod
from ..anchors import SIM, TASKS, Sim, event_constructions, event_type_of
from ..core import (
    AnalysisError,
    Repo,
    call_name,
    calls_in,
    dotted,
    enclosing_class,
    enclosing_function,
    is_self_attr,
    loc,
    method,
    methods,
    norm,
    parent,
    qualname,
    src,
    stmt_of,
    NON_PROGRAM_PREFIXES,
)
from ..flow import Flow
from ..report import Context
from ..typestate import Interp, state_writers

TRACKED = ["_state", "_pre_scheduling_state"]
FINAL = ("COMPLETED", "CANCELLED", "EVICTED")
PRE_DOMAIN = ("VIRTUAL", "RELEASED")

EXPLANATION = (
    "Static typestate analysis of workload/tasks.py::Task: the transition relation of every "
    "state-writing method is extracted by a finite-domain abstract interpreter over "
    "(_state, _pre_scheduling_state) for all 8x8 pairs and compared with the legal relation of the "
    "property; finality, the released-never-virtual-again invariant (product with a 'release accepted' "
    "bit, exhaustive BFS), who-may-write, value flow of TaskGraph.cancel results into TASK_CANCEL events, "
    "removal of the cached placement on cancellation, exhaustiveness of decision application by prior "
    "state, and the definition/guarding of task-graph completion are decided on the current source. "
    "NOT decided: that the cascade reaches every descendant that lost its inputs (needs graph values), "
    "and coincidence orders of cancel/release/placement in whole runs."
)
ASSUMPTIONS = [
    "Task state is only changed through attribute stores (no setattr/__dict__ tricks other than those scanned for)",
    "exceptions other than explicit raise/assert are not modelled",
    "method calls on `self` inside Task resolve to the methods of class Task (no subclass overrides in the repo)",
]


def legal_targets(s: str, p: str) -> Set[str]:
    table = {
        "VIRTUAL": {"RELEASED", "SCHEDULED", "CANCELLED"},
        "RELEASED": {"SCHEDULED", "CANCELLED"},
        "SCHEDULED": {"RUNNING", "CANCELLED"},
        "RUNNING": {"PREEMPTED", "COMPLETED", "EVICTED"},
        "PREEMPTED": {"RUNNING", "SCHEDULED", "COMPLETED", "EVICTED"},
        "EVICTED": set(),
        "COMPLETED": set(),
        "CANCELLED": set(),
    }
    out = set(table[s])
    if s == "SCHEDULED" and p in PRE_DOMAIN:
        out.add(p)  # fall back to the recorded earlier state
    return out


def task_interp(repo: Repo) -> Tuple[Interp, ast.ClassDef, Dict[str, List[ast.AST]]]:
    mod = repo.mod(TASKS)
    task_cls = mod.cls("Task")
    enum_cls = mod.cls("TaskState")
    aliases: Dict[str, str] = {}
    for name, m in methods(task_cls).items():
        if any(isinstance(d, ast.Name) and d.id == "property" for d in m.decorator_list):
            body = [s for s in m.body if not (isinstance(s, ast.Expr) and isinstance(s.value, ast.Constant))]
            if len(body) == 1 and isinstance(body[0], ast.Return) and is_self_attr(body[0].value) \
                    and body[0].value.attr in TRACKED:
                aliases[name] = body[0].value.attr
    interp = Interp(mod, task_cls, enum_cls, TRACKED, aliases)
    writers = state_writers(task_cls, TRACKED)
    return interp, task_cls, writers


def relation(interp: Interp, writer_names: List[str]):
    """(method, s, p) -> list of outcomes."""
    rel = {}
    states = list(interp.members)
    for m in writer_names:
        for s in states:
            for p in states:
                rel[(m, s, p)] = interp.run_method(m, {"_state": s, "_pre_scheduling_state": p})
    return rel


def reachable_pairs(rel, writer_names, release_name="release"):
    """BFS over (state, pre, released_bit) from the initial state using accepted outcomes."""
    start = ("VIRTUAL", "VIRTUAL", 0)
    seen = {start: None}
    q = deque([start])
    while q:
        cur = q.popleft()
        s, p, b = cur
        for m in writer_names:
            for o in rel[(m, s, p)]:
                if o.kind != "return":
                    continue
                nb = 1 if (b or m == release_name) else 0
                nxt = (o.fields["_state"], o.fields["_pre_scheduling_state"], nb)
                if nxt not in seen:
                    seen[nxt] = (cur, m)
                    q.append(nxt)
    return seen


def witness(seen, node) -> List[str]:
    seq = []
    while seen[node] is not None:
        prev, m = seen[node]
        seq.append(f"{m}() -> {node}")
        node = prev
    seq.append(f"init {node}")
    return list(reversed(seq))


def r1_who_may_write(ctx: Context) -> None:
    ctx.rule("C06.R1", "Task._state / _pre_scheduling_state are assigned only inside class Task")
    n_task = 0
    for m in ctx.repo.modules.values():
        if m.rel.startswith("tests/"):
            continue
        for node in ast.walk(m.tree):
            targets = []
            if isinstance(node, ast.Assign):
                targets = node.targets
            elif isinstance(node, (ast.AugAssign, ast.AnnAssign)):
                targets = [node.target]
            elif isinstance(node, ast.Call) and call_name(node) == "setattr" and len(node.args) >= 2:
                a = node.args[1]
                if isinstance(a, ast.Constant) and a.value in TRACKED:
                    ctx.violation("C06.R1", f"{qualname(node)}|setattr {a.value}", loc(node),
                                  f"setattr(..., '{a.value}', ...) writes the task state outside the guarded methods")
                continue
            flat = []
            for t in targets:
                flat += t.elts if isinstance(t, (ast.Tuple, ast.List)) else [t]
            for t in flat:
                if isinstance(t, ast.Attribute) and t.attr in TRACKED:
                    cls = enclosing_class(node)
                    inside_task = m.rel == TASKS and cls is not None and cls.name == "Task" and is_self_attr(t)
                    key = f"{qualname(node)}|{norm(node)}"
                    if inside_task:
                        n_task += 1
                        ctx.ok("C06.R1", key, loc(node), "write inside Task")
                    elif m.rel == TASKS or not is_self_attr(t):
                        ctx.violation("C06.R1", key, loc(node),
                                      f"`{norm(node)}` writes a task's state outside class Task")
                    # `self._state = ...` in an unrelated class of another module is a different field.
    ctx.floor("C06.R1", "state writes inside Task", n_task, 8)


def r2_r3_r4_relation(ctx: Context) -> None:
    ctx.rule("C06.R2", "every accepted edge of every state-writing Task method is in the legal relation")
    ctx.rule("C06.R3", "COMPLETED / CANCELLED / EVICTED have no accepted outgoing edge")
    ctx.rule("C06.R4", "a task whose release was accepted is never VIRTUAL again (product BFS)")
    interp, task_cls, writers = task_interp(ctx.repo)
    names = sorted(n for n in writers if n != "__init__")
    ctx.floor("C06.R2", "state-writing methods of Task", len(names), 8)
    # initial state
    init = writers.get("__init__", [])
    init_vals = {}
    for a in init:
        for t in a.targets:
            v = dotted(a.value) or ""
            init_vals[t.attr] = v.split(".")[-1]
    ctx.check(init_vals.get("_state") == "VIRTUAL" and init_vals.get("_pre_scheduling_state") == "VIRTUAL",
              "C06.R2", "Task.__init__|initial state", f"{TASKS}:{task_cls.lineno}",
              "tasks are born VIRTUAL with VIRTUAL fallback", f"initial state is {init_vals}")
    rel = relation(interp, names)
    seen = reachable_pairs(rel, names)
    pairs = sorted({(s, p) for (s, p, _b) in seen})
    ctx.extra["states"] = len(seen)
    ctx.extra["transitions"] = sum(
        1 for (m, s, p), outs in rel.items() if (s, p) in pairs for o in outs if o.kind == "return")
    ctx.extra["reachable_state_pairs"] = [f"{s}/{p}" for s, p in pairs]
    table = {}
    for m in names:
        fn = interp.methods[m]
        ctx.analysed_function(f"{TASKS}::Task.{m}")
        for (s, p) in pairs:
            outs = rel[(m, s, p)]
            acc = sorted({(o.fields["_state"], o.fields["_pre_scheduling_state"]) for o in outs if o.kind == "return"})
            table[f"{m}({s}/{p})"] = [f"{a}/{b}" for a, b in acc] or "raise"
            for (s2, p2) in acc:
                key = f"Task.{m}|{s}/{p}->{s2}/{p2}"
                where = f"{TASKS}:{fn.lineno}"
                if s2 != s:
                    if s in FINAL:
                        ctx.violation("C06.R3", key, where,
                                      f"Task.{m} accepts a task in final state {s} and moves it to {s2}")
                    elif s2 not in legal_targets(s, p):
                        ctx.violation("C06.R2", key, where,
                                      f"Task.{m} moves {s} (fallback {p}) to {s2}, which is not a legal transition")
                    else:
                        ctx.ok("C06.R2", key, where, "legal edge")
                else:
                    ctx.ok("C06.R2", key, where, "state unchanged")
                if p2 not in PRE_DOMAIN:
                    ctx.violation("C06.R2", f"Task.{m}|fallback {s}/{p}->{p2}", where,
                                  f"Task.{m} records {p2} as the pre-scheduling state (only VIRTUAL/RELEASED are earlier states)")
            if not acc:
                ctx.ok("C06.R2", f"Task.{m}|{s}/{p} rejected", f"{TASKS}:{fn.lineno}", "raises")
        for s in FINAL:
            for p in PRE_DOMAIN:
                outs = rel[(m, s, p)]
                moved = [o for o in outs if o.kind == "return" and o.fields["_state"] != s]
                ctx.check(not moved, "C06.R3", f"Task.{m}|final {s}/{p}", f"{TASKS}:{fn.lineno}",
                          "no outgoing edge", f"Task.{m} moves a {s} task to {[o.fields['_state'] for o in moved]}")
    ctx.extra["transition_table"] = table
    ctx.sample({"transition_table_excerpt": {k: table[k] for k in list(table)[:10]}})
    # required acceptances (otherwise the relation is vacuous)
    required = [("release", "VIRTUAL", "RELEASED"), ("schedule", "RELEASED", "SCHEDULED"),
                ("schedule", "VIRTUAL", "SCHEDULED"), ("start", "SCHEDULED", "RUNNING"),
                ("finish", "RUNNING", "COMPLETED"), ("cancel", "RELEASED", "CANCELLED"),
                ("unschedule", "SCHEDULED", "RELEASED"), ("preempt", "RUNNING", "PREEMPTED"),
                ("resume", "PREEMPTED", "RUNNING")]
    for (m, s, s2) in required:
        if m not in names:
            raise AnalysisError(f"Task.{m} no longer writes the state; typestate anchors lost")
        found = any(o.kind == "return" and o.fields["_state"] == s2
                    for p in PRE_DOMAIN for o in rel[(m, s, p)])
        if not found and not ctx.violations:
            # with no violation reported, a missing basic edge means the interpreter went blind
            raise AnalysisError(f"extracted relation lacks the basic edge {m}: {s}->{s2}; interpreter went blind")
    # R4
    bad = sorted(n for n in seen if n[0] == "VIRTUAL" and n[2] == 1)
    rel_fn = interp.methods["release"]
    if bad:
        w = witness(seen, bad[0])
        # name the construct: the release path that leaves the fallback stale
        ctx.violation("C06.R4", "Task.release|released task can fall back to VIRTUAL", f"{TASKS}:{rel_fn.lineno}",
                      "a task whose release was accepted can become VIRTUAL again: " + " ; ".join(w))
    else:
        ctx.ok("C06.R4", "Task.release|released task can fall back to VIRTUAL", f"{TASKS}:{rel_fn.lineno}",
               f"no (VIRTUAL, *, released) state among {len(seen)} product states")
    ctx.sample({"product_states": len(seen), "example_path": witness(seen, sorted(seen)[-1])})


def _cancel_sites(repo: Repo) -> List[ast.Call]:
    """Call sites of TaskGraph.cancel(task, time): two arguments, unlike Task.cancel(time)."""
    out = []
    for n in repo.calls_named("cancel"):
        if isinstance(n.func, ast.Attribute) and len(n.args) + len(n.keywords) == 2:
            out.append(n)
    return out


def _task_cancel_event_sink(scope: ast.AST, elem: str) -> Optional[ast.AST]:
    for c in event_constructions(scope, "TASK_CANCEL"):
        for kw in c.keywords:
            if kw.arg == "task" and isinstance(kw.value, ast.Name) and kw.value.id == elem:
                return c
    return None


def r5_cancellation_reported(ctx: Context) -> None:
    ctx.rule("C06.R5", "every task cancelled by TaskGraph.cancel is returned, and every call site turns the "
                       "result into TASK_CANCEL events")
    mod = ctx.repo.mod(TASKS)
    tg = mod.cls("TaskGraph")
    fn = method(tg, "cancel")
    ctx.analysed_function(f"{TASKS}::TaskGraph.cancel")
    inner = [c for c in calls_in(fn, "cancel") if isinstance(c.func, ast.Attribute)
             and isinstance(c.func.value, ast.Name) and c.func.value.id != "self"
             and len(c.args) + len(c.keywords) == 1]
    ctx.floor("C06.R5", "Task.cancel calls inside TaskGraph.cancel", len(inner), 1)
    returned = set()
    for r in [n for n in ast.walk(fn) if isinstance(n, ast.Return)]:
        if isinstance(r.value, ast.Name):
            returned.add(r.value.id)
    g = cfgmod.build(fn)
    for c in inner:
        recv = c.func.value.id
        st = stmt_of(c)
        block = getattr(parent(st), "body", [])
        holder = None
        for fld in ("body", "orelse", "finalbody"):
            lst = getattr(parent(st), fld, None)
            if isinstance(lst, list) and st in lst:
                holder = lst
        ok = False
        if holder is not None:
            for s in holder:
                for a in calls_in(s, "append"):
                    if isinstance(a.func.value, ast.Name) and a.func.value.id in returned \
                            and len(a.args) == 1 and isinstance(a.args[0], ast.Name) and a.args[0].id == recv:
                        lo, hi = sorted([holder.index(s), holder.index(st)])
                        between = holder[lo:hi + 1]
                        if not any(isinstance(x, (ast.Break, ast.Continue, ast.Return, ast.Raise, ast.If, ast.For, ast.While))
                                   for x in between if x is not s and x is not st):
                            ok = True
        ctx.check(ok, "C06.R5", f"TaskGraph.cancel|{norm(c)} reported", loc(c),
                  "cancelled task is appended to the returned list in the same block",
                  f"`{norm(c)}` cancels a task that is not appended to the returned list")
    # every return path returns that list
    for r in [n for n in ast.walk(fn) if isinstance(n, ast.Return)]:
        ctx.check(isinstance(r.value, ast.Name) and r.value.id in returned, "C06.R5",
                  f"TaskGraph.cancel|return {norm(r)}", loc(r), "returns the list", "returns something else")
    sites = _cancel_sites(ctx.repo)
    ctx.floor("C06.R5", "call sites of TaskGraph.cancel", len(sites), 4)
    # a cascade started inside a loop must be ACCUMULATED: assigning its result to the collecting name drops the earlier cascades
    for site in sites:
        p = parent(site)
        lp, below = p, site
        while lp is not None and not isinstance(lp, ast.FunctionDef):
            if isinstance(lp, (ast.For, ast.While)) and not (isinstance(lp, ast.For) and any(below is x for x in ast.walk(lp.iter))):
                break  # the call is repeated by this loop (it is in the body, not the thing iterated over)
            below, lp = lp, parent(lp)
        if isinstance(lp, (ast.For, ast.While)):
            acc = isinstance(p, ast.Call) and isinstance(p.func, ast.Attribute) and p.func.attr in ("extend", "update") and site in p.args
            plus = isinstance(p, ast.AugAssign) and isinstance(p.op, ast.Add)
            ctx.check(acc or plus, "C06.R5", f"{qualname(site)}|{norm(site)[:40]} accumulated across the loop", loc(site), "extend / +=",
                      f"`{norm(p)[:70]}` runs once per iteration but keeps only the last cascade's tasks: tasks cancelled by the earlier "
                      "iterations are CANCELLED without a TASK_CANCEL event, row or count")
    for site in sites:
        fl = Flow(ctx.repo, _task_cancel_event_sink)
        p = parent(site)
        fl.from_expr(site)
        key = f"{qualname(site)}|{norm(site)} -> TASK_CANCEL events"
        if fl.sinks:
            ctx.ok("C06.R5", key, loc(site), "; ".join(fl.trail[-3:]))
            ctx.sample({"cancel_site": loc(site), "flow": fl.trail})
        else:
            ctx.violation("C06.R5", key, loc(site),
                          "tasks cancelled here never become TASK_CANCEL events: " + "; ".join(fl.dead_ends[:3]))


def r6_pending_placement_dropped(ctx: Context) -> None:
    ctx.rule("C06.R6", "TASK_CANCEL handler removes the cached placement event from queue and cache; the "
                       "placement handler consumes the event without starting a cancelled task")
    sim = Sim(ctx.repo)
    h = sim.handler("TASK_CANCEL")
    ctx.analysed_function(qualname(h))
    g = cfgmod.build(h)
    tests = [n for n in g.nodes if n.kind == "test" and isinstance(n.ast, ast.Compare)
             and len(n.ast.ops) == 1 and isinstance(n.ast.ops[0], ast.In)
             and (dotted(n.ast.comparators[0]) or "").endswith("_future_placement_events")]
    lookups = [(t, "T", norm(t.ast.left), None) for t in tests]
    # the same lookup spelt `ev = cache.get(key)` / `if ev is not None:` (the cache only ever holds Event objects)
    for asg in [x for x in ast.walk(h) if isinstance(x, ast.Assign) and len(x.targets) == 1 and isinstance(x.targets[0], ast.Name)
                and isinstance(x.value, ast.Call) and isinstance(x.value.func, ast.Attribute) and x.value.func.attr == "get"
                and (dotted(x.value.func.value) or "").endswith("_future_placement_events") and len(x.value.args) == 1]:
        v = asg.targets[0].id
        for n in g.nodes:
            if n.kind != "test":
                continue
            tt = n.ast
            if isinstance(tt, ast.Compare) and len(tt.ops) == 1 and isinstance(tt.left, ast.Name) and tt.left.id == v \
                    and isinstance(tt.comparators[0], ast.Constant) and tt.comparators[0].value is None:
                if isinstance(tt.ops[0], ast.IsNot):
                    lookups.append((n, "T", norm(asg.value.args[0]), v))
                elif isinstance(tt.ops[0], ast.Is):
                    lookups.append((n, "F", norm(asg.value.args[0]), v))
            elif isinstance(tt, ast.Name) and tt.id == v:
                lookups.append((n, "T", norm(asg.value.args[0]), v))
    if not lookups:
        ctx.violation("C06.R6", f"{qualname(h)}|membership test on the placement cache", loc(h),
                      "the TASK_CANCEL handler no longer looks up the cached placement event")
    for t, pol, keyexpr, bound in lookups:
        removes = [c for c in calls_in(h, "remove_event")]
        dels = [d for d in ast.walk(h) if isinstance(d, ast.Delete)
                and any(isinstance(x, ast.Subscript) and (dotted(x.value) or "").endswith("_future_placement_events")
                        and norm(x.slice) == keyexpr for x in d.targets)]
        r_ok = any(g.edge_dominates(t, pol, g.node_of(c)) for c in removes)
        d_ok = any(g.edge_dominates(t, pol, g.node_of(d)) for d in dels)
        # the test must be on every path of the handler
        every = not g.reachable_from_entry(g.ret, {t.id})
        ctx.check(r_ok, "C06.R6", f"{qualname(h)}|remove_event under `{norm(t.ast)}`", loc(t.ast),
                  "queue entry removed", "the pending TASK_PLACEMENT event is not removed from the event queue")
        ctx.check(d_ok, "C06.R6", f"{qualname(h)}|del cache[{keyexpr}]", loc(t.ast),
                  "cache entry deleted", "the cached placement is not deleted from _future_placement_events")
        ctx.check(every, "C06.R6", f"{qualname(h)}|lookup on every path", loc(t.ast),
                  "unconditional", "some path through the handler skips the cache lookup")
        # removed event is the cached one
        for c in removes:
            a = c.args[0] if c.args else None
            okv = False
            if isinstance(a, ast.Name) and bound is not None and a.id == bound:
                okv = True
            elif isinstance(a, ast.Name):
                for asg in [x for x in ast.walk(h) if isinstance(x, ast.Assign)]:
                    if any(isinstance(tg, ast.Name) and tg.id == a.id for tg in asg.targets) \
                            and isinstance(asg.value, ast.Subscript) \
                            and (dotted(asg.value.value) or "").endswith("_future_placement_events") \
                            and norm(asg.value.slice) == keyexpr:
                        okv = True
            elif isinstance(a, ast.Subscript) and (dotted(a.value) or "").endswith("_future_placement_events"):
                okv = norm(a.slice) == keyexpr
            ctx.check(okv, "C06.R6", f"{qualname(h)}|removed event is cache[{keyexpr}]", loc(c),
                      "same key", f"`{norm(c)}` does not remove the event cached for the cancelled task")
    # placement handler: cancelled branch
    ph = sim.handler("TASK_PLACEMENT")
    ctx.analysed_function(qualname(ph))
    pg = cfgmod.build(ph)
    canc = [n for n in pg.nodes if n.kind == "test" and "CANCELLED" in src(n.ast) and "is_cancelled" in src(n.ast)]
    if not canc:
        canc = [n for n in pg.nodes if n.kind == "test" and "CANCELLED" in src(n.ast)]
    ctx.floor("C06.R6", "cancelled-task test in the placement handler", len(canc), 1)
    t = canc[0]
    starts = [pg.node_of(c) for c in calls_in(ph, "start")] + [pg.node_of(c) for c in calls_in(ph, "place_task")]
    t_succ = [x for (x, lab) in pg.succ[t.id] if lab and lab[0] == "T"]
    leak = False
    for s0 in t_succ:
        for sn in starts:
            if s0 == sn.id or pg.reachable(pg.nodes[s0], sn):
                leak = True
    ctx.check(not leak, "C06.R6", f"{qualname(ph)}|cancelled branch never places/starts", loc(t.ast),
              "cancelled branch leaves the handler", "a cancelled task can reach place_task/start")
    dels = [d for d in ast.walk(ph) if isinstance(d, ast.Delete)
            and any(isinstance(x, ast.Subscript) and (dotted(x.value) or "").endswith("_future_placement_events")
                    for x in d.targets)]
    ctx.check(any(pg.edge_dominates(t, "T", pg.node_of(d)) for d in dels), "C06.R6",
              f"{qualname(ph)}|cancelled branch drops the cache entry", loc(t.ast),
              "cache entry deleted", "the cancelled placement stays in _future_placement_events")


def r7_decision_application(ctx: Context) -> None:
    ctx.rule("C06.R7", "the routine applying PLACE_TASK decisions dispatches every TaskState; final states "
                       "create no event and mutate no task")
    sim = Sim(ctx.repo)
    cands = [m for m in sim.methods.values()
             if len([c for c in ast.walk(m) if isinstance(c, ast.Compare) and dotted(c.left) == "placement.task.state"]) >= 3]
    if not cands:
        raise AnalysisError("routine dispatching on placement.task.state not found")
    fn = cands[0]
    ctx.analysed_function(qualname(fn))
    mod = ctx.repo.mod(TASKS)
    interp = Interp(mod, mod.cls("Task"), mod.cls("TaskState"), ["_state"], {})
    top = [s for s in fn.body if isinstance(s, ast.If) and "placement.task.state" in src(s.test)]
    if len(top) != 1:
        raise AnalysisError("expected one if/elif chain on placement.task.state")

    def branch_for(state: str) -> Tuple[List[ast.stmt], str]:
        node = top[0]
        while True:
            v = _eval_state_test(interp, node.test, state)
            if v is None:
                raise AnalysisError(f"cannot evaluate `{src(node.test)}` for state {state}")
            if v:
                return node.body, norm(node.test)
            if len(node.orelse) == 1 and isinstance(node.orelse[0], ast.If) and "placement.task.state" in src(node.orelse[0].test):
                node = node.orelse[0]
                continue
            return node.orelse, "else"

    mutators = set(state_writers(mod.cls("Task"), TRACKED)) - {"__init__"}
    table = {}
    for st in interp.members:
        body, label = branch_for(st)
        table[st] = label
        wrapper = ast.Module(body=body, type_ignores=[])
        evs = [event_type_of(c) for c in event_constructions(wrapper)]
        muts = [norm(c) for c in ast.walk(wrapper) if isinstance(c, ast.Call) and isinstance(c.func, ast.Attribute)
                and c.func.attr in mutators and "task" in src(c.func.value)]
        where = f"{SIM}:{body[0].lineno if body else fn.lineno}"
        key = f"{qualname(fn)}|state {st}"
        if st in FINAL:
            ctx.check(not evs and not muts, "C06.R7", key, where, f"branch `{label}` creates nothing",
                      f"a decision for a {st} task creates events {evs} / calls {muts}")
        elif st in ("VIRTUAL", "RELEASED", "SCHEDULED"):
            sched = [c for c in ast.walk(wrapper) if isinstance(c, ast.Call) and call_name(c) == "schedule"]
            ok = bool(sched)
            for c in sched:
                # must be under `placement.is_placed()` true-branch inside this body
                n = parent(c)
                under = False
                while n is not None and n is not fn:
                    pn = parent(n)
                    if isinstance(pn, ast.If) and "is_placed()" in src(pn.test) and n in pn.body \
                            and not (isinstance(pn.test, ast.UnaryOp)):
                        under = True
                    n = pn
                ok = ok and under
            ctx.check(ok and set(evs) <= {"TASK_PLACEMENT"}, "C06.R7", key, where,
                      f"branch `{label}`: schedule() only for placed decisions; events {sorted(set(evs))}",
                      f"branch `{label}` for {st}: schedule sites {len(sched)}, events {evs}")
        elif st == "RUNNING":
            ctx.check(set(evs) <= {"TASK_PREEMPT", "TASK_MIGRATION"} and not muts, "C06.R7", key, where,
                      f"branch `{label}`: only preempt/migrate events", f"RUNNING task: events {evs}, calls {muts}")
        else:
            ctx.check(not evs and not muts, "C06.R7", key, where, f"branch `{label}`", f"{st}: events {evs} calls {muts}")
    ctx.extra["decision_dispatch"] = table
    ctx.sample({"decision_dispatch": table})


def _eval_state_test(interp: Interp, test: ast.AST, state: str) -> Optional[bool]:
    """Evaluate a test on `placement.task.state` for a concrete state."""
    interp.dotted_aliases["placement.task.state"] = "_state"
    v = interp.ev(test, {"_state": state})
    if v[0] == "bool":
        return v[1]
    return None


def r8b_task_is_complete(ctx: Context, rule: str = "C06.R8") -> None:
    """Task.is_complete() is true exactly for COMPLETED and EVICTED (evaluated for every TaskState member)."""
    if rule != "C06.R8":
        ctx.rule(rule, "Task.is_complete(), on which readiness and release are built, is true exactly for COMPLETED and EVICTED "
                       "(abstractly evaluated for every TaskState member: a CANCELLED parent never counts as done)")
    interp, _cls, _w = task_interp(ctx.repo)
    for s in interp.members:
        v = interp.ev(ast.parse("self.is_complete()").body[0].value, {"_state": s, "_pre_scheduling_state": "VIRTUAL"})
        want = s in ("COMPLETED", "EVICTED")
        ctx.check(v == ("bool", want), rule, f"Task.is_complete|{s}", f"{TASKS}:{interp.methods['is_complete'].lineno}",
                  f"is_complete({s}) = {want}", f"is_complete({s}) evaluates to {v}: a task in state {s} "
                  f"{'no longer counts' if want else 'counts'} as a finished predecessor")


def r8_graph_finished(ctx: Context) -> None:
    ctx.rule("C06.R8", "TaskGraph.is_complete is all(sink.is_complete()); TASK_GRAPH_FINISHED row and counter "
                       "are guarded by it")
    mod = ctx.repo.mod(TASKS)
    tg = mod.cls("TaskGraph")
    fn = method(tg, "is_complete")
    rets = [n for n in ast.walk(fn) if isinstance(n, ast.Return)]
    ok = False
    if len(rets) == 1 and isinstance(rets[0].value, ast.Call) and call_name(rets[0].value) == "all":
        arg = rets[0].value.args[0] if rets[0].value.args else None
        if isinstance(arg, (ast.GeneratorExp, ast.ListComp)) and len(arg.generators) == 1:
            gen = arg.generators[0]
            it = gen.iter
            elt = arg.elt
            if isinstance(it, ast.Call) and is_self_attr(it.func, "get_sink_tasks") and not gen.ifs \
                    and isinstance(elt, ast.Call) and call_name(elt) == "is_complete" \
                    and isinstance(elt.func.value, ast.Name) and isinstance(gen.target, ast.Name) \
                    and elt.func.value.id == gen.target.id:
                ok = True
    ctx.check(ok, "C06.R8", "TaskGraph.is_complete|all sinks complete", loc(fn),
              "all(t.is_complete() for t in self.get_sink_tasks())",
              f"is_complete is `{norm(rets[0].value) if rets else '?'}`")
    r8b_task_is_complete(ctx)
    sim = Sim(ctx.repo)
    h = sim.handler("TASK_FINISHED")
    g = cfgmod.build(h)
    tests = [n for n in g.nodes if n.kind == "test" and "is_complete()" in src(n.ast)]
    ctx.floor("C06.R8", "graph-completion tests in the TASK_FINISHED handler", len(tests), 1)
    from ..anchors import csv_calls
    rows = [c for c in csv_calls(h) if "TASK_GRAPH_FINISHED" in src(c)]
    incs = [n for n in ast.walk(h) if isinstance(n, ast.AugAssign) and is_self_attr(n.target, "_finished_task_graphs")]
    ctx.floor("C06.R8", "TASK_GRAPH_FINISHED row", len(rows), 1)
    ctx.floor("C06.R8", "_finished_task_graphs increment", len(incs), 1)
    for what, nodes in (("row", rows), ("counter", incs)):
        for n in nodes:
            gn = g.node_of(n)
            ok = any(g.edge_dominates(t, "T", gn) and _positive(t.ast, "is_complete()") for t in tests)
            ctx.check(ok, "C06.R8", f"{qualname(h)}|TASK_GRAPH_FINISHED {what} guarded", loc(n),
                      "guarded by task_graph.is_complete()", f"the {what} is not guarded by graph completion")
    # finish() precedes the completion test: remove_task + finish come first
    fin = [g.node_of(c) for c in calls_in(h, "finish") if "task" in src(c.func.value)]
    ctx.floor("C06.R8", "task.finish() in the TASK_FINISHED handler", len(fin), 1)
    ctx.check(all(g.dominates(fin[0], t) for t in tests), "C06.R8", f"{qualname(h)}|finish before completion test",
              loc(fin[0].ast), "finish() dominates the graph-completion test",
              "graph completion is tested before the task is marked finished")


def _positive(test: ast.AST, needle: str) -> bool:
    """`needle` occurs in `test` as a positive conjunct (not under `not`, not in an `or`)."""
    if isinstance(test, ast.BoolOp) and isinstance(test.op, ast.And):
        return any(_positive(v, needle) for v in test.values)
    if isinstance(test, ast.UnaryOp) and isinstance(test.op, ast.Not):
        return False
    if isinstance(test, ast.BoolOp):
        return False
    return needle in src(test)


class _Rename(ast.NodeTransformer):
    def __init__(self, old, new):
        self.old, self.new = old, new

    def visit_Name(self, node):
        return ast.copy_location(ast.Name(id=self.new, ctx=node.ctx), node) if node.id == self.old else node


def _canon_quantifiers(test: ast.AST) -> ast.AST:
    """all(...)/any(...) over one generator -> an opaque name `ALL(<elt> | <iter>)`, any() expressed through all()."""
    import copy as _copy

    class Q(ast.NodeTransformer):
        def visit_Call(self, node):
            self.generic_visit(node)
            if isinstance(node.func, ast.Name) and node.func.id in ("all", "any") and len(node.args) == 1 \
                    and isinstance(node.args[0], (ast.GeneratorExp, ast.ListComp)) and len(node.args[0].generators) == 1:
                gen = node.args[0].generators[0]
                if isinstance(gen.target, ast.Name) and not gen.ifs:
                    elt = _Rename(gen.target.id, "_p").visit(ast.parse(ast.unparse(node.args[0].elt), mode="eval").body)
                    neg = False
                    if node.func.id == "any":
                        if isinstance(elt, ast.Compare) and len(elt.ops) == 1 and isinstance(elt.ops[0], (ast.Eq, ast.NotEq)):
                            elt.ops = [ast.NotEq() if isinstance(elt.ops[0], ast.Eq) else ast.Eq()]
                            neg = True
                        else:
                            return ast.Name(id=f"ANY({ast.unparse(elt)} | {ast.unparse(gen.iter)})", ctx=ast.Load())
                    name = ast.Name(id=f"ALL({ast.unparse(elt)} | {ast.unparse(gen.iter)})", ctx=ast.Load())
                    return ast.UnaryOp(op=ast.Not(), operand=name) if neg else name
            return node

    return Q().visit(ast.parse(ast.unparse(test), mode="eval").body)


def r9_cascade_exemptions(ctx: Context) -> None:
    from .. import lin
    ctx.rule("C06.R9", "in TaskGraph.cancel every test that spares a visited descendant speaks about that descendant "
                       "(its own flags, state and parents), and the conditional-join exemption is exactly `terminal and "
                       "not the requested task and not all of ITS parents cancelled`")
    tg = ctx.repo.mod(TASKS).cls("TaskGraph")
    fn = method(tg, "cancel")
    head = fn.args.args[1].arg
    # the traversal: a flat `for x in self.depth_first(task)` or a worklist `while frontier: x = frontier.pop()`
    flat = [n for n in fn.body if isinstance(n, ast.For) and isinstance(n.iter, ast.Call)
            and call_name(n.iter) in ("depth_first", "breadth_first") and isinstance(n.target, ast.Name)]
    work = []
    for n in fn.body:
        if isinstance(n, ast.While) and n.body and isinstance(n.body[0], ast.Assign) and isinstance(n.body[0].targets[0], ast.Name) \
                and isinstance(n.body[0].value, ast.Call) and call_name(n.body[0].value) in ("pop", "popleft") \
                and isinstance(n.body[0].value.func.value, ast.Name):
            work.append(n)
    ctx.floor("C06.R9", "descendant traversal in TaskGraph.cancel", len(flat) + len(work), 1)
    if flat:
        lp = flat[0]
        lv = lp.target.id
        ok_iter = len(lp.iter.args) == 1 and isinstance(lp.iter.args[0], ast.Name) and lp.iter.args[0].id == head
        frontier = None
    else:
        lp = work[0]
        lv = lp.body[0].targets[0].id
        frontier = lp.body[0].value.func.value.id
        inits = [a for a in fn.body if isinstance(a, ast.Assign) and isinstance(a.targets[0], ast.Name) and a.targets[0].id == frontier]
        ok_iter = len(inits) == 1 and isinstance(inits[0].value, (ast.List, ast.Call)) and norm(inits[0].value) in (f"[{head}]", f"deque([{head}])")
    ctx.check(ok_iter, "C06.R9", "TaskGraph.cancel|traversal starts at the cancelled task", loc(lp), "ok",
              f"the cascade does not start from `{head}`")
    cancel_stmt = next((x for x in lp.body if isinstance(x, ast.Expr) and isinstance(x.value, ast.Call)
                        and call_name(x.value) == "cancel" and isinstance(x.value.func.value, ast.Name) and x.value.func.value.id == lv), None)
    if cancel_stmt is None:
        anywhere = [c for c in calls_in(fn, "cancel") if isinstance(c.func, ast.Attribute) and isinstance(c.func.value, ast.Name)]
        if anywhere:
            ctx.violation("C06.R11", "TaskGraph.cancel|visited tasks are cancelled during the traversal", loc(anywhere[0]),
                          "the traversal only collects tasks and cancels them afterwards: the exemption that spares a join unless all ITS parents "
                          "are CANCELLED reads parent states that this very cascade has not updated yet, so a join whose parents are all being "
                          "cancelled is spared and it and its descendants stay alive")
            return
        raise AnalysisError("TaskGraph.cancel: `<visited>.cancel(time)` is not a top-level statement of the traversal")
    exemptions = [x for x in lp.body if isinstance(x, ast.If) and x.lineno < cancel_stmt.lineno
                  and any(isinstance(y, (ast.Break, ast.Continue, ast.Return)) for y in ast.walk(x))]
    ctx.floor("C06.R9", "exemption tests before the cancel call", len(exemptions), 2)
    n_term = 0
    for ex in exemptions:
        t = ex.test
        comp_vars = {}
        for gnode in ast.walk(t):
            if isinstance(gnode, ast.comprehension) and isinstance(gnode.target, ast.Name):
                comp_vars[gnode.target.id] = gnode.iter
        bad = []
        for n in ast.walk(t):
            if isinstance(n, ast.Call) and call_name(n) in ("get_parents", "get_children", "get_ancestors", "get_descendants"):
                a = n.args[0] if n.args else None
                if not (isinstance(a, ast.Name) and a.id == lv):
                    bad.append(norm(n))
            if isinstance(n, ast.Attribute) and isinstance(n.value, ast.Name) and n.value.id not in (lv, "self", "TaskState") \
                    and n.value.id not in comp_vars:
                bad.append(norm(n))
        ctx.check(not bad, "C06.R9", f"TaskGraph.cancel|exemption `{norm(t)[:60]}` speaks about the visited task", loc(ex),
                  "only the visited task, its state and its parents are consulted",
                  f"the test that spares `{lv}` consults {bad}: a descendant is kept alive (or cancelled) because of "
                  "another task's neighbourhood, so a join whose own inputs are all gone can stay uncancelled")
        if "terminal" in norm(t):
            n_term += 1
            got = lin.formula(_canon_quantifiers(t))
            want_src = f"{lv}.terminal and {lv} != {head} and not __Q__"
            want_ast = ast.parse(want_src, mode="eval").body
            qname = f"ALL(_p.state == TaskState.CANCELLED | self.get_parents({lv}))"
            want_ast = _Rename("__Q__", qname).visit(want_ast)
            want = lin.formula(want_ast)
            ctx.check(lin.equivalent(got, want), "C06.R9", "TaskGraph.cancel|conditional-join exemption", loc(ex),
                      "terminal and not requested and some own parent not cancelled",
                      f"the join exemption is `{norm(t)[:140]}`: it must spare a join exactly while one of its own parents "
                      "can still complete (a join with every parent cancelled can no longer receive its inputs)")
            ctx.check(any(isinstance(y, ast.Break) for y in ex.body) or any(isinstance(y, ast.Continue) for y in ex.body),
                      "C06.R9", "TaskGraph.cancel|exemption leaves the iteration", loc(ex), "break/continue", "falls through to cancel")
    ctx.floor("C06.R9", "conditional-join exemption", n_term, 1)
    # R11: sparing one descendant neither ends the cascade for the others nor lets it run through the spared task
    ctx.rule("C06.R11", "the cascade is a pruned worklist: an exemption skips the visited task only (`continue`, never `break`/"
                        "`return`), and a task's children are enqueued only after that task was cancelled by this cascade")
    for ex in exemptions:
        leaves = [y for y in ast.walk(ex) if isinstance(y, (ast.Break, ast.Return))]
        ctx.check(not leaves, "C06.R11", f"TaskGraph.cancel|exemption `{norm(ex.test)[:50]}` skips one task only", loc(leaves[0]) if leaves else loc(ex),
                  "continue", "sparing one descendant ends the whole traversal: descendants of the cancelled task that were still waiting "
                  "in the traversal (siblings of the spared join, the other branch of a fork) are never cancelled although they can no "
                  "longer receive their inputs")
    if frontier is None:
        ctx.violation("C06.R11", "TaskGraph.cancel|children enqueued only below cancelled tasks", loc(lp),
                      "the cascade iterates a flat list of ALL descendants: it either has to stop at the first spared task (losing the "
                      "rest) or runs through spared joins and cancels tasks below a join that is still alive")
    else:
        pushes = [c for c in ast.walk(lp) if isinstance(c, ast.Call) and isinstance(c.func, ast.Attribute) and c.func.attr in ("extend", "append", "extendleft", "appendleft")
                  and isinstance(c.func.value, ast.Name) and c.func.value.id == frontier]
        g9 = cfgmod.build(fn)
        cn = g9.node_of(cancel_stmt)
        okp = bool(pushes) and all(g9.dominates(cn, g9.node_of(pc)) and f"get_children({lv})" in norm(pc) for pc in pushes)
        ctx.check(okp, "C06.R11", "TaskGraph.cancel|children enqueued only below cancelled tasks", loc(pushes[0]) if pushes else loc(lp),
                  f"{frontier}.extend(get_children({lv})) after {lv}.cancel()",
                  "the children of a visited task are enqueued although the task itself was spared (or nothing is enqueued): the cascade "
                  "runs through a live join, or never reaches the descendants")
    # the remaining exemptions may only spare descendants that are already out of play: evaluated for every TaskState member,
    # an exemption that holds for a VIRTUAL / RELEASED / SCHEDULED descendant keeps a task alive that lost its inputs
    interp, _c, _w = task_interp(ctx.repo)
    interp.dotted_aliases[f"{lv}.state"] = "_state"
    for ex in exemptions:
        if "terminal" in norm(ex.test):
            continue
        spared = []
        for st_name in interp.members:
            v = interp.ev(ex.test, {"_state": st_name, "_pre_scheduling_state": "VIRTUAL"})
            if v != ("bool", False):
                spared.append(st_name if v == ("bool", True) else st_name + "?")
        live = [x for x in spared if x.rstrip("?") in ("VIRTUAL", "RELEASED", "SCHEDULED")]
        ctx.check(not live, "C06.R9", f"TaskGraph.cancel|exemption `{norm(ex.test)[:50]}` spares only tasks that are out of play", loc(ex),
                  f"holds for {spared}", f"the cascade stops at a descendant in state {live} (`{norm(ex.test)[:80]}`): a not-yet-started task "
                  "that lost its inputs (e.g. a SCHEDULED task of the branch not taken) stays alive with its pending placement and runs")


def remaining_time_table(ctx: Context, rule: str) -> None:
    """Task.remaining_time per state (partial evaluation of its state dispatch for every TaskState member)."""
    ctx.rule(rule, "Task.remaining_time, evaluated for every TaskState member: zero for COMPLETED/CANCELLED, the task's own remaining "
                   "time (decided strategy minus progress) for SCHEDULED/RUNNING/PREEMPTED/EVICTED, the slowest strategy's runtime only "
                   "while no decision exists (VIRTUAL/RELEASED)")
    interp, task_cls, _w = task_interp(ctx.repo)
    fn = methods(task_cls).get("remaining_time")
    if fn is None:
        raise AnalysisError("Task.remaining_time not found")
    ctx.analysed_function(f"{TASKS}::Task.remaining_time")
    want = {"COMPLETED": "zero", "CANCELLED": "zero", "SCHEDULED": "own", "RUNNING": "own", "PREEMPTED": "own", "EVICTED": "own",
            "VIRTUAL": "slowest", "RELEASED": "slowest"}

    def classify(e):
        from .. import lin
        t = norm(e)
        if is_self_attr(e, "_remaining_time"):
            return "own"
        if "get_slowest_strategy" in t and t.endswith(".runtime"):
            return "slowest"
        try:
            l = lin.lin_of(e)
            if l.is_const() and l.const == 0:
                return "zero"
        except Exception:
            pass
        return f"`{t[:40]}`"

    def walk(stmts, state):
        for st in stmts:
            if isinstance(st, ast.Return):
                return classify(st.value) if st.value is not None else "None"
            if isinstance(st, ast.If):
                v = interp.ev(st.test, {"_state": state, "_pre_scheduling_state": "VIRTUAL"})
                if v == ("bool", True):
                    r = walk(st.body, state)
                elif v == ("bool", False):
                    r = walk(st.orelse, state)
                else:
                    raise AnalysisError(f"Task.remaining_time: `{norm(st.test)[:60]}` does not only depend on the state")
                if r is not None:
                    return r
            elif isinstance(st, ast.Expr) and isinstance(st.value, ast.Constant):
                continue
            elif isinstance(st, (ast.Assign, ast.Expr)):
                continue
            else:
                raise AnalysisError(f"Task.remaining_time: statement `{norm(st)[:50]}` not recognised")
        return None
    for s in interp.members:
        if s not in want:
            continue
        got = walk(fn.body, s)
        ctx.check(got == want[s], rule, f"Task.remaining_time|{s}", loc(fn), f"{s} -> {want[s]}",
                  f"a {s} task reports {got} as its remaining time (expected: {want[s]}): slack, completion estimates and the next "
                  "scheduler time are computed from the wrong amount of work")


def run(ctx: Context) -> None:
    ctx.isolate(r1_who_may_write)
    ctx.isolate(r2_r3_r4_relation)
    ctx.isolate(r5_cancellation_reported)
    ctx.isolate(r6_pending_placement_dropped)
    ctx.isolate(r7_decision_application)
    ctx.isolate(r8_graph_finished)
    ctx.isolate(r9_cascade_exemptions)
    from . import c17
    ctx.isolate(c17.r1_worklist, _alias={"C17.R1": "C06.R10"})
    from . import c07
    ctx.isolate(c07.r1_one_of_n, _alias={"C07.R1": "C06.R12"})
    ctx.isolate(c17.cache_coherence, "C06.R13", ("TaskGraph", "Task"), "the sink set behind is_complete / is_cancelled must follow the graph", 2)
