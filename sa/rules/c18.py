"""C18 — The scheduling frontier offers exactly the work that may be decided now (structural clauses)."""
from __future__ import annotations

import ast
from typing import Dict, List, Optional, Set, Tuple

from .. import cfg as cfgmod
from .. import lin
from ..anchors import SIM, TASKS, WORKLOAD, Sim
from ..core import (
    AnalysisError,
    call_name,
    calls_in,
    dotted,
    enclosing_function,
    is_self_attr,
    loc,
    method,
    methods,
    norm,
    parent,
    qualname,
    resolve_local,
    src,
)
from ..report import Context
from ..typestate import Interp
from . import c02, c06, c07

EXPLANATION = (
    "Static evaluation of the selection loop of TaskGraph.get_schedulable_tasks for every TaskState with the flags "
    "kept symbolic: COMPLETED/CANCELLED are never appended, EVICTED/PREEMPTED always, RELEASED under exactly "
    "`release_time <= time + lookahead` and nothing else, SCHEDULED only on branches that require retract_schedules, "
    "RUNNING only through the preemption tail; polarity analysis: lookahead occurs only on the larger side of <= and "
    "release_taskgraphs only positively, and neither is used in the estimation phase; the Workload wrapper and the "
    "simulator/policy call sites pass the parameters to the matching formal parameters; release on completion (C02.R4, "
    "C07.R1), get_releasable_tasks (C02.R4), released-stays-released (C06.R4). NOT decided: 'never offered a task "
    "whose predecessors have not all completed' for non-planning policies (depends on estimated completion times)."
)
ASSUMPTIONS = ["the state tests of the selection loop are evaluated with the TaskState integer order extracted from the enum"]


def _selection(ctx: Context):
    tg = ctx.repo.mod(TASKS).cls("TaskGraph")
    fn = method(tg, "get_schedulable_tasks")
    loops = [s for s in fn.body if isinstance(s, ast.For) and "topological_sort()" in norm(s.iter)]
    if len(loops) != 1:
        raise AnalysisError("get_schedulable_tasks: selection loop over topological_sort() not found")
    lp = loops[0]
    chain = [s for s in lp.body if isinstance(s, ast.If) and "state" in norm(s.test)]
    if len(chain) != 1:
        raise AnalysisError("get_schedulable_tasks: state dispatch chain not found")
    return fn, lp, chain[0]


def _partial(interp: Interp, test: ast.AST, state: str):
    """-> (value, residual conjuncts): value in True/False/None(unknown)."""
    conj = test.values if isinstance(test, ast.BoolOp) and isinstance(test.op, ast.And) else [test]
    residual = []
    for c in conj:
        v = interp.ev(c, {"_state": state})
        if v == ("bool", False):
            return False, []
        if v == ("bool", True):
            continue
        residual.append(c)
    return (True if not residual else None), residual


def r1_offer_table(ctx: Context) -> None:
    ctx.rule("C18.R1", "offer table by state: COMPLETED/CANCELLED never, EVICTED/PREEMPTED always, RELEASED iff release_time <= "
                       "time + lookahead, SCHEDULED only with retract_schedules, RUNNING only via the preemption tail")
    fn, lp, chain = _selection(ctx)
    ctx.analysed_function(f"{TASKS}::TaskGraph.get_schedulable_tasks")
    mod = ctx.repo.mod(TASKS)
    interp = Interp(mod, mod.cls("Task"), mod.cls("TaskState"), ["_state"], {})
    tvar = norm(lp.target)
    interp.dotted_aliases[f"{tvar}.state"] = "_state"
    rets = [r for r in ast.walk(fn) if isinstance(r, ast.Return)]
    out = norm(rets[-1].value)
    table: Dict[str, List[str]] = {}
    for s in interp.members:
        node = chain
        outcomes: List[Tuple[bool, List[ast.AST], ast.If]] = []  # (appends, residual, branch)
        blocked = False
        while True:
            v, residual = _partial(interp, node.test, s)
            appends = any(call_name(c) == "append" and norm(c.func.value) == out and norm(c.args[0]) == tvar
                          for st in node.body for c in ast.walk(st) if isinstance(c, ast.Call))
            if v is True:
                outcomes.append((appends, [], node))
                blocked = True
                break
            if v is None:
                outcomes.append((appends, residual, node))
            if len(node.orelse) == 1 and isinstance(node.orelse[0], ast.If):
                node = node.orelse[0]
                continue
            if node.orelse:
                app_else = any(call_name(c) == "append" and norm(c.func.value) == out for st in node.orelse for c in ast.walk(st) if isinstance(c, ast.Call))
                outcomes.append((app_else, [], node))
            break
        table[s] = [f"{'append' if a else 'skip'} if [{' and '.join(norm(r)[:60] for r in res) or 'always'}]" for a, res, _n in outcomes]
        key = f"TaskGraph.get_schedulable_tasks|state {s}"
        where = loc(chain)
        app = [(a, res, n) for a, res, n in outcomes if a]
        if s in ("COMPLETED", "CANCELLED", "RUNNING"):
            ctx.check(not app, "C18.R1", key, where, "never appended by the selection loop",
                      f"a {s} task can be offered: {table[s]}")
        elif s in ("EVICTED", "PREEMPTED"):
            ok = bool(outcomes) and outcomes[0][0] and not outcomes[0][1]
            ctx.check(ok, "C18.R1", key, where, "always appended", f"a {s} task is not always offered: {table[s]}")
        elif s == "RELEASED":
            ok = len(outcomes) >= 1 and outcomes[0][0] and len(outcomes[0][1]) == 1
            if ok:
                f = lin.formula(outcomes[0][1][0])
                want = lin.formula(ast.parse(f"{tvar}.release_time <= time + lookahead", mode="eval").body)
                ok = lin.equivalent(f, want)
            # nothing before it may swallow a RELEASED task, nothing after may append under other conditions
            ok = ok and all(not a for a, _r, _n in outcomes[1:])
            ctx.check(ok, "C18.R1", key, where, "offered iff release_time <= time + lookahead",
                      f"a RELEASED task whose release time has arrived is not (only) offered under `release_time <= time + lookahead`: {table[s]}")
        elif s == "SCHEDULED":
            ok = all(any(norm(r) == "retract_schedules" for r in res) for a, res, _n in app)
            ctx.check(ok, "C18.R1", key, where, "offered only with retract_schedules", f"a SCHEDULED task can be offered without retraction: {table[s]}")
        elif s == "VIRTUAL":
            ok = all(any("in estimated_completion_time" in norm(r) for r in res) for a, res, _n in app) and bool(app)
            ctx.check(ok, "C18.R1", key, where, "offered only with an estimated completion time", f"VIRTUAL: {table[s]}")
    ctx.extra["offer_table"] = table
    ctx.sample({"offer_table": table})
    # preemption tail
    tail = [s for s in fn.body if isinstance(s, ast.If) and norm(s.test) == "preemption"]
    ok = len(tail) == 1 and lp.end_lineno < tail[0].lineno
    ctx.check(ok, "C18.R1", "TaskGraph.get_schedulable_tasks|running tasks only under `preemption`", loc(tail[0]) if tail else loc(fn),
              "tail guarded by preemption", "running/placed tasks are added without the preemption switch")
    ext = [c for c in calls_in(fn, "extend") if norm(c.func.value) == out]
    for c in ext:
        p = parent(c)
        inside = False
        while p is not None and p is not fn:
            if tail and p is tail[0]:
                inside = True
            p = parent(p)
        ctx.check(inside, "C18.R1", f"TaskGraph.get_schedulable_tasks|`{norm(c)[:50]}` inside the preemption tail", loc(c), "ok",
                  f"`{norm(c)[:60]}` adds tasks to the offer outside the preemption tail")
    # every loop iteration considers every task of the graph, in topological order
    ctx.check(not any(isinstance(x, (ast.Break, ast.Return)) for x in ast.walk(lp)), "C18.R1", "TaskGraph.get_schedulable_tasks|selection loop visits every task",
              loc(lp), "no early exit", "the selection loop can stop early and starve later tasks")
    ctx.check(all(norm(r.value) == out for r in rets), "C18.R1", "TaskGraph.get_schedulable_tasks|returns the collected list", loc(fn), "ok", "returns something else")


NONNEG_SUFFIX = ("remaining_time", ".runtime")


def _lower_bounds(e: ast.AST, env=None) -> List[lin.Lin]:
    """Linear forms each of which is a lower bound of the expression (max() gives one per argument)."""
    if isinstance(e, ast.Call) and isinstance(e.func, ast.Name) and e.func.id == "max" and len(e.args) >= 2 and not e.keywords:
        out: List[lin.Lin] = []
        for a in e.args:
            out += _lower_bounds(a, env)
        return out
    if isinstance(e, ast.BinOp) and isinstance(e.op, ast.Add):
        return [a + b for a in _lower_bounds(e.left, env) for b in _lower_bounds(e.right, env)]
    return [lin.lin_of(e, env)]


def _at_least(l: lin.Lin, base: str) -> bool:
    """l >= base + (non-negative durations)."""
    d = l - lin.Lin({base: 1})
    return d.const >= 0 and all(c > 0 and k.endswith(NONNEG_SUFFIX) for k, c in d.terms.items())


def r3_estimates_not_early(ctx: Context) -> None:
    ctx.rule("C18.R3", "completion-time estimates that gate the offer of not-yet-released descendants are lower bounds "
                       "that cannot lie in the past: an unfinished task completes no earlier than now + its remaining/"
                       "slowest runtime, a descendant no earlier than its parent's estimate + its own runtime, and an "
                       "estimate is only ever raised")
    tg = ctx.repo.mod(TASKS).cls("TaskGraph")
    fn = method(tg, "get_schedulable_tasks")
    now = "time"
    if now not in [a.arg for a in fn.args.args]:
        raise AnalysisError("get_schedulable_tasks: parameter `time` not found")
    g = cfgmod.build(fn)
    table = None
    stores = []
    for n in ast.walk(fn):
        if isinstance(n, ast.Assign) and len(n.targets) == 1 and isinstance(n.targets[0], ast.Subscript) \
                and isinstance(n.targets[0].value, ast.Name) and "completion_time" in n.targets[0].value.id:
            table = n.targets[0].value.id
            stores.append(n)
    ctx.floor("C18.R3", "stores to the completion-time estimate table", len(stores), 5)
    first_loop = next((x for x in fn.body if isinstance(x, ast.For) and any(st in list(ast.walk(x)) for st in stores)), None)
    if first_loop is None:
        raise AnalysisError("estimation loop over the materialised tasks not found")
    tv = norm(first_loop.target)
    n_direct = 0
    for st in stores:
        inside_first = any(x is st for x in ast.walk(first_loop))
        sn = g.node_of(st)
        if inside_first:
            n_direct += 1
            states: Set[str] = set()
            retract = None
            for t in g.nodes:
                if t.kind != "test":
                    continue
                if g.edge_dominates(t, "T", sn) and f"{tv}.state" in norm(t.ast):
                    states |= {x.attr for x in ast.walk(t.ast) if isinstance(x, ast.Attribute) and isinstance(x.value, ast.Name) and x.value.id == "TaskState"}
                if norm(t.ast) == "retract_schedules":
                    retract = "T" if g.edge_dominates(t, "T", sn) else ("F" if g.edge_dominates(t, "F", sn) else None)
            key = f"TaskGraph.get_schedulable_tasks|estimate for {'/'.join(sorted(states)) or '?'}" + (f" (retract={retract})" if retract else "")
            if states == {"COMPLETED"}:
                ctx.check(norm(st.value) == f"{tv}.completion_time", "C18.R3", key, loc(st), "the recorded completion time",
                          f"a completed task's estimate is `{norm(st.value)}`")
                continue
            lbs = _lower_bounds(st.value)
            ok = any(_at_least(l, now) for l in lbs)
            if not ok and states == {"SCHEDULED"} and retract == "F":
                # a SCHEDULED task's expected start is not in the past: its placement event starts or re-times it when due
                ok = any(_at_least(l, f"{tv}.expected_start_time") for l in lbs)
            ctx.check(ok, "C18.R3", key, loc(st), "estimate >= now + remaining/slowest runtime",
                      f"the estimated completion of a {'/'.join(sorted(states))} task is `{norm(st.value)[:90]}`, which is not bounded "
                      f"below by `{now}` + its remaining time: a task that has been waiting gets an estimate in the past, so its "
                      "VIRTUAL children pass the horizon test and are offered before their predecessor has even started")
        else:
            # propagation: value is a local whose every definition keeps it >= parent estimate + own runtime; guarded update
            v = st.value
            if not isinstance(v, ast.Name):
                ctx.violation("C18.R3", "TaskGraph.get_schedulable_tasks|propagated estimate is a local", loc(st), f"`{norm(v)[:60]}`")
                continue
            parent_est = [a.targets[0].id for a in ast.walk(fn) if isinstance(a, ast.Assign) and isinstance(a.targets[0], ast.Name)
                          and isinstance(a.value, ast.Subscript) and isinstance(a.value.value, ast.Name) and a.value.value.id == table]
            defs = [a for a in ast.walk(fn) if isinstance(a, ast.Assign) and isinstance(a.targets[0], ast.Name) and a.targets[0].id == v.id]
            ok = bool(defs) and bool(parent_est)
            for d in defs:
                lbs = _lower_bounds(d.value)
                ok = ok and any(l == lin.Lin({v.id: 1}) or any(_at_least(l, pe) for pe in parent_est) for l in lbs)
            ctx.check(ok, "C18.R3", "TaskGraph.get_schedulable_tasks|descendant estimate >= parent estimate + own runtime", loc(st),
                      "every definition is such a lower bound",
                      f"`{v.id}` can be lower than the parent's estimated completion plus the child's runtime: {[norm(d.value)[:70] for d in defs]}")
            ctl = [lin.formula(t.ast) for t in g.nodes if t.kind == "test" and g.edge_dominates(t, "T", sn)]
            child = norm(st.targets[0].slice)
            want = lin.formula(ast.parse(f"{child} not in {table} or {v.id} > {table}[{child}]", mode="eval").body)
            want2 = lin.formula(ast.parse(f"{child} not in {table} or {v.id} >= {table}[{child}]", mode="eval").body)
            okg = any(lin.entails(f, want2) for f in ctl)
            # the task whose estimate changed is queued again, so that its own children are re-estimated
            blk = parent(st)
            body = getattr(blk, "body", []) if st in getattr(blk, "body", []) else getattr(blk, "orelse", [])
            requeued = any(isinstance(x, ast.Expr) and isinstance(x.value, ast.Call) and call_name(x.value) in ("append", "appendleft")
                           and x.value.args and norm(x.value.args[0]) == child for x in body)
            ctx.check(requeued, "C18.R3", f"TaskGraph.get_schedulable_tasks|a changed estimate of `{child}` is propagated again", loc(st),
                      "queue.append(child) next to the store",
                      f"the estimate of `{child}` is updated without queueing it again: the too-early estimate already pushed to its own "
                      "children stays, and they are offered before their predecessors can have finished")
            ctx.check(okg, "C18.R3", "TaskGraph.get_schedulable_tasks|an estimate is only raised", loc(st), "guarded by `new > old` or first estimate",
                      "an existing estimate can be overwritten by a smaller one: descendants are offered too early")
    ctx.floor("C18.R3", "estimates assigned by state", n_direct, 5)


def r2_monotone(ctx: Context) -> None:
    ctx.rule("C18.R2", "lookahead occurs only on the larger side of <=; release_taskgraphs only positively; neither in the estimation phase")
    fn, lp, chain = _selection(ctx)
    pre = [s for s in fn.body if s.end_lineno < lp.lineno]
    for nm in ("lookahead", "release_taskgraphs"):
        used = [n for s in pre for n in ast.walk(s) if isinstance(n, ast.Name) and n.id == nm]
        ctx.check(not used, "C18.R2", f"TaskGraph.get_schedulable_tasks|`{nm}` unused in the estimation phase", loc(used[0]) if used else loc(fn),
                  "estimation independent of it", f"`{nm}` influences the completion-time estimates: enlarging it can change, not only extend, the offer")
    n_cmp = 0
    for node in ast.walk(chain):
        if isinstance(node, ast.Compare) and any(isinstance(x, ast.Name) and x.id == "lookahead" for x in ast.walk(node)):
            n_cmp += 1
            l = lin.lin_of(node.left) - lin.lin_of(node.comparators[0])
            coef = l.terms.get("lookahead", 0)
            op = node.ops[0]
            good = (isinstance(op, (ast.LtE, ast.Lt)) and coef < 0) or (isinstance(op, (ast.GtE, ast.Gt)) and coef > 0)
            neg = _under_not(node, chain)
            ctx.check(good and not neg, "C18.R2", f"TaskGraph.get_schedulable_tasks|`{norm(node)[:60]}` monotone in lookahead", loc(node),
                      "lookahead only enlarges the bound", f"`{norm(node)[:80]}`: a larger lookahead can remove tasks from the offer")
    ctx.floor("C18.R2", "comparisons involving lookahead", n_cmp, 3)
    n_r = 0
    for node in ast.walk(chain):
        if isinstance(node, ast.Name) and node.id == "release_taskgraphs":
            n_r += 1
            ctx.check(not _under_not(node, chain) and not isinstance(parent(node), ast.Compare), "C18.R2",
                      f"TaskGraph.get_schedulable_tasks|release_taskgraphs positive at line {node.lineno}", loc(node), "positive occurrence",
                      "release_taskgraphs occurs negatively: releasing whole task graphs can remove tasks from the offer")
            # it only widens a disjunction: parent chain is And inside Or
            p = parent(node)
            in_or = False
            while p is not None and p is not chain:
                if isinstance(p, ast.BoolOp) and isinstance(p.op, ast.Or):
                    in_or = True
                p = parent(p)
            ctx.check(in_or, "C18.R2", f"TaskGraph.get_schedulable_tasks|release_taskgraphs only widens (line {node.lineno})", loc(node),
                      "inside a disjunction", "release_taskgraphs is a required conjunct: switching it off adds tasks")
    ctx.floor("C18.R2", "uses of release_taskgraphs", n_r, 2)


def _under_not(node: ast.AST, stop: ast.AST) -> bool:
    p = parent(node)
    while p is not None and p is not stop:
        if isinstance(p, ast.UnaryOp) and isinstance(p.op, ast.Not):
            return True
        p = parent(p)
    return False


def r2b_parameter_agreement(ctx: Context) -> None:
    ctx.rule("C18.R2b", "every call of get_schedulable_tasks binds each argument to the formal parameter of the same meaning")
    tg = ctx.repo.mod(TASKS).cls("TaskGraph")
    wl = ctx.repo.mod(WORKLOAD).cls("Workload")
    sigs = {"TaskGraph": [a.arg for a in method(tg, "get_schedulable_tasks").args.args[1:]],
            "Workload": [a.arg for a in method(wl, "get_schedulable_tasks").args.args[1:]]}
    ctx.check(sigs["TaskGraph"] == sigs["Workload"], "C18.R2b", "Workload/TaskGraph.get_schedulable_tasks|same parameter order", loc(wl), "same",
              f"signatures differ: {sigs}")
    syn = {"time": {"time", "sim_time", "event.time"}, "lookahead": {"lookahead", "self.lookahead", "self._scheduler.lookahead"},
           "preemption": {"preemption", "self.preemptive", "self._scheduler.preemptive"},
           "retract_schedules": {"retract_schedules", "self.retract_schedules", "self._scheduler.retract_schedules"},
           "worker_pools": {"worker_pools", "self._worker_pools"},
           "policy": {"policy", "self.policy", "self._scheduler.policy", "self._policy"},
           "branch_prediction_accuracy": {"branch_prediction_accuracy", "self.branch_prediction_accuracy", "self._scheduler.branch_prediction_accuracy"},
           "release_taskgraphs": {"release_taskgraphs", "self.release_taskgraphs", "self._scheduler.release_taskgraphs"},
           "debug": {"debug"}}
    n = 0
    for c in ctx.repo.calls_named("get_schedulable_tasks"):
        if not isinstance(c.func, ast.Attribute):
            continue
        if c._module.rel in ("schedulers/tetrisched_scheduler.py", "schedulers/graphene_scheduler.py"):
            continue
        from .c09 import _imported_somewhere
        if not _imported_somewhere(ctx, c._module):
            ctx.note(f"DEAD-MODULE {c._module.rel}: call at line {c.lineno} not analysed")
            continue
        n += 1
        params = sigs["Workload"]
        bound: Dict[str, ast.AST] = {}
        for i, a in enumerate(c.args):
            if i < len(params):
                bound[params[i]] = a
        bad_kw = []
        for k in c.keywords:
            if k.arg not in params:
                bad_kw.append(k.arg)
            else:
                bound[k.arg] = k.value
        key = f"{qualname(c)}|get_schedulable_tasks call at line {c.lineno}"
        if bad_kw:
            ctx.violation("C18.R2b", key, loc(c), f"unknown keyword(s) {bad_kw}")
            continue
        wrong = []
        for p, a in bound.items():
            t = norm(a)
            if isinstance(a, ast.Constant):
                continue
            known_other = [q for q, names in syn.items() if t in names and q != p]
            if t not in syn.get(p, set()) and known_other:
                wrong.append(f"{p}=`{t}` (that is the {known_other[0]})")
        ctx.check(not wrong, "C18.R2b", key, loc(c), f"{len(bound)} arguments bound to their parameters",
                  f"`{norm(c)[:60]}...` binds {wrong}")
    ctx.floor("C18.R2b", "get_schedulable_tasks call sites", n, 8)


def r6_frontier_is_recomputed(ctx: Context) -> None:
    ctx.rule("C18.R6", "the frontier queries (get_schedulable_tasks / get_releasable_tasks of Workload and TaskGraph) are pure "
                       "queries: they store nothing on `self` and return nothing read from a table kept on `self` - the answer depends on "
                       "task states that change without the workload being told (Task.release/schedule/start/cancel)")
    n = 0
    for rel, cname in ((WORKLOAD, "Workload"), (TASKS, "TaskGraph")):
        cls = ctx.repo.mod(rel).cls(cname)
        for mname in ("get_schedulable_tasks", "get_releasable_tasks"):
            fn = methods(cls).get(mname)
            if fn is None:
                continue
            n += 1
            stores = []
            for x in ast.walk(fn):
                if isinstance(x, (ast.Assign, ast.AugAssign)):
                    for t in (x.targets if isinstance(x, ast.Assign) else [x.target]):
                        b = t
                        while isinstance(b, ast.Subscript):
                            b = b.value
                        if is_self_attr(b):
                            stores.append(norm(x)[:60])
                if isinstance(x, ast.Call) and isinstance(x.func, ast.Attribute) and x.func.attr in ("append", "extend", "update", "setdefault", "add", "clear", "pop"):
                    b = x.func.value
                    while isinstance(b, ast.Subscript):
                        b = b.value
                    if is_self_attr(b):
                        stores.append(norm(x)[:60])
            cached_returns = [norm(r.value)[:60] for r in ast.walk(fn) if isinstance(r, ast.Return) and r.value is not None
                              and any(isinstance(y, ast.Subscript) and is_self_attr(y.value) for y in ast.walk(r.value))]
            ctx.check(not stores and not cached_returns, "C18.R6", f"{rel}::{cname}.{mname}|recomputed on every call", loc(fn), "no memo",
                      f"{cname}.{mname} keeps or returns remembered answers ({(stores + cached_returns)[:3]}): a second query after a task was "
                      "scheduled, started or released in between still offers the old set (SCHEDULED/RUNNING tasks without retraction or "
                      "preemption, or misses a newly released task)")
    ctx.floor("C18.R6", "frontier query methods", n, 3)


# Graph-level skips that cannot drop a task the per-graph query would have returned, one line of reason each.
_R7_HARMLESS_SKIPS = {
    # deliberately not listed: `G.is_complete()` (all *sinks* complete) - a join may run after its first completed parent, so
    # a graph whose sinks are done can still hold a released task of another branch
    "len(G) == 0": "a graph without tasks has nothing to offer",
}


def r7_every_graph_is_asked(ctx: Context) -> None:
    ctx.rule("C18.R7", "the workload-level frontier queries ask every task graph: each call of the per-graph query inside "
                       "Workload.get_schedulable_tasks / get_releasable_tasks iterates over the whole task-graph table and is not "
                       "behind a graph-level condition (other than the listed harmless ones) - a skipped graph starves its released tasks")
    wl = ctx.repo.mod(WORKLOAD).cls("Workload")
    n = 0
    for mname in ("get_schedulable_tasks", "get_releasable_tasks"):
        fn = methods(wl).get(mname)
        if fn is None:
            continue
        ctx.analysed_function(qualname(fn))
        calls = [c for c in ast.walk(fn) if isinstance(c, ast.Call) and isinstance(c.func, ast.Attribute) and c.func.attr == mname
                 and not is_self_attr(c.func) and norm(c.func.value) != "self"]
        key = f"{WORKLOAD}::Workload.{mname}|every task graph is asked"
        if not calls:
            ctx.violation("C18.R7", key, loc(fn), f"Workload.{mname} no longer forwards to the per-graph {mname}")
            continue
        for c in calls:
            n += 1
            gname = norm(c.func.value)
            guards: List[Tuple[str, ast.AST]] = []   # (condition under which the graph is skipped, node)
            src = None
            x, below = parent(c), c
            while x is not None and x is not fn:
                if isinstance(x, ast.If) or isinstance(x, ast.IfExp):
                    in_body = any(below is b for b in (x.body if isinstance(x.body, list) else [x.body]))
                    in_test = below is x.test
                    if not in_test:
                        guards.append((("not (%s)" % norm(x.test)) if in_body else norm(x.test), x))
                if isinstance(x, (ast.ListComp, ast.GeneratorExp, ast.SetComp)):
                    for g in x.generators:
                        if any(isinstance(y, ast.Name) and y.id == gname.split(".")[0].split("[")[0] for y in ast.walk(g.target)) or \
                                gname.startswith("self._task_graphs["):
                            for t in g.ifs:
                                guards.append(("not (%s)" % norm(t), t))
                            if src is None:
                                src = g.iter
                if isinstance(x, ast.For):
                    tnames = {y.id for y in ast.walk(x.target) if isinstance(y, ast.Name)}
                    if gname.split(".")[0].split("[")[0] in tnames or any(isinstance(y, ast.Name) and y.id in tnames for y in ast.walk(c.func.value)):
                        if src is None:
                            src = x.iter
                        # statements of the loop body before the one holding the call that leave the iteration early
                        for st in x.body:
                            if st is below:
                                break
                            for y in ast.walk(st):
                                if isinstance(y, (ast.Continue, ast.Break, ast.Return)):
                                    conds = []
                                    q = parent(y)
                                    qb = y
                                    while q is not None and q is not x:
                                        if isinstance(q, ast.If):
                                            conds.append(norm(q.test) if any(qb is b for b in q.body) else "not (%s)" % norm(q.test))
                                        qb, q = q, parent(q)
                                    guards.append((" and ".join(conds) if conds else "True", y))
                below, x = x, parent(x)
            if src is None:
                ctx.violation("C18.R7", key, loc(c), f"the per-graph call `{norm(c)[:50]}` is not made inside an iteration over the task-graph table")
                continue
            it = src
            while isinstance(it, ast.Call) and isinstance(it.func, ast.Name) and it.func.id in ("list", "tuple", "sorted", "iter", "reversed") and it.args:
                it = it.args[0]
            whole = norm(it) in ("self._task_graphs.values()", "self._task_graphs.items()", "self._task_graphs", "self._task_graphs.keys()")
            if not whole and isinstance(it, ast.Name):
                d = resolve_local(fn, it)
                whole = norm(d) in ("self._task_graphs.values()", "self._task_graphs.items()", "self._task_graphs", "list(self._task_graphs.values())")
            bad = []
            for cond, node in guards:
                generic = cond.replace(gname, "G")
                f = generic
                for h in _R7_HARMLESS_SKIPS:
                    if f in (h, f"not (not ({h}))", f"not (not {h})"):
                        f = None
                        break
                if f is not None:
                    bad.append((cond, node))
            if not whole:
                ctx.violation("C18.R7", key, loc(src), f"Workload.{mname} iterates over `{norm(src)[:60]}`, not the whole task-graph table")
            elif bad:
                cond, node = bad[0]
                ctx.violation("C18.R7", key, loc(node), f"Workload.{mname} skips a task graph when `{cond[:80]}`: released tasks of such a graph "
                              "whose release time has arrived are never offered to the policy (starvation)")
            else:
                ctx.ok("C18.R7", key, loc(c), f"iterates `{norm(src)[:40]}`; graph-level guards: {[g[0] for g in guards] or 'none'}")
    ctx.floor("C18.R7", "per-graph frontier calls in Workload", n, 2)


def run(ctx: Context) -> None:
    ctx.isolate(r1_offer_table)
    ctx.isolate(r2_monotone)
    ctx.isolate(r3_estimates_not_early)
    from . import c17
    ctx.isolate(c17.r7_adjacency_maps_in_step, _alias={"C17.R7": "C18.R4"})
    ctx.isolate(c06.remaining_time_table, "C18.R5")
    ctx.isolate(r6_frontier_is_recomputed)
    ctx.isolate(r7_every_graph_is_asked)
    ctx.isolate(r2b_parameter_agreement)
    ctx.isolate(c02.r4_release_discipline)
    ctx.isolate(c07.r1_one_of_n)
    ctx.isolate(c06.r2_r3_r4_relation)
