"""C05 — Every simulation terminates, and feasible work is always finished (structural clauses)."""
from __future__ import annotations

import ast
from typing import Dict, List, Optional, Set, Tuple

from .. import cfg as cfgmod
from .. import lin
from ..anchors import SIM, TASKS, Sim, event_constructions, event_type_of
from ..core import (
    AnalysisError,
    call_name,
    calls_in,
    dotted,
    enclosing_class,
    enclosing_function,
    is_self_attr,
    loc,
    method,
    methods,
    norm,
    parent,
    qualname,
    src,
    UNCONFIRMABLE_FILES,
)
from ..report import Context
from . import c03

EXPLANATION = (
    "Termination is a liveness property over runtime values; only necessary structural conditions are decided: "
    "in the next-scheduler routine every path that returns a SCHEDULER_START event tests the final value of the "
    "start time against the loop timeout after its last assignment; every SIMULATOR_END event is created at a time "
    "that is provably not before the current event; TASK_PLACEMENT retries advance by at least 1us; simulate() "
    "leaves its loop only when the handler reports SIMULATOR_END, and SIMULATOR_END events are constructed only in "
    "the next-scheduler routine, which is called on every SCHEDULER_FINISHED; a SCHEDULER_FINISHED event is queued "
    "for every SCHEDULER_START; in Task.step no path returns 'not finished' for a RUNNING task whose remaining time "
    "is zero unless its completion was already reported; every placed create_task_placement in a policy supplies the "
    "execution strategy the simulator dereferences. NOT decided: absence of livelock in general, 'ends before the "
    "timeout with every task completed', 'never ends while runnable work remains'."
)
ASSUMPTIONS = ["loop bound 2 for path enumeration in the next-scheduler routine (its only loop collects remaining times)"]


def _next_sched(sim: Sim) -> ast.FunctionDef:
    c = [m for m in sim.methods.values() if event_constructions(m, "SIMULATOR_END") and event_constructions(m, "SCHEDULER_START")]
    if len(c) != 1:
        raise AnalysisError("next-scheduler routine (creates SIMULATOR_END and SCHEDULER_START events) not found")
    return c[0]


def r1_timeout_dominance(ctx: Context) -> None:
    ctx.rule("C05.R1", "every path of the next-scheduler routine that returns a SCHEDULER_START event compares the final "
                       "start time with the loop timeout after its last assignment")
    sim = Sim(ctx.repo)
    fn = _next_sched(sim)
    ctx.analysed_function(qualname(fn))
    evs = event_constructions(fn, "SCHEDULER_START")
    tvar = None
    for e in evs:
        t = next((k.value for k in e.keywords if k.arg == "time"), None)
        if isinstance(t, ast.Name):
            tvar = t.id
    if tvar is None:
        raise AnalysisError("SCHEDULER_START event time is not a local variable")
    timeout_param = "loop_timeout"
    if timeout_param not in [a.arg for a in fn.args.args]:
        raise AnalysisError("loop_timeout parameter not found")
    g = cfgmod.build(fn)
    n_paths = 0
    bad: Dict[str, ast.AST] = {}
    ok_assign: Set[str] = set()
    for path in g.paths(loop_bound=1, max_paths=400000):
        if path[-1][0].kind != "ret":
            continue
        last = path[-2][0].ast
        if not (isinstance(last, ast.Return) and last.value is not None):
            continue
        rv = last.value
        is_start = False
        if isinstance(rv, ast.Call) and event_type_of(rv) == "SCHEDULER_START":
            is_start = True
        elif any(e for e in evs if _reaches_return(fn, e, rv)):
            is_start = True
        if not is_start:
            continue
        n_paths += 1
        # an event built on the spot whose time is an expression of its own (not the checked start-time
        # variable) has to be compared with the timeout as that expression on the same path
        ev_here = rv if isinstance(rv, ast.Call) else next((e for e in evs if _reaches_return(fn, e, rv)), None)
        t_here = next((k.value for k in ev_here.keywords if k.arg == "time"), None) if ev_here is not None else None
        if t_here is None and ev_here is not None and len(ev_here.args) >= 2:
            t_here = ev_here.args[1]
        if t_here is not None and not isinstance(t_here, ast.Name):
            want = lin.formula(ast.parse(f"({ast.unparse(t_here)}) >= {timeout_param}", mode="eval").body)
            seen = False
            for (n, lab) in path:
                if lab is not None and lab[0] in ("T", "F") and isinstance(lab[1], ast.AST):
                    f = lin.formula(lab[1])
                    f = f if lab[0] == "T" else lin.f_not(f)
                    if lin.equivalent(f, lin.f_not(want)):
                        seen = True
            key = f"`{norm(ev_here)[:90]}`"
            if seen:
                ok_assign.add(key)
            else:
                bad.setdefault(key, ev_here)
            continue
        if isinstance(t_here, ast.Name) and t_here.id != tvar:
            tvar_here = t_here.id
        else:
            tvar_here = tvar
        # last assignment to tvar on this path, and the aliases it was copied from
        last_idx = None
        last_node = None
        for i, (n, _l) in enumerate(path):
            a = n.ast
            if n.kind == "stmt" and isinstance(a, ast.Assign) and any(isinstance(t, ast.Name) and t.id == tvar_here for t in a.targets):
                last_idx, last_node = i, a
        if last_node is None:
            continue
        names = {tvar_here}
        if isinstance(last_node.value, ast.Name):
            names.add(last_node.value.id)  # tvar = adjusted: a test on `adjusted` before the copy also counts
            start_from = 0
            for i, (n, _l) in enumerate(path[:last_idx]):
                a = n.ast
                if n.kind == "stmt" and isinstance(a, ast.Assign) and any(isinstance(t, ast.Name) and t.id == last_node.value.id for t in a.targets):
                    start_from = i
        else:
            start_from = last_idx
        checked = False
        for (n, lab) in path[start_from + 1:]:
            if lab is not None and lab[0] in ("T", "F") and isinstance(lab[1], ast.AST):
                for nm in names:
                    want = lin.formula(ast.parse(f"{nm} >= {timeout_param}", mode="eval").body)
                    f = lin.formula(lab[1])
                    f = f if lab[0] == "T" else lin.f_not(f)
                    if lin.equivalent(f, lin.f_not(want)):
                        checked = True
        key = f"`{norm(last_node)[:70]}`"
        if checked:
            ok_assign.add(key)
        else:
            bad.setdefault(key, last_node)
    ctx.count("next_scheduler_start_paths", n_paths)
    ctx.floor("C05.R1", "paths returning SCHEDULER_START", n_paths, 4)
    for key, node in bad.items():
        ctx.violation("C05.R1", f"{qualname(fn)}|{key} not re-checked against the timeout", loc(node),
                      f"after {key} some path returns the SCHEDULER_START event without comparing the new start time with "
                      "loop_timeout: the run can continue past the timeout")
    for key in ok_assign - set(bad):
        ctx.ok("C05.R1", f"{qualname(fn)}|{key} checked against the timeout", loc(fn), "followed by `< loop_timeout` on every returning path")
    ctx.sample({"start_time_variable": tvar, "paths": n_paths, "assignments_checked": sorted(ok_assign - set(bad))})


def _reaches_return(fn: ast.FunctionDef, ev: ast.Call, rv: ast.AST) -> bool:
    """`return self._x` where self._x = Event(...) was assigned just before."""
    p = parent(ev)
    if isinstance(p, ast.Assign) and len(p.targets) == 1 and norm(p.targets[0]) == norm(rv):
        return True
    return False


def _ge_event_time(fn: ast.FunctionDef, t: ast.AST, depth=0) -> bool:
    """t >= event.time is evident from the expression alone."""
    if isinstance(t, ast.Name) and depth < 3:
        defs = [n for n in ast.walk(fn) if isinstance(n, ast.Assign) and len(n.targets) == 1 and isinstance(n.targets[0], ast.Name)
                and n.targets[0].id == t.id]
        return bool(defs) and all(_ge_event_time(fn, d.value, depth + 1) for d in defs)
    if norm(t) == "event.time":
        return True
    if isinstance(t, ast.BinOp) and isinstance(t.op, ast.Add):
        for a, b in ((t.left, t.right), (t.right, t.left)):
            if _ge_event_time(fn, a, depth + 1):
                l = lin.lin_of(b)
                if l.is_const() and l.const >= 0:
                    return True
                if isinstance(b, ast.Call) and call_name(b) == "max" and any(lin.lin_of(x).is_const() and lin.lin_of(x).const >= 0 for x in b.args):
                    return True
    if isinstance(t, ast.Call) and call_name(t) == "max":
        return any(_ge_event_time(fn, a, depth + 1) for a in t.args)
    return False


def r2_r6_event_times(ctx: Context) -> None:
    ctx.rule("C05.R2", "TASK_PLACEMENT retries are re-queued at least 1us later (shared with C03.R4)")
    ctx.rule("C05.R6", "every SIMULATOR_END event is created at a time that is evidently >= the current event time")
    c03.r4_never_earlier(ctx)
    sim = Sim(ctx.repo)
    fn = _next_sched(sim)
    ends = []
    for m in ctx.repo.program_modules():
        ends += event_constructions(m.tree, "SIMULATOR_END")
    ctx.floor("C05.R6", "SIMULATOR_END event constructions", len(ends), 2)
    g = cfgmod.build(fn)
    for e in ends:
        key = f"{qualname(e)}|SIMULATOR_END time `{norm(next((k.value for k in e.keywords if k.arg == 'time'), e))[:40]}`"
        if enclosing_function(e) is not fn:
            ctx.violation("C05.R3", key + " outside the next-scheduler routine", loc(e),
                          "a SIMULATOR_END event is created outside the routine that decides the end of the run")
            continue
        t = next((k.value for k in e.keywords if k.arg == "time"), None)
        ok = t is not None and _ge_event_time(fn, t)
        if not ok and t is not None:
            # or dominated by a test establishing t >= event.time
            want = lin.formula(ast.Compare(left=t, ops=[ast.GtE()], comparators=[ast.parse("event.time", mode="eval").body]))
            en = g.node_of(e)
            for tn in g.nodes:
                if tn.kind == "test":
                    f = lin.formula(tn.ast)
                    if (g.edge_dominates(tn, "T", en) and lin.entails(f, want)) or (g.edge_dominates(tn, "F", en) and lin.entails(lin.f_not(f), want)):
                        ok = True
        ctx.check(ok, "C05.R6", key, loc(e), "not before the current event",
                  f"SIMULATOR_END is created at `{norm(t) if t is not None else '?'}`, which can lie before the current time "
                  "(the loop then fails with 'cannot step backwards')")


def r3_exit_structure(ctx: Context) -> None:
    ctx.rule("C05.R3", "simulate() leaves its loop only when the handler reports SIMULATOR_END; the handler returns True "
                       "only for SIMULATOR_END; every SCHEDULER_START leads to a SCHEDULER_FINISHED and every "
                       "SCHEDULER_FINISHED to the next scheduler/end event")
    sim = Sim(ctx.repo)
    fn = sim.method("simulate")
    loops = [n for n in fn.body if isinstance(n, ast.While)]
    if len(loops) != 1:
        raise AnalysisError("simulate(): one top-level while loop expected")
    lp = loops[0]
    ctx.check(isinstance(lp.test, ast.Constant) and lp.test.value is True, "C05.R3", "Simulator.simulate|while True", loc(lp), "ok",
              f"loop condition is `{norm(lp.test)}`")
    exits = [n for n in ast.walk(lp) if isinstance(n, (ast.Break, ast.Return))]
    ctx.floor("C05.R3", "loop exits in simulate()", len(exits), 1)
    for x in exits:
        p = parent(x)
        ok = isinstance(p, ast.If) and x in p.body and isinstance(p.test, ast.Call) and is_self_attr(p.test.func) \
            and p.test.func.attr == sim.dispatch.name
        ctx.check(ok, "C05.R3", f"Simulator.simulate|exit at line {x.lineno} guarded by the handler result", loc(x), "if handle_event(...): break",
                  "the loop can be left without a SIMULATOR_END having been handled")
    ctx.check(not any(isinstance(n, ast.Raise) for n in ast.walk(lp)), "C05.R3", "Simulator.simulate|no raise in the loop", loc(lp), "ok", "loop raises")
    d = sim.dispatch
    g = cfgmod.build(d)
    rt = [r for r in ast.walk(d) if isinstance(r, ast.Return) and isinstance(r.value, ast.Constant) and r.value.value is True]
    ctx.floor("C05.R3", "return True in the dispatch", len(rt), 1)
    for r in rt:
        rn = g.node_of(r)
        tests = [t for t in g.nodes if t.kind == "test" and norm(t.ast) == "event.event_type == EventType.SIMULATOR_END"]
        ok = any(g.edge_dominates(t, "T", rn) for t in tests)
        ctx.check(ok, "C05.R3", f"{qualname(d)}|True only for SIMULATOR_END", loc(r), "guarded", "the dispatch reports the end of the loop for another event type")
    others = [r for r in ast.walk(d) if isinstance(r, ast.Return) and not (isinstance(r.value, ast.Constant) and r.value.value in (True, False))]
    ctx.check(not others, "C05.R3", f"{qualname(d)}|returns only booleans", loc(d), "ok", f"returns `{[norm(o.value) for o in others]}`")
    # scheduler start -> finished
    hs = sim.handler("SCHEDULER_START")
    gs = cfgmod.build(hs)
    adds = [c for c in calls_in(hs, "add_event")]
    ok = False
    for a in adds:
        arg = a.args[0] if a.args else None
        if isinstance(arg, ast.Name):
            defs = [x for x in ast.walk(hs) if isinstance(x, ast.Assign) and any(isinstance(t, ast.Name) and t.id == arg.id for t in x.targets)]
            if defs and isinstance(defs[0].value, ast.Call) and is_self_attr(defs[0].value.func):
                callee = sim.methods.get(defs[0].value.func.attr)
                if callee is not None and all(isinstance(r.value, ast.Call) and event_type_of(r.value) == "SCHEDULER_FINISHED"
                                              for r in ast.walk(callee) if isinstance(r, ast.Return)):
                    an = gs.node_of(a)
                    ok = not gs.reachable_from_entry(gs.ret, {an.id})
    ctx.check(ok, "C05.R3", f"{qualname(hs)}|queues SCHEDULER_FINISHED on every path", loc(hs), "add_event(run_scheduler(event))",
              "a scheduler invocation may never be followed by SCHEDULER_FINISHED: the event chain that ends the run breaks")
    hf = sim.handler("SCHEDULER_FINISHED")
    gf = cfgmod.build(hf)
    nxt = _next_sched(sim)
    calls = [c for c in calls_in(hf) if is_self_attr(c.func) and c.func.attr == nxt.name]
    ok = False
    if calls:
        p = parent(calls[0])
        if isinstance(p, ast.Assign) and isinstance(p.targets[0], ast.Name):
            v = p.targets[0].id
            adds = [c for c in calls_in(hf, "add_event") if c.args and isinstance(c.args[0], ast.Name) and c.args[0].id == v]
            if adds:
                an = gf.node_of(adds[0])
                # on every normal path (raise paths excluded: they abort the run loudly)
                ok = not gf.reachable_from_entry(gf.ret, {an.id})
    ctx.check(ok, "C05.R3", f"{qualname(hf)}|queues the next scheduler/end event on every path", loc(hf), "add_event(next_sched_event)",
              "after a scheduler invocation no further SCHEDULER_START / SIMULATOR_END may be queued: the run can starve")
    # every return of the next-scheduler routine is an Event
    for r in [r for r in ast.walk(nxt) if isinstance(r, ast.Return)]:
        v = r.value
        ok = (isinstance(v, ast.Call) and event_type_of(v) in ("SIMULATOR_END", "SCHEDULER_START")) or \
             (v is not None and any(_reaches_return(nxt, e, v) for e in event_constructions(nxt)))
        ctx.check(ok, "C05.R3", f"{qualname(nxt)}|return at line {r.lineno} is a scheduler/end event", loc(r), "ok",
                  f"returns `{norm(v)[:60] if v is not None else None}`")


def r7_end_of_work(ctx: Context) -> None:
    ctx.rule("C05.R7", "a SIMULATOR_END event that is not the timeout exit is created only under a test that entails: the "
                       "event queue is empty (peek() is None), nothing is schedulable, nothing is running")
    sim = Sim(ctx.repo)
    fn = _next_sched(sim)
    g = cfgmod.build(fn)

    def local_from(callname, recv=None):
        out = []
        for a in ast.walk(fn):
            if isinstance(a, ast.Assign) and len(a.targets) == 1:
                tgt, val = a.targets[0], a.value
            elif isinstance(a, ast.AnnAssign) and a.value is not None:
                tgt, val = a.target, a.value
            else:
                continue
            if not isinstance(tgt, ast.Name):
                continue
            for c in ast.walk(val):
                if isinstance(c, ast.Call) and call_name(c) == callname and (
                        recv is None or (isinstance(c.func, ast.Attribute) and is_self_attr(c.func.value, recv))):
                    out.append(tgt.id)
                    break
        return out

    q = local_from("peek", "_event_queue")
    s_ = local_from("get_schedulable_tasks")
    r_ = local_from("get_placed_tasks")
    ctx.floor("C05.R7", "locals holding queue head / schedulable tasks / running tasks", min(len(q), len(s_), len(r_)), 1)
    needs = [("the event queue is empty", lin.formula(ast.parse(f"{q[0]} is None", mode="eval").body)),
             ("no task is schedulable", lin.formula(ast.parse(f"len({s_[0]}) == 0", mode="eval").body)),
             ("no task is running", lin.formula(ast.parse(f"len({r_[0]}) == 0", mode="eval").body))]
    # the three locals are single-assignment (otherwise the test may look at a stale value)
    for name in (q[0], s_[0], r_[0]):
        n_defs = sum(1 for a in ast.walk(fn) if isinstance(a, (ast.Assign, ast.AugAssign, ast.AnnAssign))
                     for t in (a.targets if isinstance(a, ast.Assign) else [a.target]) if isinstance(t, ast.Name) and t.id == name)
        ctx.check(n_defs == 1, "C05.R7", f"{qualname(fn)}|`{name}` assigned once", loc(fn), "single definition", f"`{name}` is re-assigned")
    ends = event_constructions(fn, "SIMULATOR_END")
    n_work = 0
    for e in ends:
        en = g.node_of(e)
        doms = [(t, pol) for t in g.nodes if t.kind == "test" for pol in ("T", "F") if g.edge_dominates(t, pol, en)]
        timeout = any("loop_timeout" in norm(t.ast) and pol == "T" for t, pol in doms)
        if timeout:
            continue
        n_work += 1
        for what, need in needs:
            ok = False
            for t, pol in doms:
                f = lin.formula(t.ast)
                f = f if pol == "T" else lin.f_not(f)
                try:
                    if lin.entails(f, need):
                        ok = True
                        break
                except ValueError:
                    continue
            ctx.check(ok, "C05.R7", f"{qualname(fn)}|end of work requires: {what}", loc(e), "entailed by a dominating test",
                      f"the run is ended (SIMULATOR_END at line {e.lineno}) without having established that {what}: "
                      "released or still-arriving work can be left unfinished")
    ctx.floor("C05.R7", "out-of-work SIMULATOR_END constructions", n_work, 1)


def r9_timeout_handed_over(ctx: Context) -> None:
    ctx.rule("C05.R9", "every call of the next-scheduler routine binds its formal parameters to the simulator's own settings: "
                       "loop_timeout <- self._loop_timeout (a missing argument falls back to sys.maxsize: the run ignores the "
                       "configured timeout), scheduler_frequency <- self._scheduler_frequency, last start <- self._last_scheduler_start_time")
    sim = Sim(ctx.repo)
    nxt = _next_sched(sim)
    formals = [a.arg for a in nxt.args.args][1:]
    want = {"loop_timeout": "self._loop_timeout", "scheduler_frequency": "self._scheduler_frequency",
            "last_scheduler_start_time": "self._last_scheduler_start_time"}
    n = 0
    for m in sim.methods.values():
        for c in calls_in(m):
            if not (is_self_attr(c.func) and c.func.attr == nxt.name):
                continue
            n += 1
            bound = {}
            for i, a in enumerate(c.args):
                if i < len(formals):
                    bound[formals[i]] = norm(a)
            for k in c.keywords:
                if k.arg:
                    bound[k.arg] = norm(k.value)
            for formal, actual in want.items():
                if formal not in formals:
                    raise AnalysisError(f"next-scheduler routine lost its `{formal}` parameter")
                ctx.check(bound.get(formal) == actual, "C05.R9", f"{qualname(m)}|{formal} <- {actual}", loc(c), "bound",
                          f"`{formal}` of the next-scheduler routine is bound to `{bound.get(formal, 'its default')}`, not `{actual}`")
    ctx.floor("C05.R9", "calls of the next-scheduler routine", n, 1)


def r12_requeued_placement_stays_registered(ctx: Context) -> None:
    ctx.rule("C05.R12", "a TASK_PLACEMENT event that a handler re-queues (task or worker not ready) is also stored as the task's "
                        "pending placement (`_future_placement_events[task.id] = <that event>`) on every path: the cache and the queue name "
                        "the same event, otherwise a later identity / cancellation lookup drops the only placement the task has")
    sim = Sim(ctx.repo)
    n = 0
    ph = sim.handler("TASK_PLACEMENT")
    for name, m in sim.methods.items():
        evs = list(event_constructions(m, "TASK_PLACEMENT"))
        if m is ph:
            # inside the TASK_PLACEMENT handler `Event(event_type=event.event_type, ...)` re-creates a placement event
            evs += [c for c in ast.walk(m) if isinstance(c, ast.Call) and call_name(c) == "Event"
                    and any(k.arg == "event_type" and norm(k.value).endswith(".event_type") for k in c.keywords)]
        if not evs:
            continue
        g = cfgmod.build(m)
        for e in evs:
            asg = parent(e)
            if not (isinstance(asg, ast.Assign) and isinstance(asg.targets[0], ast.Name)):
                continue
            var = asg.targets[0].id
            adds = [c for c in calls_in(m, "add_event") if c.args and isinstance(c.args[0], ast.Name) and c.args[0].id == var and g.dominates(g.node_of(asg), g.node_of(c))]
            for a in adds:
                n += 1
                an = g.node_of(a)
                stores = [x for x in ast.walk(m) if isinstance(x, ast.Assign) and isinstance(x.targets[0], ast.Subscript)
                          and is_self_attr(x.targets[0].value, "_future_placement_events") and isinstance(x.value, ast.Name) and x.value.id == var]
                ok = any(g.dominates(g.node_of(st), an) or (g.dominates(an, g.node_of(st)) and not g.reachable(an, g.ret, avoid={g.node_of(st).id})) for st in stores)
                ctx.check(ok, "C05.R12", f"{qualname(m)}|re-queued `{var}` registered as the pending placement", loc(a), "cache store paired with add_event",
                          f"`{var}` is put back into the event queue but `_future_placement_events` keeps pointing at the consumed event: the task's only "
                          "placement can be dropped as superseded / cannot be found for cancellation, and the task stays SCHEDULED for ever")
    ctx.floor("C05.R12", "re-queued TASK_PLACEMENT events", n, 2)


def r4_no_stuck_running(ctx: Context) -> None:
    ctx.rule("C05.R4", "Task.step never answers 'not finished' for a RUNNING task whose remaining time is zero, unless "
                       "its completion was already reported")
    task = ctx.repo.mod(TASKS).cls("Task")
    fn = method(task, "step")
    ctx.analysed_function(f"{TASKS}::Task.step")
    g = cfgmod.build(fn)
    n = 0
    for path in g.paths(loop_bound=1):
        if path[-1][0].kind != "ret":
            continue
        last = path[-2][0].ast
        if not (isinstance(last, ast.Return) and isinstance(last.value, ast.Constant) and last.value.value is False):
            continue
        conds = cfgmod.path_conditions(path)
        # paths refused because the task is not running are not of interest
        if any(p == "T" and "TaskState.RUNNING" in norm(t) and "!=" in norm(t) for p, t in conds):
            continue
        n += 1
        # symbolic remaining time along the path
        rem = lin.Lin({"R0": 1})
        env: Dict[str, lin.Lin] = {}
        forms = []
        for (node, lab) in path:
            if lab is not None and lab[0] in ("T", "F") and isinstance(lab[1], ast.AST):
                f = lin.formula(_subst_remaining(lab[1]), env=dict(env, **{"__R__": rem}))
                forms.append(f if lab[0] == "T" else lin.f_not(f))
            a = node.ast
            if node.kind == "stmt" and isinstance(a, ast.Assign) and len(a.targets) == 1:
                t = a.targets[0]
                if isinstance(t, ast.Name):
                    env[t.id] = lin.lin_of(_subst_remaining(a.value), env=dict(env, **{"__R__": rem}))
                elif is_self_attr(t, "_remaining_time"):
                    rem = lin.lin_of(_subst_remaining(a.value), env=dict(env, **{"__R__": rem}))
            elif node.kind == "stmt" and isinstance(a, ast.AugAssign) and is_self_attr(a.target, "_remaining_time"):
                d = lin.lin_of(_subst_remaining(a.value), env=dict(env, **{"__R__": rem}))
                rem = rem - d if isinstance(a.op, ast.Sub) else rem + d
        pc = ("and", forms) if forms else ("const", True)
        goal_l = rem  # rem > 0  <=> -rem < 0
        goal = lin._atom(*lin._canon_lt(-goal_l, True))
        reported = any(p == "T" and "_completion_reported" in norm(t) for p, t in conds) or \
            any("_completion_reported" in lin.show(f) and lin.entails(pc, ("atom", ("bool", "self._completion_reported"), True)) for f in forms)
        desc = " & ".join(f"{p}:{norm(t)[:50]}" for p, t in conds)
        key = f"Task.step|returns False on path[{desc}]"
        ok = lin.entails(pc, goal) or reported
        ctx.check(ok, "C05.R4", key, loc(last), "remaining > 0 at exit" if not reported else "completion already reported",
                  "a RUNNING task with zero remaining time is answered 'not finished' and no completion was ever reported: "
                  "the simulator loop then steps by zero forever")
    ctx.floor("C05.R4", "not-finished paths of Task.step", n, 2)
    # the flag is set exactly on the path that reports completion
    sets = [x for x in ast.walk(fn) if isinstance(x, ast.Assign) and any(is_self_attr(t, "_completion_reported") for t in x.targets)]
    rt = [r for r in ast.walk(fn) if isinstance(r, ast.Return) and isinstance(r.value, ast.Constant) and r.value.value is True]
    if sets:
        for s in sets:
            ok = isinstance(s.value, ast.Constant) and s.value.value is True and any(
                g.dominates(g.node_of(s), g.node_of(r)) and not g.reachable(g.node_of(s), g.ret, avoid={g.node_of(r).id}) for r in rt)
            ctx.check(ok, "C05.R4", "Task.step|completion flag set only when True is returned", loc(s), "set right before `return True`",
                      "the completion-reported flag is set on a path that does not report completion")
        for mname, m in methods(task).items():
            if mname in ("step", "__init__"):
                continue
            for x in ast.walk(m):
                if isinstance(x, ast.Assign) and any(is_self_attr(t, "_completion_reported") for t in x.targets):
                    ctx.violation("C05.R4", f"Task.{mname}|writes the completion flag", loc(x), "the completion-reported flag is written outside step()")


def _subst_remaining(e: ast.AST) -> ast.AST:
    """Replace self._remaining_time by the placeholder name __R__ (on a copy of the expression)."""
    class Sub(ast.NodeTransformer):
        def visit_Attribute(self, node):
            if is_self_attr(node, "_remaining_time"):
                return ast.Name(id="__R__", ctx=ast.Load())
            return self.generic_visit(node)
    src_text = ast.unparse(e)
    tree = ast.parse(src_text, mode="eval").body
    out = Sub().visit(tree)
    return ast.fix_missing_locations(out)


def r5_strategy_supplied(ctx: Context, rule: str = "C05.R5") -> None:
    ctx.rule(rule, "every placed create_task_placement(...) in a policy supplies execution_strategy (the simulator "
                   "dereferences it in the SCHEDULER_FINISHED row and in Task.schedule)")
    n = 0
    for c in ctx.repo.calls_named("create_task_placement"):
        rel = c._module.rel
        if not rel.startswith("schedulers/"):
            continue
        kws = {k.arg for k in c.keywords if k.arg}
        npos = len(c.args)
        wp = next((k.value for k in c.keywords if k.arg == "worker_pool_id"), c.args[2] if npos >= 3 else None)
        placed = wp is not None and not (isinstance(wp, ast.Constant) and wp.value is None)
        if not placed:
            continue
        n += 1
        has = "execution_strategy" in kws or npos >= 5
        key = f"{qualname(c)}|placed decision carries a strategy"
        if rel in UNCONFIRMABLE_FILES:
            if not has:
                ctx.note(f"UNCONFIRMABLE {loc(c)}: placed decision without execution_strategy in a module that needs tetrisched_py")
            continue
        if has:
            sv = next((k.value for k in c.keywords if k.arg == "execution_strategy"), None)
            isnone = isinstance(sv, ast.Constant) and sv.value is None
            ctx.check(not isnone, rule, key, loc(c), "strategy supplied", "execution_strategy=None on a placed decision")
        else:
            ctx.violation(rule, key, loc(c), "a placed decision is returned without an execution strategy: the simulator "
                          "dereferences placement.execution_strategy.runtime when it applies the decision")
    ctx.floor(rule, "placed create_task_placement calls in policies", n, 8)
    sim = Sim(ctx.repo)
    h = sim.handler("SCHEDULER_FINISHED")
    ok = any("placement.execution_strategy.runtime" in norm(x) for x in ast.walk(h) if isinstance(x, ast.Attribute))
    if not ok:
        ctx.note("the simulator no longer dereferences placement.execution_strategy in the SCHEDULER_FINISHED handler")


def run(ctx: Context) -> None:
    ctx.isolate(r1_timeout_dominance)
    ctx.isolate(r2_r6_event_times)
    ctx.isolate(r3_exit_structure)
    ctx.isolate(r4_no_stuck_running)
    ctx.isolate(r5_strategy_supplied)
    ctx.isolate(r7_end_of_work)
    ctx.isolate(r9_timeout_handed_over)
    ctx.isolate(r12_requeued_placement_stays_registered)
    from . import c19
    ctx.isolate(c19.r6_closed_loop, _alias={"C19.R6": "C05.R10"})
    from . import c06
    ctx.isolate(c06.remaining_time_table, "C05.R11")
    ctx.isolate(c03.r7_step_accounting, _alias={"C03.R7": "C05.R8"})
