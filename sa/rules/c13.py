"""C13 — EDF, FIFO and LSF honour their priority order (no priority inversion). Shared greedy-policy analysis."""
from __future__ import annotations

import ast
from typing import Dict, List, Optional, Set, Tuple

from .. import cfg as cfgmod
from .. import lin
from ..anchors import WORKERS
from ..core import (
    AnalysisError,
    call_name,
    calls_in,
    dotted,
    enclosing_function,
    is_self_attr,
    loc,
    method,
    methods,
    norm,
    parent,
    qualname,
    src,
)
from ..report import Context

GREEDY = [("schedulers/edf_scheduler.py", "EDFScheduler", "deadline"),
          ("schedulers/fifo_scheduler.py", "FIFOScheduler", "release_time"),
          ("schedulers/lsf_scheduler.py", "LSFScheduler", "slack")]

EXPLANATION = (
    "Static analysis of the three greedy policies: the list the placement loop iterates is sorted(offered, key=K) without "
    "reverse, where K's leading component is the deadline (EDF), the release time (FIFO) or deadline - now - remaining time "
    "(LSF, followed through partial(self.slack, sim_time)); the loop iterates that list itself and places virtually on the "
    "scratch cluster in the same iteration as the decision; by flag-aware path enumeration of one loop iteration, exactly one "
    "decision is appended per task and the not-placed decision is reachable only when every examined (strategy, pool) failed "
    "the fit test, with no break/continue skipping options except after a success or the deadline cancellation; the fit test "
    "is can_accomodate_strategy of the scratch pool (available quantities, C01.R7). NOT decided: the inversion-freedom "
    "consequence on concrete task sets."
)
ASSUMPTIONS = ["sorted() is stable and orders by the key; EventTime/tuples compare lexicographically"]


class Greedy:
    def __init__(self, ctx: Context, rel: str, cname: str):
        self.rel, self.cname = rel, cname
        self.cls = ctx.repo.mod(rel).cls(cname)
        self.fn = method(self.cls, "schedule")
        self.q = f"{rel}::{cname}.schedule"
        # offered tasks
        offered = [a for a in ast.walk(self.fn) if isinstance(a, ast.Assign) and isinstance(a.value, ast.Call) and call_name(a.value) == "get_schedulable_tasks"]
        if len(offered) != 1:
            raise AnalysisError(f"{self.q}: offered-task assignment not found")
        self.offered = norm(offered[0].targets[0])
        self.offered_call = offered[0].value
        # sorted list
        srt = [a for a in ast.walk(self.fn) if isinstance(a, ast.Assign) and any(call_name(c) == "sorted" for c in calls_in(a.value))]
        if len(srt) != 1:
            raise AnalysisError(f"{self.q}: sorted(...) assignment not found")
        self.ordered = norm(srt[0].targets[0])
        self.sorted_call = [c for c in calls_in(srt[0].value) if call_name(c) == "sorted"][0]
        loops = [l for l in self.fn.body if isinstance(l, ast.For) and norm(l.iter) == self.ordered]
        if len(loops) != 1:
            raise AnalysisError(f"{self.q}: placement loop over `{self.ordered}` not found")
        self.loop = loops[0]
        self.task = norm(self.loop.target)
        # scratch cluster
        def _is_copy(v):
            if isinstance(v, ast.IfExp):  # deepcopy(...) if preemptive else copy(...)
                return _is_copy(v.body) and _is_copy(v.orelse)
            return isinstance(v, ast.Call) and call_name(v) in ("copy", "deepcopy") and bool(v.args) and norm(v.args[0]) == "worker_pools"
        cps = [a for a in ast.walk(self.fn) if isinstance(a, ast.Assign) and _is_copy(a.value)]
        self.scratch = {norm(a.targets[0]) for a in cps}
        for _ in range(2):
            for a in ast.walk(self.fn):
                if isinstance(a, ast.Assign) and isinstance(a.value, ast.Name) and a.value.id in self.scratch:
                    self.scratch.add(norm(a.targets[0]))
        self.scratch_nodes = cps
        rets = [r for r in ast.walk(self.fn) if isinstance(r, ast.Return)]
        self.result = None
        for r in rets:
            if isinstance(r.value, ast.Call) and call_name(r.value) == "Placements":
                self.result = next((norm(k.value) for k in r.value.keywords if k.arg == "placements"), None)
        if self.result is None:
            raise AnalysisError(f"{self.q}: returned placements list not found")

    def iteration_cfg(self) -> cfgmod.CFG:
        body = ast.FunctionDef(name="__iteration__", args=ast.arguments(posonlyargs=[], args=[], kwonlyargs=[], kw_defaults=[], defaults=[]),
                               body=self.loop.body, decorator_list=[], lineno=self.loop.lineno, col_offset=0)
        return cfgmod.build(body)


def feasible(path) -> bool:
    """Prune paths that contradict boolean flags assigned along the way."""
    env: Dict[str, bool] = {}
    for (n, lab) in path:
        if lab is not None and lab[0] in ("T", "F") and isinstance(lab[1], ast.AST):
            t = lab[1]
            want = lab[0] == "T"
            if isinstance(t, ast.Name) and t.id in env and env[t.id] != want:
                return False
            if isinstance(t, ast.UnaryOp) and isinstance(t.op, ast.Not) and isinstance(t.operand, ast.Name) and t.operand.id in env \
                    and env[t.operand.id] == want:
                return False
        a = n.ast
        if n.kind == "stmt" and isinstance(a, ast.Assign) and len(a.targets) == 1 and isinstance(a.targets[0], ast.Name):
            if isinstance(a.value, ast.Constant) and isinstance(a.value.value, bool):
                env[a.targets[0].id] = a.value.value
            else:
                env.pop(a.targets[0].id, None)
    return True


def key_leading(g: Greedy, ctx: Context) -> Tuple[Optional[lin.Lin], str]:
    """Linear form of the leading component of the sort key, with the task abstracted as T."""
    k = next((kw.value for kw in g.sorted_call.keywords if kw.arg == "key"), None)
    if k is None:
        return None, "no key"
    if isinstance(k, ast.Lambda):
        body = k.body
        if isinstance(body, ast.Tuple):
            body = body.elts[0]
        # lambda t: self.m(a, t): the method's return expression with its parameters bound (same as partial(self.m, a))
        if isinstance(body, ast.Call) and is_self_attr(body.func) and not body.keywords and methods(g.cls).get(body.func.attr) is not None:
            m = methods(g.cls)[body.func.attr]
            params = [a.arg for a in m.args.args[1:]]
            var = k.args.args[0].arg
            rets = [r for r in ast.walk(m) if isinstance(r, ast.Return)]
            if len(rets) == 1 and len(params) == len(body.args) and sum(1 for a in body.args if isinstance(a, ast.Name) and a.id == var) == 1:
                bound = {p: lin.lin_of(a) for p, a in zip(params, body.args) if not (isinstance(a, ast.Name) and a.id == var)}
                rest = [p for p, a in zip(params, body.args) if isinstance(a, ast.Name) and a.id == var]
                return _rename(lin.lin_of(rets[0].value, env=bound), rest[0]), norm(k) + " -> " + norm(rets[0].value)
        return _abstract(body, k.args.args[0].arg), norm(k)
    if isinstance(k, ast.Call) and call_name(k) == "attrgetter" and k.args and isinstance(k.args[0], ast.Constant):
        return lin.Lin({f"T.{k.args[0].value}": 1}), norm(k)
    if isinstance(k, ast.Call) and call_name(k) == "partial" and k.args and is_self_attr(k.args[0]):
        m = methods(g.cls).get(k.args[0].attr)
        if m is None:
            return None, "partial of unknown method"
        params = [a.arg for a in m.args.args[1:]]
        bound = {params[i]: lin.lin_of(a) for i, a in enumerate(k.args[1:]) if i < len(params)}
        rest = [p for p in params if p not in bound]
        rets = [r for r in ast.walk(m) if isinstance(r, ast.Return)]
        if len(rets) != 1 or len(rest) != 1:
            return None, "slack shape"
        l = lin.lin_of(rets[0].value, env=bound)
        return _rename(l, rest[0]), norm(k) + " -> " + norm(rets[0].value)
    return None, norm(k)


def _abstract(e: ast.AST, var: str) -> lin.Lin:
    return _rename(lin.lin_of(e), var)


def _rename(l: lin.Lin, var: str) -> lin.Lin:
    out = {}
    for t, c in l.terms.items():
        nt = ("T" + t[len(var):]) if t == var or t.startswith(var + ".") else t
        out[nt] = out.get(nt, 0) + c
    return lin.Lin(out, l.const)


def r1_sort_key(ctx: Context) -> None:
    ctx.rule("C13.R1", "the placement loop iterates sorted(offered, key=K) without reverse; K's leading component is the policy's priority")
    want = {"deadline": lin.Lin({"T.deadline": 1}), "release_time": lin.Lin({"T.release_time": 1}),
            "slack": lin.Lin({"T.deadline": 1, "sim_time": -1, "T.remaining_time": -1})}
    for rel, cname, prio in GREEDY:
        g = Greedy(ctx, rel, cname)
        ctx.analysed_function(g.q)
        sc = g.sorted_call
        ok_src = sc.args and norm(sc.args[0]) == g.offered
        ctx.check(bool(ok_src), "C13.R1", f"{g.q}|sorts the offered tasks", loc(sc), f"sorted({g.offered}, ...)", f"sorts `{norm(sc.args[0]) if sc.args else '?'}`")
        rev = next((kw.value for kw in sc.keywords if kw.arg == "reverse"), None)
        ctx.check(rev is None or (isinstance(rev, ast.Constant) and rev.value is False), "C13.R1", f"{g.q}|ascending order", loc(sc), "no reverse",
                  "the tasks are sorted in descending priority: the lowest-priority task is placed first")
        l, desc = key_leading(g, ctx)
        ok = l is not None and l == want[prio]
        ctx.check(ok, "C13.R1", f"{g.q}|priority key = {prio}", loc(sc), desc,
                  f"the sort key is `{desc}` ({l!r}), not the {cname} priority ({want[prio]!r})")
        ctx.sample({"policy": cname, "key": desc, "leading": repr(l)})
        # the result of sorted() is what the loop iterates (possibly wrapped in list())
        ctx.check(norm(g.loop.iter) == g.ordered, "C13.R1", f"{g.q}|loop iterates the sorted list", loc(g.loop), "ok", "loop iterates another list")
        # no re-ordering / filtering between the sort and the loop
        writes = [a for a in ast.walk(g.fn) if isinstance(a, (ast.Assign, ast.AugAssign)) and any(norm(t) == g.ordered for t in (a.targets if isinstance(a, ast.Assign) else [a.target]))]
        muts = [c for c in calls_in(g.fn) if isinstance(c.func, ast.Attribute) and norm(c.func.value) == g.ordered and c.func.attr in ("sort", "reverse", "pop", "remove", "insert", "append")]
        ctx.check(len(writes) == 1 and not muts, "C13.R1", f"{g.q}|sorted list not modified before the loop", loc(g.loop), "single definition",
                  f"`{g.ordered}` is modified after sorting")


def r2_r3_greedy_loop(ctx: Context, rule2="C13.R2", rule3="C13.R3") -> None:
    ctx.rule(rule2, "virtual placement on the scratch cluster happens in the same iteration as the decision, on the pool that passed the fit test")
    ctx.rule(rule3, "exactly one decision per task; not-placed only when every examined (strategy, pool) failed the fit test; no option skipped")
    for rel, cname, _prio in GREEDY:
        g = Greedy(ctx, rel, cname)
        cg = g.iteration_cfg()
        fit_tests = [t for t in cg.nodes if t.kind == "test" and isinstance(t.ast, ast.Call) and call_name(t.ast) == "can_accomodate_strategy"]
        ctx.floor(rule3, f"fit test in {cname}", len(fit_tests), 1)
        ft = fit_tests[0]
        # nested loops: strategies of the task x pools of the scratch cluster
        loops = [l for l in ast.walk(ast.Module(body=g.loop.body, type_ignores=[])) if isinstance(l, ast.For)]
        strat_loops = [l for l in loops if norm(l.iter) == f"{g.task}.available_execution_strategies"]
        pool_loops = [l for l in loops if any(norm(l.iter) == f"{s}.worker_pools" for s in g.scratch)
                      and any(x is ft.ast for x in ast.walk(l))]
        if not strat_loops and not pool_loops:
            flat = _flattened_search(g, ft, loops)
            if flat is not None:
                strat_loops, pool_loops = flat
        ok = len(strat_loops) == 1 and len(pool_loops) == 1
        ctx.check(ok, rule3, f"{g.q}|tries every strategy of the task on every pool of the scratch cluster", loc(g.loop),
                  "for strategy in task.strategies: for pool in scratch.pools", "the search space is not strategies x scratch pools")
        if not ok:
            continue
        sv, pv = norm(strat_loops[0].target), norm(pool_loops[0].target)
        okf = norm(ft.ast.func.value) == pv and ft.ast.args and norm(ft.ast.args[0]) == sv
        ctx.check(okf, rule3, f"{g.q}|fit test: scratch pool can accommodate the strategy", loc(ft.ast), norm(ft.ast), f"fit test is `{norm(ft.ast)}`")
        # virtual placement
        pts = [c for c in calls_in(g.loop, "place_task")]
        okp = len(pts) == 1 and norm(pts[0].func.value) == pv and pts[0].args and norm(pts[0].args[0]) == g.task and cg.edge_dominates(ft, "T", cg.node_of(pts[0]))
        ctx.check(okp, rule2, f"{g.q}|virtual placement on the fitting scratch pool", loc(pts[0]) if pts else loc(g.loop), "pool.place_task(task, ...)",
                  "the decision is not reflected on the scratch cluster (later tasks see stale occupancy)")
        if pts:
            es = next((k.value for k in pts[0].keywords if k.arg == "execution_strategy"), pts[0].args[1] if len(pts[0].args) > 1 else None)
            ctx.check(es is not None and norm(es) == sv, rule2, f"{g.q}|virtual placement uses the decided strategy", loc(pts[0]), "same strategy",
                      f"the scratch cluster is debited with `{norm(es) if es is not None else 'whatever WorkerPool.place_task picks (first worker, then first fitting strategy)'}` "
                      f"while the decision reports `{sv}`: on a multi-worker pool the two differ, later tasks of the same round see wrong "
                      "occupancy and the returned placements can oversubscribe a worker or starve a task that fits")
        # placed decision content
        placed = [c for c in calls_in(g.loop, "create_task_placement") if any(k.arg == "worker_pool_id" for k in c.keywords)]
        okc = len(placed) == 1
        if okc:
            kw = {k.arg: norm(k.value) for k in placed[0].keywords}
            okc = kw.get("task") == g.task and kw.get("worker_pool_id") == f"{pv}.id" and kw.get("execution_strategy") == sv and kw.get("placement_time") == "sim_time" \
                and cg.edge_dominates(ft, "T", cg.node_of(placed[0]))
        ctx.check(okc, rule3, f"{g.q}|placed decision names the fitting pool, the fitting strategy and now", loc(placed[0]) if placed else loc(g.loop), "ok",
                  "the placed decision does not name the (pool, strategy) that passed the fit test")
        # path enumeration: one decision per iteration
        n_paths = 0
        for path in cg.paths(loop_bound=2):
            if path[-1][0].kind != "ret" or not feasible(path):
                continue
            n_paths += 1
            apps = []
            fit_results = []
            for (n, lab) in path:
                if lab is not None and lab[0] in ("T", "F") and lab[1] is ft.ast:
                    fit_results.append(lab[0])
                if n.ast is None or n.kind in ("for", "test"):
                    continue
                for c in ast.walk(n.ast):
                    if isinstance(c, ast.Call) and call_name(c) == "append" and norm(c.func.value) == g.result:
                        apps.append(c)
            desc = "".join(fit_results) or "-"
            conds = [f"{p}:{norm(t)[:30]}" for p, t in cfgmod.path_conditions(path) if t is not ft.ast]
            key = f"{g.q}|iteration path fits[{desc}] {' & '.join(conds)[:120]}"
            if len(apps) != 1:
                ctx.violation(rule3, key, loc(g.loop), f"one iteration of the placement loop appends {len(apps)} decisions for the task")
                continue
            a = apps[0].args[0]
            if not isinstance(a, ast.Call):
                raise AnalysisError(f"{g.q}: the decision appended at {loc(apps[0])} is `{norm(a)[:40]}`, not a Placement.create_* call: cannot classify it")
            kind = "cancel" if call_name(a) == "create_task_cancellation" else ("placed" if any(k.arg == "worker_pool_id" for k in a.keywords) else "unplaced")
            if kind == "unplaced":
                ctx.check("T" not in fit_results, rule3, key, loc(apps[0]), "unplaced only after every fit test failed",
                          "a task is reported unplaced although one of its (strategy, pool) options fitted")
            elif kind == "placed":
                ctx.check(fit_results and fit_results[-1] == "T" and fit_results.count("T") == 1, rule3, key, loc(apps[0]), "placed on the first fitting option",
                          f"placed decision on a path with fit results {fit_results}")
            else:
                ctx.check(not fit_results, rule3, key, loc(apps[0]), "cancelled before trying to place", "a cancelled task was also tried for placement")
        ctx.count(f"{cname}_iteration_paths", n_paths)
        ctx.floor(rule3, f"feasible iteration paths of {cname}", n_paths, 4)
        # breaks only after success
        for b in [x for x in ast.walk(ast.Module(body=g.loop.body, type_ignores=[])) if isinstance(x, ast.Break)]:
            bn = cg.node_of(b)
            flag_tests = [t for t in cg.nodes if t.kind == "test" and isinstance(t.ast, ast.Name)]
            ok = cg.edge_dominates(ft, "T", bn) or any(cg.edge_dominates(t, "T", bn) and _flag_set_only_on_success(cg, ft, t.ast.id) for t in flag_tests)
            ctx.check(ok, rule3, f"{g.q}|break at line {b.lineno} only after a successful placement", loc(b), "after success",
                      "a break skips remaining strategies/pools although nothing was placed")
        def _own_loop(x):
            q = parent(x)
            while q is not None and not isinstance(q, (ast.For, ast.While)):
                q = parent(q)
            return q
        def _after_exhausted_search(x):
            # `for pool in pools: <fit test> ... else: continue`: the continue runs only after every pool was tried for this option
            q = parent(x)
            while q is not None and q is not g.loop:
                if isinstance(q, ast.For) and any(y is x for z in q.orelse for y in ast.walk(z)) and any(y is ft.ast for y in ast.walk(ast.Module(body=q.body, type_ignores=[]))):
                    return True
                q = parent(q)
            return False
        # a `continue` skips a task (task loop) or an option (strategy / pool loops) unless it follows an exhausted search
        for c in [x for x in ast.walk(ast.Module(body=g.loop.body, type_ignores=[])) if isinstance(x, ast.Continue)
                  and not (_own_loop(x) is not g.loop and (_after_exhausted_search(x) or cg.edge_dominates(ft, "F", cg.node_of(x))))]:
            cn = cg.node_of(c)
            ok = any(t.kind == "test" and "enforce_deadlines" in norm(t.ast) and cg.edge_dominates(t, "T", cn) for t in cg.nodes)
            ctx.check(ok, rule3, f"{g.q}|continue at line {c.lineno} only for the deadline cancellation", loc(c), "cancellation branch",
                      "a continue skips a task without answering it")
        # the scratch cluster is a copy made before the loop
        ctx.check(bool(g.scratch_nodes) and all(a.lineno < g.loop.lineno for a in g.scratch_nodes), rule2, f"{g.q}|scratch cluster created before the loop", loc(g.loop),
                  "copy()/deepcopy() of worker_pools", "no scratch copy of the cluster")


class _Clause:
    """One `for` clause of a flattened search (`for s, p in ((s, p) for s in S for p in P)` / `product(S, P)`), seen as the loop it stands for."""

    def __init__(self, target: ast.AST, iter_: ast.AST):
        self.target, self.iter = target, iter_


def _flattened_search(g: Greedy, ft: cfgmod.Node, loops):
    """The single loop around the fit test walks the pairs (strategy of the task, pool of the scratch cluster), strategies outermost:
    -> ([strategy clause], [pool clause]) with the loop's own targets, else None. The pairs must be produced afresh for every task."""
    around = [l for l in loops if any(x is ft.ast for x in ast.walk(l))]
    if len(around) != 1:
        return None
    L = around[0]
    if not (isinstance(L.target, ast.Tuple) and len(L.target.elts) == 2 and all(isinstance(e, ast.Name) for e in L.target.elts)):
        return None
    it = L.iter
    if isinstance(it, ast.Name):
        defs = [a for a in ast.walk(g.fn) if isinstance(a, ast.Assign) and any(isinstance(t, ast.Name) and t.id == it.id for t in a.targets)]
        if len(defs) != 1 or not any(defs[0] is x for x in g.loop.body):
            return None
        it = defs[0].value
    if isinstance(it, ast.GeneratorExp) and len(it.generators) == 2 and not any(c.ifs for c in it.generators) and isinstance(it.elt, ast.Tuple) \
            and [norm(e) for e in it.elt.elts] == [norm(c.target) for c in it.generators]:
        iters = [c.iter for c in it.generators]
    elif isinstance(it, ast.Call) and call_name(it) == "product" and len(it.args) == 2 and not it.keywords:
        iters = list(it.args)
    else:
        return None
    if norm(iters[0]) != f"{g.task}.available_execution_strategies" or not any(norm(iters[1]) == f"{s}.worker_pools" for s in g.scratch):
        return None
    return [_Clause(L.target.elts[0], iters[0])], [_Clause(L.target.elts[1], iters[1])]


def _flag_set_only_on_success(cg: cfgmod.CFG, ft: cfgmod.Node, flag: str) -> bool:
    sets = [n for n in cg.nodes if n.kind == "stmt" and isinstance(n.ast, ast.Assign) and norm(n.ast.targets[0]) == flag
            and isinstance(n.ast.value, ast.Constant) and n.ast.value.value is True]
    return bool(sets) and all(cg.edge_dominates(ft, "T", s) for s in sets)


def r4_fit_test(ctx: Context) -> None:
    from . import c01
    c01.r7_fit_tests(ctx)


def run(ctx: Context) -> None:
    ctx.isolate(r1_sort_key)
    ctx.isolate(r2_r3_greedy_loop)
    ctx.isolate(r4_fit_test)
    from . import c12
    ctx.isolate(c12.r1_admission, _alias={"C12.R1": "C13.R5"})
    from . import c06
    ctx.isolate(c06.remaining_time_table, "C13.R6")
