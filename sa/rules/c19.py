"""C19 — Workload and cluster descriptions are instantiated faithfully (structural clauses)."""
from __future__ import annotations

import ast
from typing import Dict, List, Optional, Set, Tuple

from .. import cfg as cfgmod
from .. import lin
from ..anchors import JOBS, SIM, TASKS, UTILS, WORKLOAD
from ..core import (
    AnalysisError,
    call_name,
    calls_in,
    dotted,
    enclosing_class,
    enclosing_function,
    is_self_attr,
    loc,
    mangle,
    method,
    methods,
    norm,
    parent,
    qualname,
    src,
)
from ..report import Context
from . import c03

WL = "data/workload_loader.py"
WK = "data/worker_loader.py"

EXPLANATION = (
    "Static dataflow / dispatch / keyword analysis of the two loaders and of JobGraph instantiation: in every loop "
    "that builds one object per description item, no value assigned conditionally in one iteration can reach the "
    "constructor call of a later iteration (reaching definitions across the back edge); each of the release policies "
    "periodic/fixed/poisson/gamma/closed_loop has a loader branch that calls the factory of that name, the factory "
    "sets the matching ReleasePolicyType and get_release_times has a branch for it, and required keys are tested "
    "before they are read; every keyword passed to Job/JobGraph/ReleasePolicy.*/ExecutionStrategy/WorkProfile/"
    "Resource(s)/Worker/WorkerPool exists in the callee; configuration fields assigned on both the flags and the "
    "no-flags branch have the same wrapper type (EventTime vs raw int); _generate_task_graph creates a fresh Task per "
    "job and maps every (parent, children) entry through that table; deadlines are release + X.fuzz(variance, bounds) "
    "applied to all nodes with a clamped fuzz (C03.R6); closed-loop: initial releases = min(concurrency, N) and the "
    "remaining counter is decremented before each further graph and tested > 0. NOT decided: numeric release times, "
    "Poisson/Gamma monotonicity, in-flight counts during runs."
)
ASSUMPTIONS = ["constructor calls are resolved by class name (no shadowing of these names in the loaders)"]

DESCRIBED = {"Job", "JobGraph", "ExecutionStrategy", "Resource", "Resources", "Worker", "WorkerPool", "WorkProfile", "Task"}


def r1_no_state_leak(ctx: Context) -> None:
    ctx.rule("C19.R1", "in per-item construction loops no conditionally assigned value of one iteration reaches the "
                       "constructor call of a later iteration")
    n_loops = 0
    for rel in (WL, WK):
        m = ctx.repo.mod(rel)
        for fn in [f for f in ast.walk(m.tree) if isinstance(f, (ast.FunctionDef, ast.AsyncFunctionDef))]:
            g = None
            for lp in [l for l in ast.walk(fn) if isinstance(l, ast.For) and enclosing_function(l) is fn]:
                ctors = [c for s in lp.body for c in ast.walk(s) if isinstance(c, ast.Call) and call_name(c) in DESCRIBED]
                if not ctors:
                    continue
                n_loops += 1
                if g is None:
                    g = cfgmod.build(fn)
                head = g.node_of(lp)
                body_nodes = _body_nodes(g, lp)
                # names assigned inside the loop body (not the loop target itself)
                assigned: Dict[str, List[cfgmod.Node]] = {}
                targets = {n.id for n in ast.walk(lp.target) if isinstance(n, ast.Name)}
                for bn in body_nodes:
                    a = bn.ast
                    if bn.kind == "stmt" and isinstance(a, (ast.Assign, ast.AnnAssign, ast.AugAssign)):
                        ts = a.targets if isinstance(a, ast.Assign) else [a.target]
                        for t in ts:
                            for nm in ast.walk(t):
                                if isinstance(nm, ast.Name) and isinstance(nm.ctx, ast.Store):
                                    assigned.setdefault(nm.id, []).append(bn)
                    if bn.kind == "for" and bn.ast is not lp:
                        for nm in ast.walk(bn.ast.target):
                            if isinstance(nm, ast.Name):
                                assigned.setdefault(nm.id, []).append(bn)
                # containers filled inside the loop but created outside it: every item's constructor sees the earlier items' entries
                mutated_in_loop = set()
                for x in ast.walk(lp):
                    if isinstance(x, (ast.Assign, ast.AugAssign)):
                        for t in (x.targets if isinstance(x, ast.Assign) else [x.target]):
                            if isinstance(t, ast.Subscript) and isinstance(t.value, ast.Name):
                                mutated_in_loop.add(t.value.id)
                    if isinstance(x, ast.Call) and isinstance(x.func, ast.Attribute) and isinstance(x.func.value, ast.Name) \
                            and x.func.attr in ("append", "add", "update", "extend", "setdefault", "insert"):
                        mutated_in_loop.add(x.func.value.id)
                for c in ctors:
                    for nm in sorted({n.id for n in ast.walk(c) if isinstance(n, ast.Name) and isinstance(n.ctx, ast.Load)}):
                        if nm in mutated_in_loop and nm not in assigned and nm not in targets:
                            outer = [a for a in ast.walk(fn) if isinstance(a, ast.Assign) and any(isinstance(t, ast.Name) and t.id == nm for t in a.targets)
                                     and not any(a is y for y in ast.walk(lp))]
                            if outer:
                                ctx.violation("C19.R1", f"{qualname(fn)}|container `{nm}` into {call_name(c)}(...) in the loop at line {lp.lineno}", loc(outer[0]),
                                              f"`{nm}` is created once outside the per-item loop (`{norm(outer[0])[:40]}`), filled inside it and handed to "
                                              f"`{call_name(c)}(...)` for every item: each item also gets the entries of all items before it")
                for c in ctors:
                    cn = g.node_of(c)
                    used0 = {n.id for n in ast.walk(c) if isinstance(n, ast.Name) and isinstance(n.ctx, ast.Load)}
                    # (name, node where it is used); uses inside the definitions of locals that flow into the constructor count too
                    work = [(nm, cn, 0) for nm in sorted(used0)]
                    seen_w = set()
                    starts = [t for (t, lab) in g.succ[head.id] if lab and lab[0] == "iter"]
                    while work:
                        name, use_node, depth = work.pop()
                        if (name, use_node.id) in seen_w or name in targets or name not in assigned:
                            continue
                        seen_w.add((name, use_node.id))
                        defs = assigned[name]
                        avoid = {d.id for d in defs}
                        leak = False
                        for s0 in starts:
                            if s0 in avoid and s0 != use_node.id:
                                continue
                            if s0 == use_node.id or _reach_avoiding(g, s0, use_node.id, (avoid - {use_node.id}) | {head.id}):
                                leak = True
                        # a definition that reads its own previous value (`x = f(x)`) at the use node itself
                        key = f"{qualname(fn)}|`{name}` into {call_name(c)}(...) in the loop at line {lp.lineno}"
                        if leak:
                            ctx.violation("C19.R1", key, loc(defs[0].ast),
                                          f"`{name}` is assigned on only some paths of an iteration (`{norm(defs[0].ast)[:60]}`) and flows into "
                                          f"`{call_name(c)}(...)`: an item without its own value inherits the value of an earlier item")
                        else:
                            ctx.ok("C19.R1", key, loc(c), "defined on every path of the iteration before use")
                        if depth < 3:
                            for d in defs:
                                val = getattr(d.ast, "value", None)
                                if val is not None and d.kind == "stmt":
                                    for nm2 in {n.id for n in ast.walk(val) if isinstance(n, ast.Name) and isinstance(n.ctx, ast.Load)}:
                                        work.append((nm2, d, depth + 1))
    ctx.floor("C19.R1", "per-item construction loops", n_loops, 6)


def _body_nodes(g: cfgmod.CFG, lp: ast.For) -> List[cfgmod.Node]:
    out = []
    for n in g.nodes:
        a = n.ast
        if a is None or a is lp:
            continue
        p = a
        inside = False
        while p is not None:
            if p is lp:
                inside = True
                break
            p = parent(p)
        if inside and not any(a is x or _in(a, x) for x in [lp.iter, lp.target]):
            out.append(n)
    return out


def _in(a: ast.AST, root: ast.AST) -> bool:
    return any(x is a for x in ast.walk(root))


def _reach_avoiding(g: cfgmod.CFG, start: int, goal: int, avoid: Set[int]) -> bool:
    seen: Set[int] = set()
    stack = [start]
    while stack:
        x = stack.pop()
        if x in seen or x in avoid:
            continue
        if x == goal:
            return True
        seen.add(x)
        stack.extend(t for (t, _l) in g.succ[x])
    return False


POLICIES = {"periodic": "PERIODIC", "fixed": "FIXED", "poisson": "POISSON", "gamma": "GAMMA", "closed_loop": "CLOSED_LOOP"}
REQUIRED_KEYS = {"periodic": ["period"], "fixed": ["period", "invocations"], "poisson": ["rate", "invocations"],
                 "gamma": ["rate", "coefficient", "invocations"], "closed_loop": ["concurrency", "invocations"]}


def r2_release_policy_dispatch(ctx: Context) -> None:
    ctx.rule("C19.R2", "each release policy name dispatches to the factory of that name, which sets the matching type, which "
                       "get_release_times handles; described keys are tested before they are read")
    wl = ctx.repo.mod(WL).cls("WorkloadLoader")
    cands = [m for m in methods(wl).values() if "release_policy" in m.name]
    if not cands:
        raise AnalysisError("release policy builder of the loader not found")
    fn = cands[0]
    ctx.analysed_function(qualname(fn))
    jm = ctx.repo.mod(JOBS)
    rp = [c for c in jm.classes() if c.name == "ReleasePolicy"][0]
    grt = method(rp, "get_release_times")
    handled = {norm(n.test.comparators[0]).split(".")[-1] for n in ast.walk(grt) if isinstance(n, ast.If) and isinstance(n.test, ast.Compare)
               and "ReleasePolicyType." in norm(n.test)}
    g = cfgmod.build(fn)
    branches = {}
    for node in ast.walk(fn):
        if isinstance(node, ast.If) and isinstance(node.test, ast.Compare) and "release_policy" in norm(node.test.left) \
                and isinstance(node.test.comparators[0], ast.Constant):
            branches[node.test.comparators[0].value] = node
    for name, ptype in POLICIES.items():
        key = f"WorkloadLoader|release policy `{name}`"
        b = branches.get(name)
        if b is None:
            ctx.violation("C19.R2", key, loc(fn), f"the loader has no branch for the `{name}` release policy")
            continue
        rets = [r for s in b.body for r in ast.walk(s) if isinstance(r, ast.Return)]
        ok = len(rets) == 1 and isinstance(rets[0].value, ast.Call) and call_name(rets[0].value) == name and "ReleasePolicy" in norm(rets[0].value.func)
        ctx.check(ok, "C19.R2", key + " -> factory of the same name", loc(b), f"ReleasePolicy.{name}(...)",
                  f"the `{name}` branch builds `{norm(rets[0].value.func) if rets else '?'}`")
        fac = methods(rp).get(name)
        if fac is None:
            ctx.violation("C19.R2", key + " factory exists", loc(rp), f"ReleasePolicy.{name} does not exist")
            continue
        pt = [k.value for c in calls_in(fac) for k in c.keywords if k.arg == "policy_type"]
        ok = len(pt) == 1 and norm(pt[0]).endswith("ReleasePolicyType." + ptype)
        ctx.check(ok, "C19.R2", key + f" factory sets {ptype}", loc(fac), norm(pt[0]) if pt else "?", f"ReleasePolicy.{name} builds policy type `{norm(pt[0]) if pt else '?'}`")
        ctx.check(ptype in handled, "C19.R2", key + " handled by get_release_times", loc(grt), "branch exists", f"get_release_times has no branch for {ptype}")
        # keyword -> description key agreement inside the call
        if rets and isinstance(rets[0].value, ast.Call):
            call = rets[0].value
            want = {"period": "period", "num_invocations": "invocations", "rate": "rate", "coefficient": "coefficient",
                    "concurrency": "concurrency", "start": None, "rng_seed": None}
            for k in call.keywords:
                if k.arg in want and want[k.arg] is not None:
                    reads = [norm(s.slice) for s in ast.walk(k.value) if isinstance(s, ast.Subscript) and norm(s.value) == "job"]
                    ctx.check(reads == [repr(want[k.arg])] or reads == [f"'{want[k.arg]}'"], "C19.R2", key + f" {k.arg} <- job[{want[k.arg]!r}]", loc(k.value),
                              "reads the matching key", f"`{k.arg}` of the {name} policy is read from job[{reads}]")
            # required keys tested before being read: every job["k"] read inside the branch is preceded by a `"k" not in job -> raise`
            for s in [x for x in ast.walk(call) if isinstance(x, ast.Subscript) and norm(x.value) == "job" and isinstance(x.slice, ast.Constant)]:
                kname = s.slice.value
                guarded = any(isinstance(t, ast.Compare) and isinstance(t.ops[0], ast.NotIn) and isinstance(t.left, ast.Constant) and t.left.value == kname
                              and norm(t.comparators[0]) == "job" for i in b.body if isinstance(i, ast.If) and any(isinstance(x, ast.Raise) for x in i.body)
                              for t in ast.walk(i.test))
                if guarded:
                    ctx.ok("C19.R2", key + f" key `{kname}` tested before use", loc(s), "guarded by `not in job -> raise`")
                else:
                    # a malformed description gets a KeyError instead of the loader's diagnostic: not a faithfulness defect
                    ctx.note(f"{loc(s)}: job[{kname!r}] is read for the `{name}` policy without a preceding presence test")
    ctx.floor("C19.R2", "policy branches", len(branches), 5)
    # the loader applies the release policy it built to the JobGraph it builds
    init = method(wl, "__init__")
    jgs = [c for c in calls_in(init, "JobGraph")]
    ctx.floor("C19.R2", "JobGraph constructions in the loader", len(jgs), 2)
    for c in jgs:
        kw = {k.arg: norm(k.value) for k in c.keywords}
        ctx.check(kw.get("release_policy") == "release_policy" and kw.get("deadline_variance") == "deadline_variance", "C19.R2",
                  f"WorkloadLoader.__init__|JobGraph at line {c.lineno} gets the parsed policy and variance", loc(c), "ok", f"JobGraph built with {kw}")


def _signature(fn: ast.FunctionDef) -> Tuple[List[str], bool]:
    names = [a.arg for a in fn.args.args + fn.args.kwonlyargs if a.arg not in ("self", "cls")]
    return names, fn.args.kwarg is not None


def r3_keyword_agreement(ctx: Context) -> None:
    ctx.rule("C19.R3", "every keyword passed to a described-object constructor / ReleasePolicy factory in the loaders and "
                       "in workload/jobs.py exists in the callee")
    sigs: Dict[str, Tuple[List[str], bool]] = {}
    for rel, names in (("workload/jobs.py", ["Job", "JobGraph"]), ("workload/strategy.py", ["ExecutionStrategy", "ExecutionStrategies"]),
                       ("workload/profile.py", ["WorkProfile"]), ("workload/resource.py", ["Resource"]), ("workload/resources.py", ["Resources"]),
                       ("workers/workers.py", ["Worker", "WorkerPool", "WorkerPools"]), ("workload/tasks.py", ["Task", "TaskGraph"])):
        m = ctx.repo.mod(rel)
        for n in names:
            c = m.cls(n)
            sigs[n] = _signature(method(c, "__init__"))
    rp = [c for c in ctx.repo.mod(JOBS).classes() if c.name == "ReleasePolicy"][0]
    sigs["ReleasePolicy"] = _signature(method(rp, "__init__"))
    for f in POLICIES:
        sigs["ReleasePolicy." + f] = _signature(method(rp, f))
    n = 0
    for rel in (WL, WK, JOBS, WORKLOAD):
        m = ctx.repo.mod(rel)
        for c in [x for x in ast.walk(m.tree) if isinstance(x, ast.Call)]:
            nm = call_name(c)
            key_name = None
            if nm in sigs and isinstance(c.func, ast.Name):
                key_name = nm
            elif nm in POLICIES and isinstance(c.func, ast.Attribute) and "ReleasePolicy" in norm(c.func.value):
                key_name = "ReleasePolicy." + nm
            elif nm == "ReleasePolicy" and isinstance(c.func, ast.Attribute):
                key_name = "ReleasePolicy"
            if key_name is None:
                continue
            params, has_kwargs = sigs[key_name]
            host = enclosing_function(c)
            if host is not None and host.name not in ("__init__", "__copy__", "__deepcopy__", "__add__") and not host.name.startswith("__") \
                    and not ctx.repo.calls_named(host.name) and not any(
                        isinstance(d, ast.Name) and d.id in ("property", "cached_property") for d in host.decorator_list):
                bad0 = [k.arg for k in c.keywords if k.arg and k.arg not in params and not has_kwargs]
                if bad0:
                    ctx.note(f"DEAD-HELPER {loc(c)}: `{key_name}(...)` with unknown keyword(s) {bad0} inside {host.name}, which nothing calls")
                continue
            n += 1
            bad = [k.arg for k in c.keywords if k.arg and k.arg not in params and not has_kwargs]
            too_many = len([a for a in c.args if not isinstance(a, ast.Starred)]) > len(params)
            ctx.check(not bad and not too_many, "C19.R3", f"{qualname(c)}|{key_name}({', '.join(sorted(k.arg for k in c.keywords if k.arg))}) at line {c.lineno}",
                      loc(c), "keywords exist", f"`{key_name}(...)` is called with unknown keyword(s) {bad}" + (" / too many positionals" if too_many else ""))
    ctx.floor("C19.R3", "constructor/factory calls", n, 25)


def r4_fresh_copy(ctx: Context) -> None:
    ctx.rule("C19.R4", "_generate_task_graph creates a fresh Task for every job and maps every (parent, children) entry of the job graph")
    jg = ctx.repo.mod(JOBS).cls("JobGraph")
    fn = method(jg, "_generate_task_graph")
    ctx.analysed_function(f"{JOBS}::JobGraph._generate_task_graph")
    tasks = [c for c in calls_in(fn, "Task")]
    ctx.floor("C19.R4", "Task construction", len(tasks), 1)
    t = tasks[0]
    lp = parent(t)
    while lp is not None and not isinstance(lp, ast.For):
        lp = parent(lp)
    ok = lp is not None and norm(lp.iter) in ("self.breadth_first()", "self.get_nodes()", "self.topological_sort()", "self._graph", "self._graph.keys()")
    ctx.check(ok, "C19.R4", "JobGraph._generate_task_graph|one Task per job of the graph", loc(t), f"for job in {norm(lp.iter) if lp else '?'}",
              "tasks are not created for every job of the graph")
    st = parent(t)
    ok = isinstance(st, ast.Assign) and isinstance(st.targets[0], ast.Subscript) and lp is not None and norm(st.targets[0].slice) == f"{norm(lp.target)}.name"
    table = norm(st.targets[0].value) if ok else None
    ctx.check(ok, "C19.R4", "JobGraph._generate_task_graph|task table keyed by the job", loc(st), "table[job.name] = Task(...)", "task table not keyed by the job")
    kw = {k.arg: norm(k.value) for k in t.keywords}
    jv = norm(lp.target) if lp is not None else "job"
    ctx.check(kw.get("job") == jv and kw.get("name") == f"{jv}.name" and kw.get("task_graph") == "task_graph_name" and kw.get("timestamp") == "timestamp",
              "C19.R4", "JobGraph._generate_task_graph|task carries its job, graph name and timestamp", loc(t), "ok", f"Task built with {kw}")
    # release time: sources at the graph's release time
    rt = kw.get("release_time")
    rdef = [a for a in ast.walk(fn) if isinstance(a, ast.Assign) and rt is not None and norm(a.targets[0]) == rt]
    ok = bool(rdef) and isinstance(rdef[0].value, ast.IfExp) and norm(rdef[0].value.test) == f"self.is_source({jv})" and norm(rdef[0].value.body) == "release_time"
    ctx.check(ok, "C19.R4", "JobGraph._generate_task_graph|source tasks released at the graph's release time", loc(rdef[0]) if rdef else loc(fn),
              "release_time if is_source(job) else invalid", "source tasks do not get the graph's release time")
    # edges
    loops = [l for l in fn.body if isinstance(l, ast.For) and norm(l.iter) == "self._graph.items()"]
    ok = False
    if loops and table:
        l2 = loops[0]
        p, ch = [norm(e) for e in l2.target.elts] if isinstance(l2.target, ast.Tuple) else ("?", "?")
        a_par = any(isinstance(a, ast.Assign) and norm(a.value) == f"{table}[{p}.name]" for a in l2.body)
        a_ch = any(isinstance(a, ast.Assign) and isinstance(a.value, ast.ListComp) and norm(a.value.generators[0].iter) == ch
                   and norm(a.value.elt).startswith(f"{table}[") and not a.value.generators[0].ifs for a in l2.body)
        stores = [a for a in l2.body if isinstance(a, ast.Assign) and isinstance(a.targets[0], ast.Subscript)]
        ok = a_par and a_ch and len(stores) == 1
        if ok:
            par_var = [norm(a.targets[0]) for a in l2.body if isinstance(a, ast.Assign) and norm(a.value) == f"{table}[{p}.name]"][0]
            ch_var = [norm(a.targets[0]) for a in l2.body if isinstance(a, ast.Assign) and isinstance(a.value, ast.ListComp)][0]
            ok = norm(stores[0].targets[0].slice) == par_var and norm(stores[0].value) == ch_var
            mapping = norm(stores[0].targets[0].value)
            tgc = [c for c in calls_in(fn, "TaskGraph")]
            ok = ok and bool(tgc) and any(k.arg == "tasks" and norm(k.value) == mapping for k in tgc[0].keywords) \
                and any(k.arg == "job_graph" and norm(k.value) == "self" for k in tgc[0].keywords)
    ctx.check(ok, "C19.R4", "JobGraph._generate_task_graph|every (parent, children) entry mapped through the task table", loc(fn),
              "mapping[task(parent)] = [task(c) for c in children]; TaskGraph(tasks=mapping, job_graph=self)",
              "the task graph is not an isomorphic image of the job graph")
    # generate_task_graphs: one graph per release time, unique names
    gen = method(jg, "generate_task_graphs")
    ok = False
    for l in [x for x in ast.walk(gen) if isinstance(x, ast.For)]:
        if "enumerate(releases)" in norm(l.iter):
            calls = [c for c in calls_in(l) if call_name(c) == "_generate_task_graph"]
            if calls:
                kw = {k.arg: norm(k.value) for k in calls[0].keywords}
                idx, rtv = [norm(e) for e in l.target.elts]
                nm = [a for a in l.body if isinstance(a, ast.Assign) and isinstance(a.value, ast.JoinedStr)]
                ok = kw.get("release_time") == rtv and kw.get("timestamp") == idx and bool(nm) and idx in norm(nm[0].value) and "self.name" in norm(nm[0].value)
    ctx.check(ok, "C19.R4", "JobGraph.generate_task_graphs|one uniquely named graph per release time", loc(gen), "for index, release in enumerate(releases)",
              "task graphs are not generated one per release time with unique names")
    r0 = [a for a in ast.walk(gen) if isinstance(a, ast.Assign) and norm(a.targets[0]) == "releases"]
    ctx.check(bool(r0) and "get_release_times(completion_time)" in norm(r0[0].value), "C19.R4", "JobGraph.generate_task_graphs|releases from the policy", loc(gen), "ok", "release times not from the policy")


def r5_deadline_dataflow(ctx: Context) -> None:
    ctx.rule("C19.R5", "deadline = release + X.fuzz(variance, bounds), variance from the description (else flags), bounds from the "
                       "flags; applied to every node; fuzz clamps (C03.R6)")
    jg = ctx.repo.mod(JOBS).cls("JobGraph")
    fn = method(jg, "_generate_task_graph")
    fz = [c for c in calls_in(fn, "fuzz")]
    ctx.floor("C19.R5", "fuzz calls in _generate_task_graph", len(fz), 2)
    for c in fz:
        a = [norm(x) for x in c.args]
        p = parent(c)
        ok = a == ["deadline_variance", "deadline_bounds"] and isinstance(p, ast.BinOp) and isinstance(p.op, ast.Add) and \
            "release_time" in {norm(p.left), norm(p.right)}
        ctx.check(ok, "C19.R5", f"JobGraph._generate_task_graph|`{norm(p)[:60]}`", loc(c), "release_time + X.fuzz(variance, bounds)",
                  f"deadline computed as `{norm(p)[:90]}`")
    dv = [a for a in ast.walk(fn) if isinstance(a, ast.Assign) and norm(a.targets[0]) == "deadline_variance"]
    ok = len(dv) >= 2
    for a in dv:
        v = norm(a.value)
        ok = ok and ("self._deadline_variance" in v or "_flags.min_deadline_variance" in v or v == "(0, 0)")
    flag_branch = [a for a in dv if "_flags" in norm(a.value)]
    okf = bool(flag_branch) and norm(flag_branch[0].value).replace(" ", "") in ("(_flags.min_deadline_variance,_flags.max_deadline_variance)",)
    # the description's own variance takes precedence
    prec = any(isinstance(parent(a), ast.If) and "self._deadline_variance is None" in norm(parent(a).test) for a in flag_branch)
    ctx.check(ok and okf and prec, "C19.R5", "JobGraph._generate_task_graph|variance: description first, else (min, max) flags", loc(dv[0]) if dv else loc(fn),
              "ok", "deadline variance does not come from the description / flags in (min, max) order")
    db = [a for a in ast.walk(fn) if isinstance(a, ast.Assign) and norm(a.targets[0]) == "deadline_bounds"]
    okb = any(norm(a.value).replace(" ", "") == "(_flags.min_deadline,_flags.max_deadline)" for a in db) and any(norm(a.value) == "(0, sys.maxsize)" for a in db)
    ctx.check(okb, "C19.R5", "JobGraph._generate_task_graph|bounds (min_deadline, max_deadline) from the flags", loc(db[0]) if db else loc(fn), "ok",
              f"deadline bounds are {[norm(a.value) for a in db]}")
    # applied to all nodes
    upd = [c for c in calls_in(fn, "update_deadline")]
    ok = False
    for c in upd:
        lp = parent(c)
        while lp is not None and not isinstance(lp, ast.For):
            lp = parent(lp)
        if lp is not None and norm(lp.iter) == "task_graph.get_nodes()" and norm(c.args[0]) == "task_graph_deadline" and norm(c.func.value) == norm(lp.target):
            ok = True
    ctx.check(ok, "C19.R5", "JobGraph._generate_task_graph|every task gets the graph deadline", loc(fn), "for task in get_nodes(): update_deadline",
              "not every task of the graph receives the deadline")
    c03.r6_fuzz_bounds(ctx)
    # completion time: slo if given else the slowest strategy, over the longest path
    ct = methods(jg).get("_JobGraph__get_completion_time") or methods(jg).get("__get_completion_time")
    if ct is None:
        raise AnalysisError("JobGraph.__get_completion_time not found")
    ok = any(isinstance(x, ast.IfExp) and norm(x.body).endswith(".slo") and "slo != EventTime.invalid()" in norm(x.test)
             and "get_slowest_strategy().runtime" in norm(x.orelse) for x in ast.walk(ct)) and "get_longest_path" in norm(ct)
    ctx.check(ok, "C19.R5", "JobGraph.__get_completion_time|sum of (slo or slowest runtime) over the critical path", loc(ct), "ok",
              "the deadline base is not the critical-path (or SLO) time")


def r6_closed_loop(ctx: Context) -> None:
    ctx.rule("C19.R6", "closed loop: initial releases = min(concurrency, N); remaining = N - initial; decremented before each "
                       "further graph and tested > 0; a new graph is generated only on graph completion")
    rp = [c for c in ctx.repo.mod(JOBS).classes() if c.name == "ReleasePolicy"][0]
    grt = method(rp, "get_release_times")
    br = [n for n in ast.walk(grt) if isinstance(n, ast.If) and "CLOSED_LOOP" in norm(n.test)]
    ok = False
    if br:
        b = ast.Module(body=br[0].body, type_ignores=[])
        nr = [a for a in ast.walk(b) if isinstance(a, ast.Assign) and isinstance(a.value, (ast.IfExp, ast.Call))]
        ext = [c for c in calls_in(b, "extend")]
        if nr and ext:
            v = nr[0].value
            if isinstance(v, ast.IfExp):
                f = lin.formula(v.test)
                ge = lin.formula(ast.parse("self._fixed_invocation_nums >= self._concurrency", mode="eval").body)
                gt = lin.formula(ast.parse("self._fixed_invocation_nums > self._concurrency", mode="eval").body)
                a, b2 = norm(v.body), norm(v.orelse)
                ok = ((lin.equivalent(f, ge) or lin.equivalent(f, gt)) and a == "self._concurrency" and b2 == "self._fixed_invocation_nums") or \
                     ((lin.equivalent(f, lin.f_not(ge)) or lin.equivalent(f, lin.f_not(gt))) and b2 == "self._concurrency" and a == "self._fixed_invocation_nums")
            elif call_name(v) == "min":
                ok = {norm(x) for x in v.args} == {"self._concurrency", "self._fixed_invocation_nums"}
            ok = ok and norm(ext[0].args[0]) == f"[self._start] * {norm(nr[0].targets[0])}"
    ctx.check(ok, "C19.R6", "ReleasePolicy.get_release_times|closed loop starts min(concurrency, N) graphs at the start time", loc(grt), "ok",
              "the closed-loop policy does not start min(concurrency, invocations) graphs")
    jg = ctx.repo.mod(JOBS).cls("JobGraph")
    gen = method(jg, "generate_task_graphs")
    rem = [a for a in ast.walk(gen) if isinstance(a, ast.Assign) and is_self_attr(a.targets[0], "_remaining_task_graphs")]
    ok = bool(rem) and lin.lin_of(rem[0].value) == lin.lin_of(ast.parse("self.release_policy.num_invocations - len(releases)", mode="eval").body) \
        and isinstance(parent(rem[0]), ast.If) and "CLOSED_LOOP" in norm(parent(rem[0]).test)
    ctx.check(ok, "C19.R6", "JobGraph.generate_task_graphs|remaining = N - initially released", loc(rem[0]) if rem else loc(gen), "ok",
              "the closed-loop budget is not N minus the initial releases")
    nx = method(jg, "get_next_task_graph")
    g = cfgmod.build(nx)
    gens = [c for c in calls_in(nx, "_generate_task_graph")]
    decs = [a for a in ast.walk(nx) if isinstance(a, ast.AugAssign) and is_self_attr(a.target, "_remaining_task_graphs")]
    want = lin.formula(ast.parse("self._remaining_task_graphs > 0", mode="eval").body)
    tests = [t for t in g.nodes if t.kind == "test" and lin.equivalent(lin.formula(t.ast), want)]
    ok = bool(gens) and bool(decs) and bool(tests) and g.edge_dominates(tests[0], "T", g.node_of(gens[0])) and g.dominates(g.node_of(decs[0]), g.node_of(gens[0])) \
        and isinstance(decs[0].op, ast.Sub) and lin.lin_of(decs[0].value).const == 1 and g.edge_dominates(tests[0], "T", g.node_of(decs[0]))
    ctx.check(ok, "C19.R6", "JobGraph.get_next_task_graph|budget tested > 0 and decremented before generating", loc(nx), "ok",
              "a further closed-loop graph can be generated without consuming the invocation budget")
    # the follow-up graph gets a fresh index: the counter left at the last used index is advanced BEFORE the name is built
    idx = [a for a in ast.walk(nx) if isinstance(a, ast.AugAssign) and is_self_attr(a.target, "_task_graph_index")]
    okn = bool(gens) and bool(idx) and isinstance(idx[0].op, ast.Add) and lin.lin_of(idx[0].value).const == 1 and g.dominates(g.node_of(idx[0]), g.node_of(gens[0])) \
        and any(k.arg == "task_graph_name" and "self._task_graph_index" in norm(k.value) for k in gens[0].keywords) \
        and any(k.arg == "timestamp" and norm(k.value) == "self._task_graph_index" for k in gens[0].keywords)
    last = [a for a in ast.walk(gen) if isinstance(a, ast.Assign) and is_self_attr(a.targets[0], "_task_graph_index")]
    okl = bool(last) and lin.lin_of(last[-1].value) == lin.lin_of(ast.parse("len(task_graphs) - 1", mode="eval").body)
    ctx.check(okn and okl, "C19.R6", "JobGraph.get_next_task_graph|follow-up graph named with a fresh index", loc(idx[0]) if idx else loc(nx),
              "index := last used (generate_task_graphs), += 1 before naming",
              "the follow-up graph is named / timestamped with an index that is already in use: it replaces the still unfinished graph of that name "
              "in the workload, whose remaining tasks are then never scheduled (or their completion is rejected)")
    wl = ctx.repo.mod(WORKLOAD).cls("Workload")
    nt = method(wl, "notify_task_graph_completion")
    g2 = cfgmod.build(nt)
    calls = [c for c in calls_in(nt, "get_next_task_graph")]
    ok = False
    if calls:
        cn = g2.node_of(calls[0])
        ok = any(t.kind == "test" and "CLOSED_LOOP" in norm(t.ast) and g2.edge_dominates(t, "T", cn) for t in g2.nodes)
        st = next((k.value for k in calls[0].keywords if k.arg == "start_time"), None)
        ok = ok and st is not None and lin.lin_of(st) == lin.lin_of(ast.parse("finish_time + 1", mode="eval").body)
    ctx.check(ok, "C19.R6", "Workload.notify_task_graph_completion|next graph only for closed-loop policies, released right after the finish", loc(nt), "ok",
              "graph completion generates further graphs for non-closed-loop policies or at the wrong time")
    # called on graph completion (and cancellation) by the simulator
    n = len(ctx.repo.calls_named("notify_task_graph_completion"))
    ctx.check(n >= 2, "C19.R6", "Simulator|notifies graph completion and cancellation", loc(nt), f"{n} call sites", "the workload is never told that a graph finished")


def r7_config_type_agreement(ctx: Context) -> None:
    ctx.rule("C19.R7", "configuration fields assigned on both the flags and the no-flags branch have the same wrapper type "
                       "(EventTime vs raw value)")
    n = 0
    for rel in (WL, WK, "data/alibaba_loader.py"):
        if rel not in ctx.repo.modules:
            continue
        m = ctx.repo.mod(rel)
        for cls in m.classes():
            init = methods(cls).get("__init__")
            if init is None:
                continue
            for top in [s for s in init.body if isinstance(s, ast.If) and norm(s.test) in ("_flags", "flags", "_flags is not None")]:
                a = _field_assigns(top.body)
                b = _field_assigns(top.orelse)
                for f in sorted(set(a) & set(b)):
                    n += 1
                    ka, kb = _wrapper_kind(a[f]), _wrapper_kind(b[f])
                    plain = {"raw flag", "int", "bool", "float", "str"}
                    ok = ka == kb or "unknown" in (ka, kb) or "none" in (ka, kb) or (ka in plain and kb in plain)
                    ctx.check(ok, "C19.R7", f"{rel}::{cls.name}.__init__|field {f}", loc(a[f]), f"{ka} on both branches",
                              f"`{f}` is `{norm(a[f].value)[:50]}` ({ka}) when flags are given but `{norm(b[f].value)[:50]}` ({kb}) otherwise: "
                              "code written against one representation fails on the other")
    ctx.floor("C19.R7", "fields assigned on both configuration branches", n, 6)


def _field_assigns(stmts) -> Dict[str, ast.Assign]:
    out = {}
    for s in stmts:
        if isinstance(s, ast.Assign) and len(s.targets) == 1 and is_self_attr(s.targets[0]):
            out[s.targets[0].attr] = s
    return out


def _wrapper_kind(a: ast.Assign) -> str:
    v = a.value
    if isinstance(v, ast.Constant) and v.value is None:
        return "none"
    if isinstance(v, ast.IfExp):
        ks = {_wrapper_kind(ast.Assign(targets=a.targets, value=x)) for x in (v.body, v.orelse)} - {"none"}
        return ks.pop() if len(ks) == 1 else ("unknown" if ks else "none")
    if isinstance(v, ast.Call) and (dotted(v.func) or "").startswith("EventTime"):
        return "EventTime"
    if isinstance(v, ast.Call) and call_name(v) == "setup_logging":
        return "logger"
    if isinstance(v, ast.Constant):
        return type(v.value).__name__
    if isinstance(v, ast.Attribute) and norm(v).startswith(("_flags.", "flags.")):
        return "raw flag"
    return "unknown"


FLAG_THREADED = ("generate_task_graphs", "get_next_task_graph", "_generate_task_graph")


def r10_flags_threaded(ctx: Context) -> None:
    ctx.rule("C19.R10", "every call that instantiates task graphs from a job graph (generate_task_graphs / get_next_task_graph / "
                        "_generate_task_graph) hands on the caller's flags, so that re-released and initial copies are built with "
                        "the same deadline bounds, variance and conditional-resolution settings")
    n = 0
    for m in ctx.repo.program_modules():
        for c in ast.walk(m.tree):
            if not (isinstance(c, ast.Call) and call_name(c) in FLAG_THREADED):
                continue
            fn = enclosing_function(c)
            if fn is None:
                continue
            cls = enclosing_class(c)
            has_param = "_flags" in [a.arg for a in fn.args.args + fn.args.kwonlyargs]
            has_attr = cls is not None and any(isinstance(x, ast.Attribute) and x.attr == "_flags" and is_self_attr(x) for x in ast.walk(cls))
            if not (has_param or has_attr):
                continue
            n += 1
            kw = next((k.value for k in c.keywords if k.arg == "_flags"), None)
            want = "_flags" if has_param else "self._flags"
            ctx.check(kw is not None and norm(kw) in ("_flags", "self._flags"), "C19.R10",
                      f"{qualname(c)}|{call_name(c)}(..., _flags={want})", loc(c), f"_flags={norm(kw) if kw is not None else None}",
                      f"`{norm(c)[:80]}` does not hand on the flags available as `{want}`: task graphs built here use the no-flags "
                      "defaults (deadline bounds (0, maxsize), no conditional resolution at submission, no deadline decomposition) and "
                      "differ from the copies built at load time")
    ctx.floor("C19.R10", "flag-threading call sites", n, 5)


def r9_inventory_ids(ctx: Context) -> None:
    ctx.rule("C19.R9", "the cluster loader never gives an inventory resource the wildcard id: an entry without an id becomes "
                       "Resource(name, None) (a fresh distinct instance), so repeated entries of one name add up")
    mod = ctx.repo.mod("data/worker_loader.py")
    n = 0
    for c in ast.walk(mod.tree):
        if isinstance(c, ast.Call) and call_name(c) == "Resource":
            idv = next((k.value for k in c.keywords if k.arg == "_id"), c.args[1] if len(c.args) > 1 else None)
            if idv is None:
                continue
            n += 1
            consts = set()
            srcs = [idv]
            if isinstance(idv, ast.Name):
                fn = enclosing_function(c)
                srcs = [a.value for a in ast.walk(fn) if isinstance(a, ast.Assign) and any(isinstance(t, ast.Name) and t.id == idv.id for t in a.targets)]
            for v in srcs:
                for x in ast.walk(v):
                    if isinstance(x, ast.Constant) and isinstance(x.value, str):
                        consts.add(x.value)
            ctx.check("any" not in consts, "C19.R9", f"{qualname(c)}|inventory resource id is never the wildcard", loc(c), f"id from {[norm(v)[:50] for v in srcs]}",
                      "a worker's resource can be created with the wildcard id 'any': all id-less entries of one name compare equal, later "
                      "entries overwrite earlier ones and the worker owns less than the description says")
    ctx.floor("C19.R9", "Resource constructions in the cluster loader", n, 1)


def _is_product_of(term_src: str, a: str, b: str) -> bool:
    try:
        e = ast.parse(term_src, mode="eval").body
    except SyntaxError:
        return False
    if not (isinstance(e, ast.BinOp) and isinstance(e.op, ast.Mult)):
        return False
    got = {norm(lin.strip_time(e.left)), norm(lin.strip_time(e.right))}
    return got == {a, b}


def r11_release_grids(ctx: Context) -> None:
    ctx.rule("C19.R11", "release-time grids: PERIODIC = arange(start, completion, period); FIXED = N points from start, one "
                        "period apart (linspace(start, start + period*N, num=N, endpoint=False))")
    rp = [c for c in ctx.repo.mod(JOBS).classes() if c.name == "ReleasePolicy"][0]
    grt = method(rp, "get_release_times")
    start = lin.lin_of(ast.parse("self._start", mode="eval").body)
    for tag, fname in (("PERIODIC", "arange"), ("FIXED", "linspace")):
        br = [n for n in ast.walk(grt) if isinstance(n, ast.If) and tag in norm(n.test)]
        calls = [c for b in br for st in b.body for c in ast.walk(st) if isinstance(c, ast.Call) and call_name(c) == fname]
        if not calls:
            raise AnalysisError(f"ReleasePolicy.get_release_times: np.{fname} for {tag} not found")
        c = calls[0]
        key = f"ReleasePolicy.get_release_times|{tag} grid"
        if tag == "PERIODIC":
            ok = len(c.args) == 3 and lin.lin_of(c.args[0]) == start and lin.lin_of(c.args[1]) == lin.lin_of(ast.parse("completion_time", mode="eval").body) \
                and lin.lin_of(c.args[2]) == lin.lin_of(ast.parse("self._period", mode="eval").body)
            ctx.check(ok, "C19.R11", key, loc(c), "arange(start, completion, period)", f"periodic releases are `{norm(c)[:100]}`")
        else:
            okn = any(k.arg == "num" and norm(k.value) == "self._fixed_invocation_nums" for k in c.keywords) and \
                any(k.arg == "endpoint" and isinstance(k.value, ast.Constant) and k.value.value is False for k in c.keywords)
            ok = len(c.args) == 2 and lin.lin_of(c.args[0]) == start
            if ok:
                d = lin.lin_of(c.args[1]) - start
                ok = d.const == 0 and len(d.terms) == 1 and list(d.terms.values())[0] == 1 and \
                    _is_product_of(list(d.terms)[0], "self._period", "self._fixed_invocation_nums")
            ctx.check(ok and okn, "C19.R11", key, loc(c), "linspace(start, start + period*N, num=N, endpoint=False)",
                      f"fixed releases are `{norm(c)[:140]}`: not N releases one period apart from the start")


def r15_description_values(ctx: Context) -> None:
    ctx.rule("C19.R15", "values read from the description keep what the description says: an optional field is defaulted only when it is "
                        "absent (never through `or`, which also replaces a legal 0 / 0.0 / False), and `declared if override_X is None else "
                        "override_X` tests the very override it falls back from")
    n_or = n_ov = 0
    for rel, cname in (("data/workload_loader.py", "WorkloadLoader"),):
        cls = ctx.repo.mod(rel).cls(cname)
        for fn in methods(cls).values():
            for node in ast.walk(fn):
                # `x.get(k) or d` / `x[k] or d` where x is a description node
                if isinstance(node, ast.BoolOp) and isinstance(node.op, ast.Or) and len(node.values) == 2:
                    a = node.values[0]
                    reads = (isinstance(a, ast.Call) and isinstance(a.func, ast.Attribute) and a.func.attr == "get" and a.args and isinstance(a.args[0], ast.Constant)) \
                        or (isinstance(a, ast.Subscript) and isinstance(a.slice, ast.Constant) and isinstance(a.slice.value, str))
                    if reads and isinstance(node.values[1], ast.Constant) and not isinstance(node.values[1].value, (str, type(None))):
                        n_or += 1
                        ctx.violation("C19.R15", f"{rel}::{cname}.{fn.name}|`{norm(node)[:60]}` keeps a declared falsy value", loc(node),
                                      f"`{norm(node)[:80]}` replaces a declared 0 / 0.0 / False by the default: the loaded job differs from its description "
                                      "(a branch declared with probability 0.0 is loaded as certain)")
                if isinstance(node, ast.IfExp) and isinstance(node.test, ast.Compare) and len(node.test.ops) == 1 and isinstance(node.test.ops[0], (ast.Is, ast.IsNot)) \
                        and isinstance(node.test.left, ast.Name) and node.test.left.id.startswith("override_") \
                        and isinstance(node.test.comparators[0], ast.Constant) and node.test.comparators[0].value is None:
                    other = node.orelse if isinstance(node.test.ops[0], ast.Is) else node.body
                    n_ov += 1
                    ok = isinstance(other, ast.Name) and other.id == node.test.left.id
                    ctx.check(ok, "C19.R15", f"{rel}::{cname}.{fn.name}|`{norm(node)[:50]}` tests the override it uses", loc(node), "same override",
                              f"`{norm(node)[:90]}` decides by `{node.test.left.id}` but falls back to `{norm(other)[:40]}`: with only one of the overrides "
                              "given the declared value is ignored or None is passed on")
    ctx.count("override_selections", n_ov)
    ctx.floor("C19.R15", "override selections in the loader", n_ov, 4)


def run(ctx: Context) -> None:
    ctx.isolate(r15_description_values)
    ctx.isolate(r1_no_state_leak)
    ctx.isolate(r2_release_policy_dispatch)
    ctx.isolate(r3_keyword_agreement)
    ctx.isolate(r4_fresh_copy)
    ctx.isolate(r5_deadline_dataflow)
    ctx.isolate(r6_closed_loop)
    ctx.isolate(r7_config_type_agreement)
    ctx.isolate(r9_inventory_ids)
    ctx.isolate(r10_flags_threaded)
    ctx.isolate(r11_release_grids)
    from . import c17
    ctx.isolate(c17.r6_weights_in_one_unit, _alias={"C17.R6": "C19.R8"})
    ctx.isolate(c17.r3_longest_path, _alias={"C17.R3": "C19.R12"})
    from . import c16
    ctx.isolate(c16.r6_no_raw_time_numbers, rule="C19.R14", files=("workload/jobs.py", "workload/workload.py", "data/workload_loader.py", "data/worker_loader.py", "workload/graph.py"), floor=15)
    ctx.isolate(c17.cache_coherence, "C19.R13", ("JobGraph", "Graph"), "deadlines are release + the completion time of the graph as it is", 2)
