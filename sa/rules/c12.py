"""C12 — Deadline enforcement: no plan that misses a deadline, hopeless tasks dropped (structural clauses)."""
from __future__ import annotations

import ast
from typing import Dict, List, Optional, Set, Tuple

from .. import cfg as cfgmod
from .. import lin
from ..anchors import SIM, TASKS, Sim, event_constructions
from ..core import (
    reaching_calls,
    AnalysisError,
    call_name,
    calls_in,
    dotted,
    enclosing_function,
    is_self_attr,
    loc,
    method,
    methods,
    norm,
    parent,
    qualname,
    src,
)
from ..report import Context
from . import c15

EXPLANATION = (
    "Static guard / shape analysis: the admission test of the four cancelling policies (EDF, FIFO, Clockwork, "
    "TetriSched-CPLEX) is equivalent to `enforce_deadlines and deadline < now + fastest.runtime` (the fastest strategy "
    "from get_fastest_strategy()), produces a CANCEL_TASK decision and excludes the task from placement on every path; "
    "the four guards are cross-checked; ILP adds `start + sum(placed * runtime) <= deadline` under enforce_deadlines for "
    "every non-pinned task; in both space-time formulations a cell becomes a decision variable only on paths whose "
    "condition entails `enforce => start + runtime <= deadline`; Clockwork offers a strategy only if now + runtime <= "
    "earliest queued deadline (C15.R5); the simulator turns CANCEL_TASK decisions into a cascade of TASK_CANCEL events "
    "with dropping forced on. NOT decided: completion <= deadline in whole runs."
)
ASSUMPTIONS = ["ExecutionStrategies.get_fastest_strategy returns the minimum-runtime strategy (checked structurally)"]

ADMISSION = [("schedulers/edf_scheduler.py", "EDFScheduler", "schedule"), ("schedulers/fifo_scheduler.py", "FIFOScheduler", "schedule"),
             ("schedulers/clockwork_scheduler.py", "ClockworkScheduler", "run_admission"), ("schedulers/tetrisched_cplex_scheduler.py", "TetriSchedCPLEXScheduler", "schedule")]


def _now_name(fn: ast.FunctionDef) -> str:
    params = [a.arg for a in fn.args.args]
    return "sim_time" if "sim_time" in params else "current_time"


def _explicit_extreme_loop(gf: ast.FunctionDef, rets, fn_name: str) -> bool:
    """best = None; for s in self._strategies: if best is None or s.runtime < best.runtime: best = s; return best  (`>` for max):
    the comparisons min()/max() make, first of ties kept."""
    loops = [l for l in ast.walk(gf) if isinstance(l, ast.For)]
    if len(loops) == 1 and norm(loops[0].iter) == "self._strategies[1:]" and isinstance(loops[0].target, ast.Name) and not loops[0].orelse:
        return _explicit_extreme_loop_from_first(gf, loops[0], rets, fn_name)
    if len(loops) != 1 or norm(loops[0].iter) != "self._strategies" or not isinstance(loops[0].target, ast.Name) or loops[0].orelse:
        return False
    lp = loops[0]
    sv = lp.target.id
    if len(lp.body) != 1 or not isinstance(lp.body[0], ast.If) or lp.body[0].orelse:
        return False
    iff = lp.body[0]
    if len(iff.body) != 1 or not isinstance(iff.body[0], ast.Assign) or not isinstance(iff.body[0].targets[0], ast.Name) or norm(iff.body[0].value) != sv:
        return False
    best = iff.body[0].targets[0].id
    t = iff.test
    if not (isinstance(t, ast.BoolOp) and isinstance(t.op, ast.Or) and len(t.values) == 2 and norm(t.values[0]) == f"{best} is None"):
        return False
    c = t.values[1]
    if not (isinstance(c, ast.Compare) and len(c.ops) == 1):
        return False
    l, r, op = norm(c.left), norm(c.comparators[0]), type(c.ops[0])
    want_lt = fn_name == "min"
    strict = (l == f"{sv}.runtime" and r == f"{best}.runtime" and op is (ast.Lt if want_lt else ast.Gt)) or \
             (l == f"{best}.runtime" and r == f"{sv}.runtime" and op is (ast.Gt if want_lt else ast.Lt))
    inits = [a for a in gf.body if isinstance(a, ast.Assign) and isinstance(a.targets[0], ast.Name) and a.targets[0].id == best
             and isinstance(a.value, ast.Constant) and a.value.value is None]
    return strict and bool(inits) and all(norm(x.value) == best for x in rets) \
        and not any(isinstance(x, (ast.Break, ast.Continue)) for x in ast.walk(lp))


def _explicit_extreme_loop_from_first(gf, lp, rets, fn_name: str) -> bool:
    """best = self._strategies[0]; key = best.runtime; for s in self._strategies[1:]: if s.runtime < key: best, key = s, s.runtime; return best"""
    sv = lp.target.id
    assigns = {}
    for a in gf.body:
        if isinstance(a, ast.Assign) and len(a.targets) == 1 and isinstance(a.targets[0], ast.Name):
            assigns.setdefault(a.targets[0].id, norm(a.value))
    best = next((k for k, v in assigns.items() if v == "self._strategies[0]"), None)
    if best is None:
        return False
    key = next((k for k, v in assigns.items() if v == f"{best}.runtime"), None)
    if len(lp.body) != 1 or not isinstance(lp.body[0], ast.If) or lp.body[0].orelse:
        return False
    iff = lp.body[0]
    c = iff.test
    if not (isinstance(c, ast.Compare) and len(c.ops) == 1):
        return False
    want_lt = fn_name == "min"
    cur = key if key is not None else f"{best}.runtime"
    l, r, op = norm(c.left), norm(c.comparators[0]), type(c.ops[0])
    strict = (l == f"{sv}.runtime" and r == cur and op is (ast.Lt if want_lt else ast.Gt)) or (l == cur and r == f"{sv}.runtime" and op is (ast.Gt if want_lt else ast.Lt))
    # the update keeps best and its key together
    stores = {}
    for a in iff.body:
        if isinstance(a, ast.Assign) and len(a.targets) == 1:
            t, v = a.targets[0], a.value
            if isinstance(t, ast.Tuple) and isinstance(v, ast.Tuple) and len(t.elts) == len(v.elts):
                for tt, vv in zip(t.elts, v.elts):
                    stores[norm(tt)] = norm(vv)
            else:
                stores[norm(t)] = norm(v)
        else:
            return False
    upd = stores.get(best) == sv and (key is None or stores.get(key) == f"{sv}.runtime") and set(stores) <= {best, key}
    return bool(strict and upd and all(norm(x.value) == best for x in rets) and not any(isinstance(x, (ast.Break, ast.Continue)) for x in ast.walk(lp)))


def strategy_extremes(ctx: Context, rule: str) -> None:
    """get_fastest_strategy / get_slowest_strategy compute min / max by runtime over the CURRENT strategy set on every call."""
    if not rule.startswith("C12"):
        ctx.rule(rule, "ExecutionStrategies.get_fastest_strategy / get_slowest_strategy return min / max by runtime over the current "
                       "strategies on every call (no memo that can go stale when a strategy is added): planners take the parent's "
                       "worst-case runtime and the admission bound from them")
    es = ctx.repo.mod("workload/strategy.py").cls("ExecutionStrategies")
    for name, fn_name in (("get_fastest_strategy", "min"), ("get_slowest_strategy", "max")):
        gf = method(es, name)
        rets = [r for r in ast.walk(gf) if isinstance(r, ast.Return) and r.value is not None and not (isinstance(r.value, ast.Constant) and r.value.value is None)]
        ok = bool(rets) and all(isinstance(r.value, ast.Call) and call_name(r.value) == fn_name and "runtime" in norm(r.value) and "self._strategies" in norm(r.value) for r in rets)
        if not ok:
            ok = _explicit_extreme_loop(gf, rets, fn_name)
        ctx.check(ok, rule, f"ExecutionStrategies.{name}|{fn_name} by runtime, computed per call", loc(gf), f"{fn_name}(strategies, key=runtime)",
                  f"{name} returns {[norm(r.value)[:50] for r in rets]}: not the {fn_name}imum-runtime strategy of the current set (a cached value goes "
                  "stale when strategies are added later)")


def r1_admission(ctx: Context) -> None:
    ctx.rule("C12.R1", "admission siblings: enforce_deadlines and deadline < now + fastest.runtime -> CANCEL_TASK decision, task excluded from placement")
    shown = []
    for rel, cname, mname in ADMISSION:
        fn = method(ctx.repo.mod(rel).cls(cname), mname)
        ctx.analysed_function(f"{rel}::{cname}.{mname}")
        g = cfgmod.build(fn)
        now = _now_name(fn)
        late = lin.formula(ast.parse(f"task.deadline < {now} + task.available_execution_strategies.get_fastest_strategy().runtime", mode="eval").body)
        enf = lin.formula(ast.parse("self.enforce_deadlines", mode="eval").body)
        want = ("and", [enf, late])
        cancels = [c for c in calls_in(fn, "create_task_cancellation")]
        key = f"{rel}::{cname}.{mname}"
        if not cancels:
            ctx.violation("C12.R1", key + "|cancellation decision", loc(fn), f"{cname} never answers a hopeless task with a cancellation")
            continue
        # the decision that reaches the result: either appended directly, or after a removal loop (CPLEX two-phase)
        cn = g.node_of(cancels[0])
        ctl = [lin.formula(t.ast) if pol == "T" else lin.f_not(lin.formula(t.ast)) for t in g.nodes if t.kind == "test"
               for pol in ("T", "F") if g.edge_dominates(t, pol, cn)]
        cond = ("and", ctl) if ctl else ("const", True)
        two_phase = any(isinstance(l, ast.For) and norm(l.iter) == "tasks_to_remove" and any(x is cancels[0] for x in ast.walk(l)) for l in ast.walk(fn))
        if two_phase:
            # phase 1: tasks_to_remove.append(task) under the late test, inside `if self.enforce_deadlines`
            adds = [c for c in calls_in(fn, "append") if norm(c.func.value) == "tasks_to_remove"]
            if not adds:
                ctx.violation("C12.R1", key + "|late tasks collected", loc(fn), "late tasks are not collected for cancellation")
                continue
            an = g.node_of(adds[0])
            ctl = [lin.formula(t.ast) if pol == "T" else lin.f_not(lin.formula(t.ast)) for t in g.nodes if t.kind == "test"
                   for pol in ("T", "F") if g.edge_dominates(t, pol, an)]
            cond = ("and", ctl)
        ok = lin.equivalent(cond, want)
        shown.append((cname, lin.show(cond)))
        ctx.check(ok, "C12.R1", key + "|guard == enforce_deadlines and deadline < now + fastest runtime", loc(cancels[0]), lin.show(cond)[:140],
                  f"{cname} cancels under `{lin.show(cond)[:200]}`, which is not `enforce_deadlines and deadline < now + fastest.runtime`")
        arg = cancels[0].args[0] if cancels[0].args else next((k.value for k in cancels[0].keywords if k.arg == "task"), None)
        ctx.check(arg is not None and norm(arg) == "task", "C12.R1", key + "|cancellation names the late task", loc(cancels[0]), "task", f"cancels `{norm(arg) if arg is not None else '?'}`")
        # exclusion from placement
        if two_phase:
            rem = [c for c in calls_in(fn, "remove") if norm(c.func.value) == "tasks_to_be_scheduled" and norm(c.args[0]) == "task"]
            lp = parent(cancels[0])
            while lp is not None and not isinstance(lp, ast.For):
                lp = parent(lp)
            ok = bool(rem) and lp is not None and any(x is rem[0] for x in ast.walk(lp))
            av = [c for c in calls_in(fn) if call_name(c) == "_add_variables"]
            ok = ok and bool(av) and g.reachable(g.node_of(lp), g.node_of(av[0])) and not g.reachable(g.node_of(av[0]), g.node_of(lp))
            ctx.check(ok, "C12.R1", key + "|cancelled tasks removed before the model is built", loc(cancels[0]), "tasks_to_be_scheduled.remove(task) precedes _add_variables",
                      "a cancelled task still gets placement variables")
        elif mname == "run_admission":
            adds = [c for c in calls_in(fn, "add_task")]
            ok = bool(adds) and any(t.kind == "test" and g.edge_dominates(t, "T", cn) and g.edge_dominates(t, "F", g.node_of(adds[0])) for t in g.nodes)
            ctx.check(ok, "C12.R1", key + "|cancelled requests are not queued", loc(cancels[0]), "else-branch queues", "a cancelled request is also queued for batching")
        else:
            # greedy loop: `continue` right after the cancellation, before any placement attempt
            st = parent(parent(cancels[0]))
            blk = None
            p = cancels[0]
            while p is not None and not isinstance(p, ast.If):
                p = parent(p)
            okc = p is not None and any(isinstance(x, ast.Continue) for x in p.body)
            places = reaching_calls(fn, "place_task")
            okc = okc and bool(places) and not g.reachable(cn, g.node_of(places[0]), avoid={g.node_of(_loop_of(cancels[0])).id})
            ctx.check(okc, "C12.R1", key + "|cancelled task is not tried for placement", loc(cancels[0]), "continue", "a cancelled task can still be placed in the same iteration")
        # the decision is returned
        apps = [c for c in calls_in(fn, "append") if any(x is cancels[0] for x in ast.walk(c))]
        ctx.check(bool(apps), "C12.R1", key + "|cancellation is part of the returned decisions", loc(cancels[0]), "appended", "the cancellation decision is dropped")
    ctx.sample({"admission_guards": shown})
    ctx.floor("C12.R1", "admission sites", len(shown), 4)
    strategy_extremes(ctx, "C12.R1")
    # enforce_deadlines accessor
    bs = ctx.repo.mod("schedulers/base_scheduler.py").cls("BaseScheduler")
    ed = method(bs, "enforce_deadlines")
    ctx.check(any(isinstance(r, ast.Return) and is_self_attr(r.value, "_enforce_deadlines") for r in ast.walk(ed)), "C12.R1", "BaseScheduler.enforce_deadlines|accessor", loc(ed), "ok", "accessor changed")


def _loop_of(n: ast.AST) -> ast.For:
    p = parent(n)
    while p is not None and not isinstance(p, ast.For):
        p = parent(p)
    if p is None:
        raise AnalysisError("cancellation not inside a loop")
    return p


def r2_ilp_deadline(ctx: Context) -> None:
    ctx.rule("C12.R2", "ILP: under enforce_deadlines, start + sum(placed[w, s] * runtime(s)) <= deadline for every non-pinned task")
    rel = "schedulers/ilp_scheduler.py"
    tov = ctx.repo.mod(rel).cls("TaskOptimizerVariables")
    fn = method(tov, "_initialize_timing_constraints")
    ctx.analysed_function(f"{rel}::TaskOptimizerVariables._initialize_timing_constraints")
    g = cfgmod.build(fn)
    cons = [c for c in calls_in(fn, "addConstr")]
    key = f"{rel}::TaskOptimizerVariables._initialize_timing_constraints"
    if not cons:
        ctx.violation("C12.R2", key + "|deadline constraint", loc(fn), "no deadline constraint is added")
        return
    c = cons[0]
    a = c.args[0]
    ok = isinstance(a, ast.Compare) and len(a.ops) == 1
    if ok:
        l, r = (a.left, a.comparators[0]) if isinstance(a.ops[0], (ast.LtE, ast.Lt)) else (a.comparators[0], a.left)
        strict_ok = isinstance(a.ops[0], (ast.LtE, ast.GtE))
        rl = lin.lin_of(r)
        ok = strict_ok and rl.terms == {"self.task.deadline": 1} and rl.const <= 0 and isinstance(l, ast.Name)
        if ok:
            ename = l.id
            init = [x for x in ast.walk(fn) if isinstance(x, ast.Assign) and norm(x.targets[0]) == ename]
            ok = bool(init) and norm(init[0].value) == "gp.LinExpr(self.start_time)"
            adds = [x for x in calls_in(fn, "add") if norm(x.func.value) == ename]
            ok = ok and len(adds) == 1
            if ok:
                t = adds[0].args[0]
                ok = isinstance(t, ast.BinOp) and isinstance(t.op, ast.Mult) and {norm(strip(t.left)), norm(strip(t.right))} == {"placement_variable", "execution_strategy.runtime"}
                lp = parent(adds[0])
                while lp is not None and not isinstance(lp, ast.For):
                    lp = parent(lp)
                ok = ok and lp is not None and norm(lp.iter) == "self._placed_on_worker_with_strategy.items()" \
                    and not any(isinstance(x, (ast.If, ast.Continue, ast.Break)) for x in ast.walk(lp))
                unpack = [x for x in ast.walk(lp) if isinstance(x, ast.Assign) and isinstance(x.targets[0], ast.Tuple) and norm(x.value) == "placement_key"] if lp is not None else []
                ok = ok and bool(unpack) and norm(unpack[0].targets[0].elts[1]) == "execution_strategy"
    ctx.check(bool(ok), "C12.R2", key + "|start + sum(placed * runtime) <= deadline", loc(c), norm(a)[:80],
              f"the ILP deadline constraint is `{norm(a)[:100]}` with a runtime sum that does not cover every (worker, strategy) placement variable")
    cn = g.node_of(c)
    guard = [t for t in g.nodes if t.kind == "test" and norm(t.ast) == "enforce_deadlines" and g.edge_dominates(t, "T", cn)]
    others = [t for t in g.nodes if t.kind == "test" and t not in guard and (g.edge_dominates(t, "T", cn) or g.edge_dominates(t, "F", cn))]
    ctx.check(bool(guard) and not others, "C12.R2", key + "|added exactly when enforce_deadlines", loc(c), "if enforce_deadlines", "the deadline constraint is conditioned on something else")
    # installed for every non-pinned task
    ic = method(tov, "initialize_constraints")
    ok = any(call_name(x) == "_initialize_timing_constraints" and [norm(y) for y in x.args] == ["optimizer", "enforce_deadlines"] for x in calls_in(ic))
    init = method(tov, "__init__")
    gi = cfgmod.build(init)
    calls = [x for x in calls_in(init, "initialize_constraints")]
    running = [t for t in gi.nodes if t.kind == "test" and "TaskState.RUNNING" in norm(t.ast)]
    ok = ok and bool(calls) and bool(running) and gi.edge_dominates(running[0], "F", gi.node_of(calls[0])) and \
        not any(t.kind == "test" and t is not running[0] and (gi.edge_dominates(t, "T", gi.node_of(calls[0])) or gi.edge_dominates(t, "F", gi.node_of(calls[0]))) for t in gi.nodes)
    ctx.check(ok, "C12.R2", f"{rel}::TaskOptimizerVariables.__init__|constraints installed for every task that is not already running", loc(init), "ok",
              "some non-running task does not get its deadline constraint")
    # the scheduler passes its own enforce_deadlines in task-by-task mode
    sch = ctx.repo.mod(rel).cls("ILPScheduler")
    av = method(sch, "_add_variables")
    tv = [x for x in calls_in(av, "TaskOptimizerVariables")]
    ok = False
    for x in tv:
        if len(x.args) >= 5 and norm(x.args[4]) == "enforce_deadlines":
            d = [y for y in ast.walk(av) if isinstance(y, ast.Assign) and norm(y.targets[0]) == "enforce_deadlines"]
            # weakened only under release_taskgraphs and a graph allowed to miss deadlines
            weak = [y for y in d if norm(y.value) == "False"]
            base = [y for y in d if norm(y.value) == "self.enforce_deadlines"]
            okw = all(isinstance(parent(y), ast.If) and "self.release_taskgraphs" in norm(parent(y).test) and "_allowed_to_miss_deadlines" in norm(parent(y).test) for y in weak)
            ok = bool(base) and okw
    ctx.check(ok, "C12.R2", f"{rel}::ILPScheduler._add_variables|task-by-task mode passes the scheduler's enforce_deadlines unweakened", loc(av), "ok",
              "enforcement is weakened outside the release_taskgraphs / allowed-to-miss case")


def strip(e: ast.AST) -> ast.AST:
    return lin.strip_time(e)


def r3_space_time_gating(ctx: Context, rule: str = "C12.R3", check_exact: bool = False, exact_rule: Optional[str] = None) -> None:
    ctx.rule(rule, "space-time formulations: a cell is a decision variable only if (enforce => start + runtime <= deadline)")
    for rel in ("schedulers/tetrisched_gurobi_scheduler.py", "schedulers/tetrisched_cplex_scheduler.py"):
        cls = ctx.repo.mod(rel).cls("TaskOptimizerVariables")
        init = method(cls, "__init__")
        ctx.analysed_function(f"{rel}::TaskOptimizerVariables.__init__")
        g = cfgmod.build(init)
        creates = [c for c in calls_in(init) if call_name(c) in ("addVar", "binary_var") and "placed_at_Worker" in norm(c)]
        ctx.floor(rule, f"cell variable creation in {rel}", len(creates), 1)
        cn = g.node_of(creates[0])
        loop = parent(creates[0])
        while loop is not None and not isinstance(loop, ast.For):
            loop = parent(loop)
        inside = [t for t in g.nodes if t.kind == "test" and loop is not None and any(x is t.ast for x in ast.walk(loop))]
        ctl = []
        for t in inside:
            for pol in ("T", "F"):
                if g.edge_dominates(t, pol, cn):
                    f = lin.formula(t.ast)
                    ctl.append(f if pol == "T" else lin.f_not(f))
        cond = ("and", ctl) if ctl else ("const", True)
        late = lin.formula(ast.parse("enforce_deadlines and start_time + strategy.runtime > task.deadline", mode="eval").body)
        ok = lin.entails(cond, lin.f_not(late))
        key = f"{rel}::TaskOptimizerVariables.__init__"
        ctx.check(ok, rule, key + "|no decision variable for a start that misses the deadline", loc(creates[0]), lin.show(cond)[:160],
                  f"a cell whose start + runtime exceeds the deadline can be a decision variable under enforcement (created under `{lin.show(cond)[:160]}`)")
        # the created variable is stored in the same cell that was tested
        st = parent(creates[0])
        ok = isinstance(st, ast.Assign) and isinstance(st.targets[0], ast.Subscript) and norm(st.targets[0].slice) == "(worker_id, start_time, strategy)"
        ctx.check(ok, rule, key + "|variable stored in the tested cell", loc(creates[0]), "matrix[(worker_id, start_time, strategy)]", "variable stored under another key")
        if check_exact:
            # C14.R1: the cell is constant 0 only for: incompatible pair, start < release, enforce and late
            incompatible = lin.formula(ast.parse("worker_id not in schedulable_workers_to_strategies or strategy not in schedulable_workers_to_strategies[worker_id]",
                                                 mode="eval").body)
            early = lin.formula(ast.parse("start_time < task.release_time", mode="eval").body)
            allowed_zero = ("or", [incompatible, early, late])
            okx = lin.entails(lin.f_not(cond), allowed_zero)
            ctx.check(okx, exact_rule or rule, key + "|a cell is fixed to 0 only when incompatible, before release, or (enforced and) past the deadline", loc(creates[0]),
                      "zeroing conditions are exactly the three specified ones",
                      f"a cell is also excluded under another condition (variable created only when `{lin.show(cond)[:200]}`): achievable placements are ruled out")
        # the scheduler hands its own flag to the variables
        sch_name = "TetriSchedGurobiScheduler" if "gurobi" in rel else "TetriSchedCPLEXScheduler"
        av = method(ctx.repo.mod(rel).cls(sch_name), "_add_variables")
        tv = [c for c in calls_in(av, "TaskOptimizerVariables")]
        okp = bool(tv) and all(any(k.arg == "enforce_deadlines" and "enforce_deadlines" in norm(k.value) for k in c.keywords) for c in tv)
        ctx.check(okp, rule, f"{rel}::{sch_name}._add_variables|enforce_deadlines passed to every task's variables", loc(av), "ok", "the flag is not forwarded to the cell gating")


def r5_simulator_cascade(ctx: Context) -> None:
    ctx.rule("C12.R5", "CANCEL_TASK decisions reach the skip routine with dropping forced on, which cancels the cascade and emits TASK_CANCEL events")
    sim = Sim(ctx.repo)
    h = sim.handler("SCHEDULER_FINISHED")
    g = cfgmod.build(h)
    tests = [t for t in g.nodes if t.kind == "test" and "PlacementType.CANCEL_TASK" in norm(t.ast)]
    ctx.floor("C12.R5", "CANCEL_TASK branch", len(tests), 1)
    skip = [c for c in calls_in(h) if is_self_attr(c.func) and "skip" in c.func.attr]
    ok = False
    for c in skip:
        if g.edge_dominates(tests[0], "T", g.node_of(c)):
            kw = {k.arg: norm(k.value) for k in c.keywords}
            ok = kw.get("drop_skipped_tasks") == "True" and kw.get("placement") == "placement" and kw.get("time") == "event.time"
            ext = parent(c)
            ok = ok and isinstance(ext, ast.Call) and call_name(ext) == "extend"
    ctx.check(ok, "C12.R5", f"{qualname(h)}|cancellation decisions dropped with the cascade", loc(tests[0].ast), "skip(time, placement, drop_skipped_tasks=True)",
              "a CANCEL_TASK decision is not applied as a cancellation with cascade")
    sk = [m for m in sim.methods.values() if "skip" in m.name][0]
    gs = cfgmod.build(sk)
    canc = [c for c in calls_in(sk, "cancel") if len(c.args) == 2]
    evs = event_constructions(sk, "TASK_CANCEL")
    flag = [t for t in gs.nodes if t.kind == "test" and norm(t.ast) == "drop_skipped_tasks"]
    ok = bool(canc) and bool(evs) and bool(flag) and gs.edge_dominates(flag[0], "T", gs.node_of(canc[0])) and norm(canc[0].args[0]) == "placement.task"
    ctx.check(ok, "C12.R5", f"{qualname(sk)}|drop -> task_graph.cancel(placement.task, time) -> TASK_CANCEL events", loc(sk), "ok",
              "dropping a task does not cancel it and its dependants through the task graph")
    # every queued event list is added to the queue
    adds = [c for c in calls_in(h, "add_event")]
    ctx.check(bool(adds), "C12.R5", f"{qualname(h)}|created events are queued", loc(h), "ok", "events are never queued")
    hc = sim.handler("TASK_CANCEL")
    ctx.check(hc is not None, "C12.R5", "Simulator|TASK_CANCEL handler exists", loc(hc), "ok", "no handler")


def run(ctx: Context) -> None:
    ctx.isolate(r1_admission)
    ctx.isolate(r2_ilp_deadline)
    ctx.isolate(r3_space_time_gating)
    ctx.isolate(c15.r5_on_time, rule="C12.R4")
    ctx.isolate(c15.r1b_deadline_sorted, rule="C12.R4b")
    ctx.isolate(r5_simulator_cascade)
    from . import c03
    ctx.isolate(c03.r9_schedule_installs_decision, rule="C12.R6")
    from . import c10
    ctx.isolate(c10.batch_aggregates, rule="C12.R7")
    from . import c16
    ctx.isolate(c16.r6_no_raw_time_numbers, rule="C12.R8", files=("workload/strategy.py", "workload/tasks.py", "workload/profile.py", "schedulers/edf_scheduler.py", "schedulers/fifo_scheduler.py", "schedulers/clockwork_scheduler.py", "schedulers/ilp_scheduler.py", "schedulers/tetrisched_gurobi_scheduler.py", "schedulers/tetrisched_cplex_scheduler.py", "schedulers/base_scheduler.py"), floor=30)
