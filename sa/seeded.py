"""Seeded changes (independent, confirmed property-breaking patches kept under /verif/seeded) as a regression set.

Every `seeded/<id>/patch.diff` is applied IN MEMORY to the sources of the tree under analysis (a small unified-diff
applier; nothing is written to /repo) and the rules of the property named in `meta.json` are run on the variant. The
expectation is recorded in meta.json (`caught_by`): for every listed property at least one rule must report a new
violation. A patch whose context no longer matches the tree (the code moved on) is reported as `stale` and does not
fail the run; a patch that applies and is no longer caught fails the thorough tier.
"""
from __future__ import annotations

import contextlib
import importlib
import io
import json
import os
import re
from typing import Dict, List, Optional, Tuple

from .core import AnalysisError, Repo
from .report import Context, VERIF_DIR, load_known

SEEDED_DIR = os.path.join(VERIF_DIR, "seeded")


def parse_patch(text: str) -> Dict[str, List[Tuple[List[str], List[str]]]]:
    """unified diff -> {path: [(old_lines, new_lines), ...]} (context included in both)."""
    files: Dict[str, List[Tuple[List[str], List[str]]]] = {}
    cur: Optional[str] = None
    old: List[str] = []
    new: List[str] = []

    def flush():
        nonlocal old, new
        if cur is not None and (old or new):
            files.setdefault(cur, []).append((old, new))
        old, new = [], []

    for line in text.splitlines():
        if line.startswith("diff --git"):
            flush()
            cur = None
        elif line.startswith("+++ "):
            flush()
            p = line[4:].strip()
            cur = p[2:] if p.startswith("b/") else p
        elif line.startswith("--- "):
            continue
        elif line.startswith("@@"):
            flush()
        elif cur is not None:
            if line.startswith("+"):
                new.append(line[1:])
            elif line.startswith("-"):
                old.append(line[1:])
            elif line.startswith(" ") or line == "":
                old.append(line[1:] if line else "")
                new.append(line[1:] if line else "")
            elif line.startswith("\\"):
                continue
    flush()
    return files


def apply_patch(root: str, text: str) -> Optional[Dict[str, str]]:
    """Returns {rel: new source} or None when a hunk does not match exactly once."""
    out: Dict[str, str] = {}
    for rel, hunks in parse_patch(text).items():
        path = os.path.join(root, rel)
        if not os.path.exists(path):
            return None
        lines = open(path, encoding="utf-8").read().split("\n")
        for old, new in hunks:
            hits = [i for i in range(len(lines) - len(old) + 1) if lines[i:i + len(old)] == old]
            if len(hits) != 1:
                # trailing-context blank lines are sometimes trimmed by the diff producer
                while old and new and old[-1] == "" and new[-1] == "":
                    old, new = old[:-1], new[:-1]
                hits = [i for i in range(len(lines) - len(old) + 1) if lines[i:i + len(old)] == old]
                if len(hits) != 1:
                    return None
            i = hits[0]
            lines[i:i + len(old)] = new
        out[rel] = "\n".join(lines)
    return out


def seeds() -> List[Dict]:
    out = []
    if not os.path.isdir(SEEDED_DIR):
        return out
    for name in sorted(os.listdir(SEEDED_DIR)):
        d = os.path.join(SEEDED_DIR, name)
        mp = os.path.join(d, "meta.json")
        pp = os.path.join(d, "patch.diff")
        if os.path.isfile(mp) and os.path.isfile(pp):
            meta = json.load(open(mp))
            meta["id"] = name
            meta["patch_text"] = open(pp).read()
            out.append(meta)
    return out


def seeds_raw() -> List[Dict]:
    """Every seeded/<id> with a patch, whether or not meta.json exists yet."""
    out = []
    if not os.path.isdir(SEEDED_DIR):
        return out
    for name in sorted(os.listdir(SEEDED_DIR)):
        pp = os.path.join(SEEDED_DIR, name, "patch.diff")
        if os.path.isfile(pp):
            out.append({"id": name, "patch_text": open(pp).read()})
    return out


def run_on_variant(prop: str, root: str, overrides: Dict[str, str]) -> Tuple[str, List[str], str]:
    mod = importlib.import_module(f"sa.rules.{prop.lower()}")
    try:
        repo = Repo(root, overrides)
        ctx = Context(prop, "quick", 0, repo)
        with contextlib.redirect_stdout(io.StringIO()):
            mod.run(ctx)
        known = {k["key"] for k in load_known() if k.get("property") == prop}
        new_v = [v["key"] for v in ctx.violations if v["key"] not in known]
        if not new_v and ctx.deferred_errors:
            return ("analysis-error", [], ctx.deferred_errors[0])
        return ("violations" if new_v else "clean", new_v, "")
    except AnalysisError as exc:
        return ("analysis-error", [], str(exc))


def _job(args):
    prop, root, sid, text = args
    ov = apply_patch(root, text)
    if ov is None:
        return sid, "stale (context no longer matches the tree)", [], ""
    status, keys, err = run_on_variant(prop, root, ov)
    return sid, status, sorted({k.split("|")[0] for k in keys}), err


def run(prop: str, ctx: Context) -> Tuple[int, List[Dict]]:
    """Regression over the seeded changes that this property's rules are recorded to catch (16 processes)."""
    from concurrent.futures import ProcessPoolExecutor
    jobs = [(prop, ctx.repo.root, s["id"], s["patch_text"]) for s in seeds() if prop in s.get("caught_by", {})]
    rows = []
    rc = 0
    if not jobs:
        return rc, rows
    with ProcessPoolExecutor(max_workers=min(16, len(jobs))) as ex:
        results = list(ex.map(_job, jobs))
    for sid, status, rules, err in results:
        if status.startswith("stale"):
            rows.append({"seed": sid, "status": status})
            continue
        rows.append({"seed": sid, "status": status, "rules": rules, "error": err[:160]})
        if status != "violations":
            print(f"SEEDED-CHANGE-MISSED property={prop} seed={sid} status={status} {err[:120]}")
            rc = 2
    return rc, rows


REFACTORS_DIR = os.path.join(VERIF_DIR, "refactors")


def refactors() -> List[Dict]:
    out = []
    if not os.path.isdir(REFACTORS_DIR):
        return out
    for name in sorted(os.listdir(REFACTORS_DIR)):
        d = os.path.join(REFACTORS_DIR, name)
        mp, pp = os.path.join(d, "meta.json"), os.path.join(d, "patch.diff")
        if os.path.isfile(mp) and os.path.isfile(pp):
            meta = json.load(open(mp))
            meta["id"] = name
            meta["patch_text"] = open(pp).read()
            out.append(meta)
    return out


def _rjob(args):
    prop, root, rid, text = args
    ov = apply_patch(root, text)
    if ov is None:
        return rid, "stale (context no longer matches the tree)", [], ""
    status, keys, err = run_on_variant(prop, root, ov)
    return rid, status, keys[:3], err


def run_refactors(prop: str, ctx: Context) -> Tuple[int, List[Dict]]:
    """Independent behaviour-preserving refactorings written for this property must leave its rules silent."""
    from concurrent.futures import ProcessPoolExecutor
    metas = {r["id"]: r for r in refactors()}
    jobs = [(prop, ctx.repo.root, r["id"], r["patch_text"]) for r in metas.values() if r.get("property") == prop and r.get("keep_silent", True)]
    rows, rc = [], 0
    if not jobs:
        return rc, rows
    with ProcessPoolExecutor(max_workers=min(16, len(jobs))) as ex:
        results = list(ex.map(_rjob, jobs))
    for rid, status, keys, err in results:
        rows.append({"refactoring": rid, "status": status, "keys": keys, "error": err[:160]})
        if status == "violations":
            print(f"FALSE-ALARM-ON-REFACTORING property={prop} refactoring={rid} {keys}")
            rc = 2
        elif status == "analysis-error":
            if metas[rid].get("expected") == "cannot-decide":
                # recorded limit: the rules refuse to decide this restructuring (exit 2 on that tree, never a VIOLATION line)
                rows[-1]["status"] = "cannot-decide (recorded limit)"
                print(f"NOTE property={prop} refactoring={rid} cannot be decided (recorded limit): {err[:100]}")
            else:
                print(f"CANNOT-DECIDE-REFACTORING property={prop} refactoring={rid} {err[:120]}")
                rc = 2
    return rc, rows
